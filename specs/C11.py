"""C11 - option parsing totality (src/solver.cc: scanners, OptionHelper<T>::Parse, BasicSolver::ParseOptionString).

The option text is an arbitrary NUL-terminated byte string of any length.  Ghost g_nul_ptr is the address of
its terminating NUL; "the cursor is at or before a NUL of the same object" (VP_NUL_AT_OR_AFTER) is the invariant
every scanner must keep: no read ever happens past the terminator, for unterminated quotes as well.
"""
from vp.extract import Fn
from vp.run import Harness

SOLVER = 'src/solver.cc'

META = {
    'decides': 'for every NUL-terminated option text (any length, any bytes incl. unterminated quotes, missing values, '
               'non-ASCII): every read of the tokeniser and of the typed value parsers stays inside the string, the cursor only '
               'moves forward and never past the terminator, string values are built from in-range (pointer,length) pairs, '
               'the name buffer is large enough',
    'not_decided': 'the std::set lookup of FindOption by full name, synonym / wildcard matching beyond the two bounded stand-ins, what strtol / strtod return (library), echo output, the executable-specific variable name (std::filesystem), termination of the for(;;) loop when HandleUnknownOption returns without consuming input',
    'not_under_contract': ['SolverOptionManager::FindOption (set lookup; its synonym test and wc_match: bounded stand-ins)', 'TypedSolverOption<T>::Parse wrapper (calls OptionHelper<T>::Parse then SetValue)'],
    'assumptions': ['isspace is the "C" locale predicate, total on int (glibc table semantics; strict-C UB for negative '
                    'char values is not modelled)',
                    'strtol/strtod never move the end pointer past the first NUL of their argument'],
    'trusted_base': ['strtol/strtod/isspace stubs'],
}

PRE = '''
#include "stdio_stubs.h"
int vp_one;
#define assert(x) __CPROVER_assert(x, "assert(" #x ") of the source holds")
static int vp_isspace(int c) { return c == ' ' || (c >= 9 && c <= 13); }
#define isspace vp_isspace
#define FWD(p, old) (VP_NUL_AT_OR_AFTER(p) && __CPROVER_POINTER_OFFSET(p) >= __CPROVER_POINTER_OFFSET(old))
char *g_base; size_t g_n;
size_t g_qoff;      /* ghost: an arbitrary offset behind an opening quote (witness of 'no earlier occurrence of that quote') */
static const char *vp_mkstring(void) {
  g_n = nondet_size_t(); __CPROVER_assume(g_n >= 1 && g_n <= 100000);
  g_base = vp_malloc(g_n); g_base[g_n - 1] = 0;
  g_nul_ptr = g_base + g_n - 1;            /* the terminating NUL; all other bytes are arbitrary */
  size_t off = nondet_size_t(); __CPROVER_assume(off < g_n);
  return g_base + off;
}
'''

INV = 'VP_NUL_AT_OR_AFTER(s)'
DEC = '__CPROVER_decreases(__CPROVER_POINTER_OFFSET(g_nul_ptr) - __CPROVER_POINTER_OFFSET(s))'
SCAN_CONTRACT = ('__CPROVER_requires(VP_NUL_AT_OR_AFTER(s)) '
                 '__CPROVER_ensures(FWD(__CPROVER_return_value, s)) __CPROVER_assigns()')

QUOTE_CONTRACT = ('__CPROVER_requires(VP_NUL_AT_OR_AFTER(s) && (*s == \'\\\'\' || *s == \'"\')) '
                  '__CPROVER_ensures(VP_NUL_AT_OR_AFTER(__CPROVER_return_value) && '
                  '__CPROVER_POINTER_OFFSET(__CPROVER_return_value) >= __CPROVER_POINTER_OFFSET(s) + 1) '
                  # functional clause: the scan ends just behind a later occurrence of the opening quote character ITSELF (not the other kind of quote), or at the terminator
                  '__CPROVER_ensures(*__CPROVER_return_value == 0 || (__CPROVER_POINTER_OFFSET(__CPROVER_return_value) >= __CPROVER_POINTER_OFFSET(s) + 2 && __CPROVER_return_value[-1] == s[0])) '
                  '__CPROVER_assigns()')
QUOTE_INV = ''      # (a witness clause 'no earlier occurrence of the opening quote' was tried and dropped: unbounded ghost offsets; the end-of-scan clause decides the property's case)

SCANNERS = {
    'SkipSpaces': r'const char \*SkipSpaces\(const char \*s\)',
    'SkipNonSpaces': r'const char \*SkipNonSpaces\(const char \*s\)',
    'SkipToEnd': r'const char\* SkipToEnd\(const char\* s\)',
    'SkipToMatchingQuote': r'const char\* SkipToMatchingQuote\(const char\* s\)',
}


def scanner_fn(name, contract=True):
    c = SCAN_CONTRACT
    if name == 'SkipToMatchingQuote':
        c = QUOTE_CONTRACT
    return Fn(SOLVER, SCANNERS[name], 'const char *%s(const char *s)' % name, contract=c if contract else '',
              loops={0: '__CPROVER_assigns(s) __CPROVER_loop_invariant(%s && __CPROVER_POINTER_OFFSET(s) >= '
                        '__CPROVER_POINTER_OFFSET(__CPROVER_loop_entry(s))%s) %s' % (INV, QUOTE_INV if name == 'SkipToMatchingQuote' else '', DEC)},
              label='(anonymous)::' + name, nmatches=1)


def scanner_decl(name):
    c = SCAN_CONTRACT
    if name == 'SkipToMatchingQuote':
        c = QUOTE_CONTRACT
    return 'const char *%s(const char *s)\n%s;\n' % (name, c)


def h_scanner(name):
    pre = ''
    if name == 'SkipToMatchingQuote':
        pre = "__CPROVER_assume(*s == '\\'' || *s == '\"');"
    parts = [PRE, scanner_fn(name), '''
void harness(void) { vp_one = 1; const char *s = vp_mkstring(); %s
  %s(s); VP_REACH("normal return"); }
''' % (pre, name)]
    return Harness('C11.' + name, 'C11', parts, enforce=name, loop_contracts=True, expect_loop_obligations=1)


QUOTED = Fn(SOLVER, r'bool quoted\(const char\* s\)', 'bool quoted(const char *s)', label='mp::internal::quoted', nmatches=1)

PARSE_CONTRACT = ('__CPROVER_requires(__CPROVER_w_ok(s_p, sizeof(*s_p)) && VP_NUL_AT_OR_AFTER(*s_p)) '
                  '__CPROVER_ensures(FWD(*s_p, __CPROVER_old(*s_p))) __CPROVER_assigns(*s_p%s)')

NUM_STUBS = '''
#undef strtod
#undef strtol
long g_strtol_value;          /* ghost: what strtol returned */
#define VP_MAY_THROW_OptionError (g_strtol_value < INT_MIN || g_strtol_value > INT_MAX)
/* strtol / strtod never read past the first NUL: the end pointer is between the start and the known NUL */
long strtol(const char *p, char **endp, int base) {
  __CPROVER_assert(VP_NUL_AT_OR_AFTER(p), "strtol: argument is a NUL-terminated string");
  size_t k = nondet_size_t(); __CPROVER_assume(k <= VP_WITNESS_LEN(p));
  *endp = (char *)p + k; g_strtol_value = nondet_long(); return g_strtol_value;
}
double strtod(const char *p, char **endp) {
  __CPROVER_assert(VP_NUL_AT_OR_AFTER(p), "strtod: argument is a NUL-terminated string");
  size_t k = nondet_size_t(); __CPROVER_assume(k <= VP_WITNESS_LEN(p));
  *endp = (char *)p + k; return nondet_double();
}
'''


def parse_num_fn(T):
    anchor = {'int': r'int OptionHelper<int>::Parse\(const char \*\s*&?\s*s, bool\)',
              'double': r'double OptionHelper<double>::Parse\(const char \*\s*&?\s*s, bool\)'}[T]
    extra = ''
    if T == 'int':
        # "sets exactly that option to exactly that value": the int handed on is the number strtol read (no silent truncation)
        extra = ' __CPROVER_ensures(__CPROVER_return_value == g_strtol_value)'
    return Fn(SOLVER, anchor, '%s Parse_%s(const char **s_p, bool split)' % (T, T), contract=(PARSE_CONTRACT % (', g_strtol_value' if T == 'int' else '')) + extra,
              refs={'s': 's_p'}, label='mp::internal::OptionHelper<%s>::Parse' % T, nmatches=1)


def h_parse_num(T):
    parts = [PRE, NUM_STUBS, parse_num_fn(T), '''
void harness(void) { vp_one = 1; const char *s = vp_mkstring();
  Parse_%s(&s, nondet_bool()); VP_REACH("normal return"); }
''' % T]
    return Harness('C11.Parse.' + T, 'C11', parts, enforce='Parse_' + T, stubs=['strtol', 'strtod'])


STRING_SINK = '''
/* std::string(const char *p, size_t n): the range must be readable; a negative length (converted to a huge size_t)
   is the symptom of an unterminated quote */
int g_strings;
int vp_string(const char *p, long n) {
  __CPROVER_assert(n >= 0, "string value has a non-negative length");
  __CPROVER_assert(n <= 0 || __CPROVER_r_ok(p, (size_t)n), "string value bytes are inside the option text");
  g_strings++; return 0;
}
'''


def parse_string_fn():
    return Fn(SOLVER, r'std::string OptionHelper<std::string>::Parse\(const char \*\s*&?\s*s, bool splitString\)',
              'int Parse_string(const char **s_p, bool splitString)', contract=PARSE_CONTRACT % ', g_strings',
              subst=[(r'std::string\(', 'vp_string(', -1)], refs={'s': 's_p'},
              label='mp::internal::OptionHelper<std::string>::Parse', nmatches=1)


def h_parse_string():
    parts = [PRE, STRING_SINK, scanner_decl('SkipToEnd'), scanner_decl('SkipToMatchingQuote'), scanner_decl('SkipNonSpaces'),
             QUOTED, parse_string_fn(), '''
void harness(void) { vp_one = 1; const char *s = vp_mkstring(); g_strings = 0;
  Parse_string(&s, nondet_bool()); VP_REACH("normal return"); }
''']
    return Harness('C11.Parse.string', 'C11', parts, enforce='Parse_string',
                   replace=['SkipToEnd', 'SkipToMatchingQuote', 'SkipNonSpaces'],
                   stubs=['std::string(const char*, size_t) (sink: length >= 0, bytes readable)'],
                   note='modular: scanners by their contracts')


POS_STUBS = '''
struct SolverOption { int flag; };
struct SolverOption g_opt;
int has_errors_;
/* name buffer: fmt::internal::MemoryBuffer<char,50>::resize(n) gives at least n writable bytes.  DFCC forbids
   allocation inside contract loops: pool of arbitrary size, the request is assumed to be exactly that size */
static char *vp_buffer_resize(size_t n) { __CPROVER_assume(n == g_big_size); return g_big; }
struct SolverOption *FindOption(const char *name, bool wildcardvalues) {
  __CPROVER_assert(__CPROVER_r_ok(name, 1), "FindOption: name buffer readable");
  g_opt.flag = nondet_bool();
  return nondet_bool() ? &g_opt : (struct SolverOption *)0;
}
int g_may_throw;
#define VP_THROWING_CALL do { if (nondet_bool()) __CPROVER_assume(0); } while (0)    /* the callee may throw: path ends */
void HandleUnknownOption(const char *name) { VP_THROWING_CALL; has_errors_ = 1; }
#define ReportError(...) (has_errors_ = 1)
void vp_print(void) {}
bool vp_opt_is_flag(struct SolverOption *o) { return o->flag; }      /* fixed per looked-up option (FindOption chooses it) */
/* SolverOption::Parse -> TypedSolverOption<T>::Parse -> OptionHelper<T>::Parse: contract proved by C11.Parse.* */
void vp_opt_Parse(const char **s_p, bool split)
__CPROVER_requires(__CPROVER_w_ok(s_p, sizeof(*s_p)) && VP_NUL_AT_OR_AFTER(*s_p))
__CPROVER_ensures(FWD(*s_p, __CPROVER_old(*s_p))) __CPROVER_assigns(*s_p);
enum { NO_OPTION_ECHO = 1, FROM_COMMAND_LINE = 2 };
/* 'name=?' leaves all values unchanged: the value parser is never invoked on a query token ('?' followed by the end of the text or white space) */
#define VP_NOT_FLAG_WITH_VALUE(eq, opt) __CPROVER_assert(!((eq) && (opt)->flag), "a value given to a flag is reported as an error: the option is not parsed (no option changes)")
#define VP_NOT_A_QUERY(s) __CPROVER_assert(!((s)[0] == '?' && ((s)[1] == 0 || vp_isspace((s)[1]))), "a query 'name=?' does not reach the value parser: all option values stay unchanged")
'''


def pos_fn():
    return Fn(SOLVER, r'void BasicSolver::ParseOptionString\(\s*const char \*s, unsigned flags\)',
              'void ParseOptionString(const char *s, unsigned flags)',
              contract='__CPROVER_requires(VP_NUL_AT_OR_AFTER(s) && g_big_size >= 1 && g_big_size <= 100001 && __CPROVER_OBJECT_SIZE(g_big) == g_big_size && __CPROVER_POINTER_OFFSET(g_big) == 0) '
                       '__CPROVER_assigns(has_errors_, g_opt, __CPROVER_object_whole(g_big))',
              subst=[(r'fmt::internal::MemoryBuffer<char, 50> name;', 'char *name;', 1),
                     (r'name\.resize\(([^;]*)\);', r'name = vp_buffer_resize(\1);', 1),       # the size expression is kept as written
                     (r'SolverOption \*opt = ', 'struct SolverOption *opt = ', 1),
                     (r'opt->Parse\(s, ', 'VP_NOT_A_QUERY(s); VP_NOT_FLAG_WITH_VALUE(equal_sign, opt); vp_opt_Parse(&s, ', 3),
                     (r'opt->is_flag\(\)', 'vp_opt_is_flag(opt)', 2),
                     (r'Print\("  \{\}\\n", opt->echo_with_value\(\)\);', 'vp_print();', 1),      # R18: echo
                     (r"Print\(\"  \{\}\", opt->echo_with_value\(\) \+ '\\n'\);", 'vp_print();', 1)],
              loops={0: '__CPROVER_assigns(s, has_errors_, g_opt, __CPROVER_object_whole(g_big)) __CPROVER_loop_invariant(%s)' % INV,
                     1: '__CPROVER_assigns(s) __CPROVER_loop_invariant(%s && __CPROVER_POINTER_OFFSET(s) >= __CPROVER_POINTER_OFFSET(name_start)) %s' % (INV, DEC),
                     2: '__CPROVER_assigns(i, __CPROVER_object_whole(g_big)) __CPROVER_loop_invariant(i <= name_size) __CPROVER_decreases(name_size - i)'},
              label='mp::BasicSolver::ParseOptionString', nmatches=1)


def h_pos():
    parts = [PRE, POS_STUBS, scanner_decl('SkipSpaces'), scanner_decl('SkipNonSpaces'), pos_fn(), '''
void harness(void) { vp_one = 1; const char *s = vp_mkstring();
  g_big_size = nondet_size_t(); __CPROVER_assume(g_big_size >= 1 && g_big_size <= 100001);
  g_big = vp_malloc(g_big_size); g_big_hi = 0; has_errors_ = 0;
  ParseOptionString(s, nondet_unsigned()); VP_REACH("normal return"); }
''']
    return Harness('C11.ParseOptionString', 'C11', parts, enforce='ParseOptionString',
                   replace=['SkipSpaces', 'SkipNonSpaces', 'vp_opt_Parse'], loop_contracts=True, expect_loop_obligations=3,
                   timeout=900, object_bits=10,
                   stubs=['SolverOptionManager::FindOption (any option or none)', 'HandleUnknownOption (may throw)', 'ReportError',
                          'Print / echo_with_value', 'SolverOption::is_flag', 'SolverOption::Parse (contract of OptionHelper<T>::Parse)',
                          'fmt::internal::MemoryBuffer<char,50> (pool of exactly the requested size)'],
                   note='modular: scanners and value parsers by their contracts')


PO_STUBS = '''
int has_errors_; unsigned bool_options_, option_flag_save_;
enum { SHOW_VERSION = 4, NO_OPTION_ECHO = 1, FROM_COMMAND_LINE = 2 };
/* the environment: which of the three variables are set (arbitrary) */
_Bool g_has_mp, g_has_exe, g_has_name; const char g_mp[2], g_exe[2], g_nm[2], g_path[4];
static const char *vp_getenv_mp(void) { return g_has_mp ? g_mp : (const char *)0; }
static const char *vp_getenv_exe(void) { return g_has_exe ? g_exe : (const char *)0; }
static const char *vp_getenv_name(void) { return g_has_name ? g_nm : (const char *)0; }
size_t g_pathlen;
static const char *exe_path(void) { return g_path; }
#define strlen(p) g_pathlen
static void ShowVersion(void) {}
/* ghost: the sources handed to ParseOptionString, in order.  stage 0 nothing yet, 1 after mp_options, 2 after the solver variable, 3 command line */
int g_stage, g_argi, g_nargs, g_read; const char **g_argv; unsigned g_flags0;
const char g_tokens[1002];           /* argument k of the command line is the string at g_tokens + k; the array ends with a null pointer after g_nargs arguments */
static const char *vp_next_arg(void) { const char *r = g_read < g_nargs ? g_tokens + g_read : (const char *)0; if (g_read <= g_nargs) g_read++; return r; }
static void ParseOptionString(const char *s, unsigned flags) {
  if (s == g_mp) { __CPROVER_assert(g_stage == 0 && g_has_mp, "mp_options is parsed first"); __CPROVER_assert(flags == g_flags0, "environment options are parsed with the caller's flags"); g_stage = 1; }
  else if (s == g_exe) { __CPROVER_assert(g_stage <= 1 && (g_stage == 1) == g_has_mp && g_has_exe && g_pathlen != 0, "<executable>_options comes after mp_options"); __CPROVER_assert(flags == g_flags0, "environment options are parsed with the caller's flags"); g_stage = 2; }
  else if (s == g_nm) { __CPROVER_assert(g_stage <= 1 && (g_stage == 1) == g_has_mp && g_has_name && !(g_has_exe && g_pathlen != 0), "<solver>_options comes after mp_options and only when no <executable>_options was found"); __CPROVER_assert(flags == g_flags0, "environment options are parsed with the caller's flags"); g_stage = 2; }
  else {
    __CPROVER_assert(g_argi < g_nargs && s == g_tokens + g_argi, "command-line arguments are parsed in their order, after the environment");
    __CPROVER_assert((g_stage >= 1) == (g_has_mp || g_stage >= 2) && (g_stage == 3 || g_argi == 0), "the command line comes last");
    __CPROVER_assert((g_stage == 2 || g_stage == 3 || !((g_has_exe && g_pathlen != 0) || g_has_name)), "the solver's environment variable, when set, is parsed before the command line");
    __CPROVER_assert(flags == (g_flags0 | FROM_COMMAND_LINE), "command-line options are parsed with FROM_COMMAND_LINE");
    g_stage = 3; g_argi++; }
}
'''


def h_parse_options():
    """BasicSolver::ParseOptions: the order of the sources (mp_options, <executable>_options or else <solver>_options, command line)"""
    fn = Fn(SOLVER, r'bool BasicSolver::ParseOptions\(char \*\*argv, unsigned flags, const ASLProblem \*\)', 'bool ParseOptions(const char **argv, unsigned flags)',
            contract='__CPROVER_requires(g_stage == 0 && g_argi == 0 && g_read == 0 && g_nargs >= 0 && g_nargs <= 1000 && flags == g_flags0 && (flags & FROM_COMMAND_LINE) == 0) '
                     '__CPROVER_ensures(argv == 0 || g_argi == g_nargs) '
                     '__CPROVER_ensures(g_has_mp ==> g_stage >= 1) '
                     '__CPROVER_ensures(((g_has_exe && g_pathlen != 0) || g_has_name) ==> g_stage >= 2) '
                     '__CPROVER_ensures(__CPROVER_return_value == !has_errors_) '
                     '__CPROVER_assigns(has_errors_, bool_options_, option_flag_save_, g_stage, g_argi, g_read)',
            subst=[(r'\*argv\+\+', 'vp_next_arg()', 1), (r'std::getenv\("mp_options"\)', 'vp_getenv_mp()', 1),
                   (r'path p\(s\);.*?exe_basename = exe_basename\.substr\(0, pt\);\s*\}', '', 1),
                   (r'std::getenv\(\(exe_basename \+ "_options"\)\.c_str\(\)\)', 'vp_getenv_exe()', 1),
                   (r'std::getenv\(\(name_ \+ "_options"\)\.c_str\(\)\)', 'vp_getenv_name()', 1)],
            loops={0: '__CPROVER_assigns(g_stage, g_argi, g_read, has_errors_) __CPROVER_loop_invariant(0 <= g_argi && g_argi <= g_nargs && g_read == g_argi && '
                      '(g_argi > 0 ==> g_stage == 3) && (g_argi == 0 ==> g_stage == __CPROVER_loop_entry(g_stage))) __CPROVER_decreases(g_nargs - g_argi)'},
            label='mp::BasicSolver::ParseOptions', nmatches=1)
    parts = ['#include "mp_shim.h"\nint vp_one;\n', PO_STUBS, fn, '''
void harness(void) { vp_one = 1;
  g_has_mp = nondet_bool(); g_has_exe = nondet_bool(); g_has_name = nondet_bool(); g_pathlen = nondet_size_t(); g_flags0 = nondet_unsigned(); g_nargs = nondet_int();
  g_argv = nondet_bool() ? (const char **)g_tokens : (const char **)0; g_stage = 0; g_argi = 0; g_read = 0; has_errors_ = nondet_int();
  ParseOptions(g_argv, g_flags0); VP_REACH("normal return"); }
''']
    return Harness('C11.ParseOptions.order', 'C11', parts, enforce='ParseOptions', loop_contracts=True, expect_loop_obligations=1, timeout=300,
                   stubs=['std::getenv (arbitrary environment)', 'ParseOptionString (ghost: asserts the order and the flags of the sources)', 'std::filesystem::path / basename computation (dropped: the name of the executable-specific variable is opaque)'],
                   note='later sources override earlier ones because each assignment sets the option (C11.ParseOptionString) and the sources are parsed in this order')


_drv = [None]


def replay(lead, inputs, obs):
    """The loop-contract counterexample is not a concrete text: search the neighbourhood natively (real ParseOptionString
    on exactly sized heap buffers under ASan/UBSan)."""
    import subprocess
    from vp import native
    if _drv[0] is None:
        _drv[0] = native.build_driver('c11_replay.cc', 'c11_replay', native.MP_SOURCES,
                                      ['-O0', '-g', '-fsanitize=address,undefined', '-fno-sanitize-recover=all'], tag='asan')[0]
    p = subprocess.run([_drv[0], '--sweep'], capture_output=True, text=True, timeout=600)
    return p.returncode != 0, (p.stdout + p.stderr)[-2500:], _drv[0] + ' --sweep'


def h_wc_match():
    """BOUNDED stand-in (strings of at most 5 characters, one wildcard form head*tail): SolverOption::wc_match - a key addresses the wildcard
    option head*tail when it starts with head and ends with tail: a reported match implies both, and a key head+body+tail with a non-empty
    body is matched, with exactly that body recorded.  std::string is a char array with length; rfind / find / substr are C models of the
    library functions (trusted).  Not a proof: the bound is stated in the evidence."""
    N = 5
    parts = ['#include "mp_shim.h"\nint vp_one;\n', '''
#define VP_MAXLEN %d
typedef struct { char c[VP_MAXLEN + 1]; size_t n; } Str;
typedef struct { Str first, second; } HeadTail;
#define NPOS ((size_t)-1)
Str g_key; HeadTail g_wc; size_t g_nwc;                 /* the key, the wildcard form (head, tail), the number of forms (0 or 1) */
size_t g_body_pos, g_body_len; _Bool g_body_set;
/* models of std::string members (C++ standard semantics) */
static size_t vp_size(Str s) { return s.n; }
static size_t vp_rfind3(Str s_, Str t_, size_t pos) { const Str *s = &s_, *t = &t_;           /* last i <= pos with s[i, i+|t|) == t */
  if (t->n > s->n) return NPOS;
  size_t i = s->n - t->n; if (pos < i) i = pos;
  for (;; --i) { size_t k = 0; while (k < t->n && s->c[i + k] == t->c[k]) ++k; if (k == t->n) return i; if (i == 0) return NPOS; }
}
static size_t vp_find3(Str s_, Str t_, size_t pos) { const Str *s = &s_, *t = &t_;            /* first i >= pos with s[i, i+|t|) == t */
  if (t->n > s->n) return NPOS;
  for (size_t i = pos; i + t->n <= s->n; ++i) { size_t k = 0; while (k < t->n && s->c[i + k] == t->c[k]) ++k; if (k == t->n) return i; }
  return NPOS;
}
/* default arguments: rfind(str, pos = npos), find(str, pos = 0) */
#define VP_SEL3(s, t, pos, ...) (s), (t), (pos)
#define vp_rfind(...) vp_rfind3(VP_SEL3(__VA_ARGS__, NPOS))
#define vp_find(...) vp_find3(VP_SEL3(__VA_ARGS__, 0))
static void vp_substr(Str s_, size_t pos, size_t len) { const Str *s = &s_; __CPROVER_assert(pos <= s->n, "substr: position inside the string (else std::out_of_range)");
  g_body_pos = pos; g_body_len = len < s->n - pos ? len : s->n - pos; g_body_set = 1; }
#define VP_LEN(x) g_nwc
#define VP_AT(x, k) (g_wc)
static _Bool starts(const Str *s, const Str *t) { if (t->n > s->n) return 0; for (size_t k = 0; k < t->n; ++k) if (s->c[k] != t->c[k]) return 0; return 1; }
static _Bool ends(const Str *s, const Str *t) { if (t->n > s->n) return 0; for (size_t k = 0; k < t->n; ++k) if (s->c[s->n - t->n + k] != t->c[k]) return 0; return 1; }
''' % N,
             Fn(SOLVER, r'bool SolverOption::wc_match\(const std::string &key\)', '_Bool wc_match(Str key)',
                subst=[(r'key\.(rfind|find)\(', r'vp_\1(key, ', -1), (r'\b(key|wcht\.first|wcht\.second)\.size\(\)', r'vp_size(\1)', -1),
                       (r'wc_key_last_ = key;', '', 1), (r'wc_body_last_ = key\.substr\(', 'vp_substr(key, ', 1)],
                label='mp::SolverOption::wc_match', nmatches=1), '''
void harness(void) { vp_one = 1;
  { Str a, b, c; g_key = a; g_wc.first = b; g_wc.second = c; g_nwc = nondet_size_t(); }   /* arbitrary strings (statics are zero in plain mode) */
  __CPROVER_assume(g_key.n <= VP_MAXLEN && g_wc.first.n <= VP_MAXLEN && g_wc.second.n <= VP_MAXLEN && g_nwc <= 1);
  g_body_set = 0;
  _Bool m = wc_match(g_key);
  _Bool st = starts(&g_key, &g_wc.first), en = ends(&g_key, &g_wc.second);
  if (m) __CPROVER_assert(g_nwc == 1 && st && en, "a key reported as matching head*tail starts with head and ends with tail");
  if (g_nwc == 1 && st && en && g_key.n >= g_wc.first.n + g_wc.second.n + 1) {
    __CPROVER_assert(m, "a key head + body + tail with a non-empty body addresses the wildcard option");
    __CPROVER_assert(g_body_set && g_body_pos == g_wc.first.n && g_body_len == g_key.n - g_wc.first.n - g_wc.second.n, "the part between head and tail is recorded as the wildcard body");
  }
  VP_REACH("end");
}
''']
    return Harness('C11.SolverOption.wc_match.bounded', 'C11', parts, plain=True, bounded={'unwind': N + 3, 'reason': 'strings of at most %d characters, at most one wildcard form; std::string::rfind/find/substr are C models' % N},
                   stubs=['std::string (char array with length; rfind / find / substr modelled in C)'], timeout=600)


def h_synonym_match():
    """BOUNDED stand-in (names of at most 5 characters): the synonym test of SolverOptionManager::FindOption (the lambda handed to find_if) -
    a typed name addresses an option through an inline synonym exactly when the two are equal ignoring letter case (not a prefix, not a
    longer name).  strcasecmp / strncasecmp are C models of the POSIX functions over char arrays with length."""
    N = 5
    parts = ['#include "mp_shim.h"\nint vp_one;\n', '''
#define VP_MAXLEN %d
typedef struct { char c[VP_MAXLEN + 1]; size_t n; } Str;      /* c[n] == 0 */
static int lower(int ch) { return ch >= 'A' && ch <= 'Z' ? ch + 32 : ch; }
static const char *vp_c_str(const Str *s) { return s->c; }
static size_t vp_size(const Str *s) { return s->n; }
static int strncasecmp(const char *a, const char *b, size_t n) { for (size_t k = 0; k < n; ++k) { int x = lower((unsigned char)a[k]), y = lower((unsigned char)b[k]); if (x != y) return x - y; if (!x) return 0; } return 0; }
static int strcasecmp(const char *a, const char *b) { return strncasecmp(a, b, VP_MAXLEN + 1); }
''' % N,
             Fn(SOLVER, r'\[&name_str\]\(const std::string& syn\)', '_Bool synonym_matches(const Str *name_str, const Str *syn)',
                subst=[(r'\b(name_str|syn)\.c_str\(\)', r'vp_c_str(\1)', -1), (r'\b(name_str|syn)\.size\(\)', r'vp_size(\1)', -1)],
                label='mp::SolverOptionManager::FindOption [synonym test]', nmatches=1), '''
void harness(void) { vp_one = 1; Str a, b;
  __CPROVER_assume(a.n <= VP_MAXLEN && b.n <= VP_MAXLEN && a.c[a.n] == 0 && b.c[b.n] == 0);
  for (size_t k = 0; k < VP_MAXLEN; ++k) { if (k < a.n) __CPROVER_assume(a.c[k] != 0); if (k < b.n) __CPROVER_assume(b.c[k] != 0); }
  _Bool m = synonym_matches(&a, &b);
  _Bool eq = a.n == b.n; for (size_t k = 0; k < VP_MAXLEN; ++k) if (k < a.n && k < b.n && lower((unsigned char)a.c[k]) != lower((unsigned char)b.c[k])) eq = 0;
  __CPROVER_assert(m == eq, "a name matches a synonym exactly when they are the same name up to letter case");
  VP_REACH("end");
}
''']
    return Harness('C11.FindOption.synonym.bounded', 'C11', parts, plain=True, bounded={'unwind': N + 3, 'reason': 'names of at most %d characters; strcasecmp / strncasecmp are C models' % N},
                   stubs=['std::string (char array with length)', 'strcasecmp / strncasecmp (C models of the POSIX functions)'], timeout=600)


def harnesses(tier, seed):
    hs = [h_scanner(n) for n in SCANNERS]
    hs += [h_parse_num('int'), h_parse_num('double'), h_parse_string(), h_pos(), h_parse_options(), h_wc_match(), h_synonym_match()]
    for h in hs:
        h.replay = replay
    return hs
