"""C10 - solve-result classification (include/mp/backend-std.h, enum sol::Status in common.h).

Postconditions are the documented ranges copied from the property statement:
0-99 solved, 100-199 uncertain, 200-299 infeasible, 300-349 unbounded with solution,
350-399 unbounded without, 400-449 limit with solution, 450-469 undecided inf/unb,
470-499 limit without solution, 500-999 failure.
"""
from vp.extract import Fn
from vp.run import Harness

BACKEND = 'include/mp/backend-std.h'
COMMON = 'include/mp/common.h'

META = {
    'decides': 'for every int solve code: each StdBackend range predicate is true exactly on its documented range; '
               'the enum constants equal the documented numbers; the objective value is written into the solve '
               'message exactly when the code indicates a solution candidate and an objective value exists',
    'not_decided': 'that the code written to the .sol file equals SolveCode() (pass-through across HandleSolution -> '
                   'SolutionWriterImpl -> WriteSolFile, C++ formatting code); the -! table; overriding of the virtual '
                   'predicates by solver drivers (grep-level fact only)',
    'not_under_contract': ['BasicSolver::AddSolveResults / SolveResultRegistry', 'SolutionWriterImpl::HandleSolution',
                           'mp::WriteSolFile (solve code line)'],
    'assumptions': ['SolveCode() is rendered as a read of one ghost int (it is virtual; no override in include/ or solvers/visitor)',
                    'assert() is kept as a checked obligation under the precondition code != NOT_SET'],
    'trusted_base': [],
}

PRELUDE = '''
int vp_one;
int g_sc;
int SolveCode(void) { return g_sc; }
#define assert(x) __CPROVER_assert(x, "assert(" #x ") of the source holds")
#define IN(lo, hi) ((lo) <= g_sc && g_sc <= (hi))
'''

ENUM = ('enum', COMMON, r'enum Status\s*\{', 'sol_')

# name -> documented set (from the statement)
PREDS = {
    'IsProblemSolved': 'IN(0, 99)',
    'IsProblemSolvedOrFeasible': '(IN(0, 99) || IN(300, 349) || IN(400, 449))',
    'IsProblemIndiffInfOrUnb': 'IN(450, 469)',
    'IsProblemInfOrUnb': '(IN(200, 399) || IN(450, 469))',
    'IsProblemInfeasible': 'IN(200, 299)',
    'IsProblemUnbounded': 'IN(300, 399)',
}


def pred_fn(name, with_contract):
    contract = ''
    if with_contract:
        contract = ('__CPROVER_requires(g_sc != -200) '
                    '__CPROVER_ensures(__CPROVER_return_value == (%s)) __CPROVER_assigns()' % PREDS[name])
    return Fn(BACKEND, r'virtual bool %s\(\) const' % name, 'bool %s(void)' % name, contract=contract,
              label='mp::StdBackend::%s' % name, nmatches=1)


def retrieved_fn(contract=''):
    return Fn(BACKEND, r'virtual bool IsSolStatusRetrieved\(\) const', 'bool IsSolStatusRetrieved(void)',
              contract=contract, label='mp::StdBackend::IsSolStatusRetrieved', nmatches=1)


def pred_harness(name):
    parts = [PRELUDE, ENUM, retrieved_fn()]
    if name == 'IsProblemInfOrUnb':
        parts.append(pred_fn('IsProblemIndiffInfOrUnb', False))
    parts.append(pred_fn(name, True))
    parts.append('''
int vp_in_sc;
void harness(void) {
  vp_one = 1;
  int sc = nondet_int();
  __CPROVER_assume(sc != -200);
  g_sc = sc; vp_in_sc = sc;
  %s();
  VP_REACH("normal return");
}
''' % name)
    return Harness('C10.' + name, 'C10', parts, enforce=name, inputs=['vp_in_sc'], replay=make_replay(name))


def retrieved_harness():
    parts = [PRELUDE, ENUM,
             retrieved_fn('__CPROVER_ensures(__CPROVER_return_value == (g_sc != -200)) __CPROVER_assigns()'),
             '''
int vp_in_sc;
void harness(void) { vp_one = 1; int sc = nondet_int(); g_sc = sc; vp_in_sc = sc; IsSolStatusRetrieved(); VP_REACH("normal return"); }
''']
    return Harness('C10.IsSolStatusRetrieved', 'C10', parts, enforce='IsSolStatusRetrieved', inputs=['vp_in_sc'])


DOCUMENTED = [('NOT_SET', -200), ('UNKNOWN', -1), ('SOLVED', 0), ('SOLVED_LAST', 99), ('UNCERTAIN', 100),
              ('UNCERTAIN_LAST', 199), ('INFEASIBLE', 200), ('INFEASIBLE_LAST', 299), ('UNBOUNDED_FEAS', 300),
              ('UNBOUNDED_FEAS_LAST', 349), ('UNBOUNDED_NO_FEAS', 350), ('UNBOUNDED_NO_FEAS_LAST', 399),
              ('LIMIT_FEAS', 400), ('LIMIT_FEAS_LAST', 449), ('LIMIT_INF_UNB', 450), ('LIMIT_INF_UNB_LAST', 469),
              ('LIMIT_NO_FEAS', 470), ('LIMIT_NO_FEAS_LAST', 499), ('FAILURE', 500), ('FAILURE_LAST', 999),
              ('MP_SOLUTION_CHECK', 150), ('MP_SOLUTION_CHECK_LAST', 159)]


def enum_harness():
    body = '\n'.join('  __CPROVER_assert(sol_%s == %d, "enum sol::Status: %s is the documented %d");' % (n, v, n, v)
                     for n, v in DOCUMENTED)
    parts = [PRELUDE, ENUM, 'void harness(void) {\n%s\n  VP_REACH("end");\n}\n' % body]
    return Harness('C10.enum.ranges', 'C10', parts, note='lemma: enum constants = documented range ends')


MSG_SUBST = [
    (r'sol\.objvals\.size\(\)', 'g_nobj', 3),
    (r'sol\.objvals\[', 'g_objvals[', 3),
    (r'writer\.write\((?="[^"]*objective [^"]*")', 'vp_write_obj(', 4),
    (r'writer\.write\(', 'vp_write_other(', 3),
    (r'if \(feasrelax\(\)\)', 'if (feasrelax().mode_)', 1),
    (r'MPD\(\s*IsMIP\(\)\s*\)', 'IsMIP()', 1),
    (r'RoundSolution\(sol\.primal, writer\)', 'RoundSolution()', 1),
]


def message_harness():
    """The objective clause of ReportSolution2AMPL: block from 'if (IsProblemSolvedOrFeasible()) {' up to
    'if (exportKappa() && 1)', with the writer / formatting / rounding calls as stubs."""
    parts = [PRELUDE, ENUM, '''
size_t g_nobj; double *g_objvals; double obj_value;
int g_wrote_objective;       /* ghost: set by the writer stub when the format mentions "objective " */
int g_mip, g_round;
struct FeasRelax { int mode_; bool orig_obj_available_; double orig_obj_value_; } g_fr;
struct FeasRelax feasrelax(void) { return g_fr; }
double FormatObjValue(double v) { return v; }
int round(void) { return g_round; }
bool IsMIP(void) { return g_mip; }
void RoundSolution(void) {}
/* fmt::MemoryWriter::write(fmt, args...): arguments are evaluated, the text is dropped; the extractor
   routes writes whose format literal contains "objective " to vp_write_obj, the others to vp_write_other */
void vp_write3(int obj, double a, double b) { if (obj) g_wrote_objective = 1; }
#define VP_W1(o, f) vp_write3(o, 0, 0)
#define VP_W2(o, f, a) vp_write3(o, (double)(a), 0)
#define VP_W3(o, f, a, b) vp_write3(o, (double)(a), (double)(b))
#define VP_WSEL(_0, _1, _2, _3, NAME, ...) NAME
#define vp_write_obj(...) VP_WSEL(1, __VA_ARGS__, VP_W3, VP_W2, VP_W1)(1, __VA_ARGS__)
#define vp_write_other(...) VP_WSEL(0, __VA_ARGS__, VP_W3, VP_W2, VP_W1)(0, __VA_ARGS__)
/* contract proved by C10.IsProblemSolvedOrFeasible */
bool IsProblemSolvedOrFeasible(void)
__CPROVER_requires(g_sc != -200)
__CPROVER_ensures(__CPROVER_return_value == (IN(0, 99) || IN(300, 349) || IN(400, 449)))
__CPROVER_assigns();
''',
             Fn(BACKEND, r'if \(IsProblemSolvedOrFeasible\(\)\) \{\s*if \(sol\.objvals\.size\(\)\) \{',
                'void vp_report_objective(void)',
                block_end=r'RoundSolution\(sol\.primal, writer\);\s*\}',
                contract='__CPROVER_requires(g_sc != -200 && g_nobj <= 1000000 && __CPROVER_is_fresh(g_objvals, (g_nobj ? g_nobj : 1) * sizeof(double)))'
                         '__CPROVER_requires(g_wrote_objective == 0)'
                         '__CPROVER_ensures((g_wrote_objective != 0) == ((IN(0, 99) || IN(300, 349) || IN(400, 449)) && g_nobj >= 1))'
                         '__CPROVER_assigns(g_wrote_objective, obj_value)',
                subst=MSG_SUBST,
                loops={0: '__CPROVER_assigns(i) __CPROVER_loop_invariant(i <= g_nobj && g_wrote_objective == 1) __CPROVER_decreases(g_nobj - i)'},
                label='mp::StdBackend::ReportSolution2AMPL [objective block]'),
             '''
int vp_in_sc; size_t vp_in_nobj;
void harness(void) {
  vp_one = 1;
  int sc = nondet_int(); __CPROVER_assume(sc != -200);
  g_sc = sc; vp_in_sc = sc;
  g_nobj = nondet_size_t(); vp_in_nobj = g_nobj;
  g_mip = nondet_int(); g_round = nondet_int();
  g_fr.mode_ = nondet_int(); g_fr.orig_obj_available_ = nondet_bool(); g_fr.orig_obj_value_ = 0;
  g_wrote_objective = 0; obj_value = 0;
  g_objvals = nondet_ptr();
  vp_report_objective();
  VP_REACH("normal return");
}
''']
    return Harness('C10.message.objective', 'C10', parts, enforce='vp_report_objective',
                   replace=['IsProblemSolvedOrFeasible'], loop_contracts=True, expect_loop_obligations=1,
                   inputs=['vp_in_sc', 'vp_in_nobj'],
                   stubs=['fmt::MemoryWriter::write (ghost: records whether the format literal mentions "objective ")',
                          'FormatObjValue', 'feasrelax()', 'round()', 'IsMIP()', 'RoundSolution'],
                   note='modular: uses the contract of IsProblemSolvedOrFeasible')


_drv = [None]


def make_replay(name):
    import subprocess
    from vp import native

    def replay(lead, inputs, obs):
        sc = inputs.get('vp_in_sc')
        if sc is None:
            return False, 'no concrete code in the verifier trace', ''
        if _drv[0] is None:
            _drv[0] = native.build_driver('c10_replay.cc', 'c10_replay', native.MP_SOURCES, ['-O0', '-DNDEBUG'])[0]
        args = [_drv[0], name, str(sc)]
        p = subprocess.run(args, capture_output=True, text=True)
        return p.returncode == 1, (p.stdout + p.stderr)[-2000:], ' '.join(args)
    return replay


def harnesses(tier, seed):
    hs = [pred_harness(n) for n in PREDS]
    hs.append(retrieved_harness())
    hs.append(enum_harness())
    hs.append(message_harness())
    return hs
