"""C10 - solve-result classification (include/mp/backend-std.h, enum sol::Status in common.h).

Postconditions are the documented ranges copied from the property statement:
0-99 solved, 100-199 uncertain, 200-299 infeasible, 300-349 unbounded with solution,
350-399 unbounded without, 400-449 limit with solution, 450-469 undecided inf/unb,
470-499 limit without solution, 500-999 failure.
"""
from vp.extract import Fn
from vp.run import Harness

BACKEND = 'include/mp/backend-std.h'
COMMON = 'include/mp/common.h'

META = {
    'decides': 'for every int solve code: each StdBackend range predicate is true exactly on its documented range; '
               'the enum constants equal the documented numbers; the objective value is written into the solve '
               'message exactly when the code indicates a solution candidate and an objective value exists',
    'not_decided': 'the virtual dispatch between the hops of the pass-through (proved hop by hop: the call made by each hop carries the code it received; that the callee reached is the next hop is C++ dispatch, read off the source); the -! table; AppSolutionHandlerImpl wantsol branches; overriding of the virtual predicates by solver drivers (grep-level fact only)',
    'not_under_contract': ['BasicSolver::AddSolveResults / SolveResultRegistry', 'AppSolutionHandlerImpl::HandleSolution (wantsol branches)'],
    'assumptions': ['SolveCode() is rendered as a read of one ghost int (it is virtual; no override in include/ or solvers/visitor)',
                    'assert() is kept as a checked obligation under the precondition code != NOT_SET'],
    'trusted_base': [],
}

PRELUDE = '''
int vp_one;
int g_sc;
int SolveCode(void) { return g_sc; }
#define assert(x) __CPROVER_assert(x, "assert(" #x ") of the source holds")
#define IN(lo, hi) ((lo) <= g_sc && g_sc <= (hi))
'''

ENUM = ('enum', COMMON, r'enum Status\s*\{', 'sol_')

# name -> documented set (from the statement)
PREDS = {
    'IsProblemSolved': 'IN(0, 99)',
    'IsProblemSolvedOrFeasible': '(IN(0, 99) || IN(300, 349) || IN(400, 449))',
    'IsProblemIndiffInfOrUnb': 'IN(450, 469)',
    'IsProblemInfOrUnb': '(IN(200, 399) || IN(450, 469))',
    'IsProblemInfeasible': 'IN(200, 299)',
    'IsProblemUnbounded': 'IN(300, 399)',
}


def pred_fn(name, with_contract):
    contract = ''
    if with_contract:
        contract = ('__CPROVER_requires(g_sc != -200) '
                    '__CPROVER_ensures(__CPROVER_return_value == (%s)) __CPROVER_assigns()' % PREDS[name])
    return Fn(BACKEND, r'virtual bool %s\(\) const' % name, 'bool %s(void)' % name, contract=contract,
              label='mp::StdBackend::%s' % name, nmatches=1)


def retrieved_fn(contract=''):
    return Fn(BACKEND, r'virtual bool IsSolStatusRetrieved\(\) const', 'bool IsSolStatusRetrieved(void)',
              contract=contract, label='mp::StdBackend::IsSolStatusRetrieved', nmatches=1)


def pred_harness(name):
    parts = [PRELUDE, ENUM, retrieved_fn()]
    if name == 'IsProblemInfOrUnb':
        parts.append(pred_fn('IsProblemIndiffInfOrUnb', False))
    parts.append(pred_fn(name, True))
    parts.append('''
int vp_in_sc;
void harness(void) {
  vp_one = 1;
  int sc = nondet_int();
  __CPROVER_assume(sc != -200);
  g_sc = sc; vp_in_sc = sc;
  %s();
  VP_REACH("normal return");
}
''' % name)
    return Harness('C10.' + name, 'C10', parts, enforce=name, inputs=['vp_in_sc'], replay=make_replay(name))


def retrieved_harness():
    parts = [PRELUDE, ENUM,
             retrieved_fn('__CPROVER_ensures(__CPROVER_return_value == (g_sc != -200)) __CPROVER_assigns()'),
             '''
int vp_in_sc;
void harness(void) { vp_one = 1; int sc = nondet_int(); g_sc = sc; vp_in_sc = sc; IsSolStatusRetrieved(); VP_REACH("normal return"); }
''']
    return Harness('C10.IsSolStatusRetrieved', 'C10', parts, enforce='IsSolStatusRetrieved', inputs=['vp_in_sc'])


DOCUMENTED = [('NOT_SET', -200), ('UNKNOWN', -1), ('SOLVED', 0), ('SOLVED_LAST', 99), ('UNCERTAIN', 100),
              ('UNCERTAIN_LAST', 199), ('INFEASIBLE', 200), ('INFEASIBLE_LAST', 299), ('UNBOUNDED_FEAS', 300),
              ('UNBOUNDED_FEAS_LAST', 349), ('UNBOUNDED_NO_FEAS', 350), ('UNBOUNDED_NO_FEAS_LAST', 399),
              ('LIMIT_FEAS', 400), ('LIMIT_FEAS_LAST', 449), ('LIMIT_INF_UNB', 450), ('LIMIT_INF_UNB_LAST', 469),
              ('LIMIT_NO_FEAS', 470), ('LIMIT_NO_FEAS_LAST', 499), ('FAILURE', 500), ('FAILURE_LAST', 999),
              ('MP_SOLUTION_CHECK', 150), ('MP_SOLUTION_CHECK_LAST', 159)]


def enum_harness():
    body = '\n'.join('  __CPROVER_assert(sol_%s == %d, "enum sol::Status: %s is the documented %d");' % (n, v, n, v)
                     for n, v in DOCUMENTED)
    parts = [PRELUDE, ENUM, 'void harness(void) {\n%s\n  VP_REACH("end");\n}\n' % body]
    return Harness('C10.enum.ranges', 'C10', parts, note='lemma: enum constants = documented range ends')


MSG_SUBST = [
    (r'sol\.objvals\.size\(\)', 'g_nobj', 3),
    (r'sol\.objvals\[', 'g_objvals[', 3),
    (r'writer\.write\((?="[^"]*objective [^"]*")', 'vp_write_obj(', 4),
    (r'writer\.write\(', 'vp_write_other(', 3),
    (r'if \(feasrelax\(\)\)', 'if (feasrelax().mode_)', 1),
    (r'MPD\(\s*IsMIP\(\)\s*\)', 'IsMIP()', 1),
    (r'RoundSolution\(sol\.primal, writer\)', 'RoundSolution()', 1),
    (r'sol\.(primal|dual)\.size\(\)', r'g_n\1', -1),      # the other parts of the solution, should the block consult them
]


def message_harness():
    """The objective clause of ReportSolution2AMPL: block from 'if (IsProblemSolvedOrFeasible()) {' up to
    'if (exportKappa() && 1)', with the writer / formatting / rounding calls as stubs."""
    parts = [PRELUDE, ENUM, '''
size_t g_nobj; double *g_objvals; double obj_value;
size_t g_nprimal, g_ndual;    /* sizes of the primal / dual vectors of the solution (arbitrary: a solution may come without them) */
int g_wrote_objective;       /* ghost: set by the writer stub when the format mentions "objective " */
int g_mip, g_round;
struct FeasRelax { int mode_; bool orig_obj_available_; double orig_obj_value_; } g_fr;
struct FeasRelax feasrelax(void) { return g_fr; }
double FormatObjValue(double v) { return v; }
int round(void) { return g_round; }
bool IsMIP(void) { return g_mip; }
void RoundSolution(void) {}
/* fmt::MemoryWriter::write(fmt, args...): arguments are evaluated, the text is dropped; the extractor
   routes writes whose format literal contains "objective " to vp_write_obj, the others to vp_write_other */
void vp_write3(int obj, double a, double b) { if (obj) g_wrote_objective = 1; }
#define VP_W1(o, f) vp_write3(o, 0, 0)
#define VP_W2(o, f, a) vp_write3(o, (double)(a), 0)
#define VP_W3(o, f, a, b) vp_write3(o, (double)(a), (double)(b))
#define VP_WSEL(_0, _1, _2, _3, NAME, ...) NAME
#define vp_write_obj(...) VP_WSEL(1, __VA_ARGS__, VP_W3, VP_W2, VP_W1)(1, __VA_ARGS__)
#define vp_write_other(...) VP_WSEL(0, __VA_ARGS__, VP_W3, VP_W2, VP_W1)(0, __VA_ARGS__)
/* contract proved by C10.IsProblemSolvedOrFeasible */
bool IsProblemSolvedOrFeasible(void)
__CPROVER_requires(g_sc != -200)
__CPROVER_ensures(__CPROVER_return_value == (IN(0, 99) || IN(300, 349) || IN(400, 449)))
__CPROVER_assigns();
''',
             Fn(BACKEND, r'if \((?:[^(){}]|\([^()]*\))*\) \{\s*if \(sol\.objvals\.size\(\)\) \{',      # the condition is kept as written
                'void vp_report_objective(void)',
                block_end=r'RoundSolution\(sol\.primal, writer\);\s*\}',
                contract='__CPROVER_requires(g_sc != -200 && g_nobj <= 1000000 && __CPROVER_is_fresh(g_objvals, (g_nobj ? g_nobj : 1) * sizeof(double)))'
                         '__CPROVER_requires(g_wrote_objective == 0)'
                         '__CPROVER_ensures((g_wrote_objective != 0) == ((IN(0, 99) || IN(300, 349) || IN(400, 449)) && g_nobj >= 1))'
                         '__CPROVER_assigns(g_wrote_objective, obj_value)',
                subst=MSG_SUBST,
                loops={0: '__CPROVER_assigns(i) __CPROVER_loop_invariant(i <= g_nobj && g_wrote_objective == 1) __CPROVER_decreases(g_nobj - i)'},
                label='mp::StdBackend::ReportSolution2AMPL [objective block]'),
             '''
int vp_in_sc; size_t vp_in_nobj;
void harness(void) {
  vp_one = 1;
  int sc = nondet_int(); __CPROVER_assume(sc != -200);
  g_sc = sc; vp_in_sc = sc;
  g_nobj = nondet_size_t(); vp_in_nobj = g_nobj; g_nprimal = nondet_size_t(); g_ndual = nondet_size_t();
  g_mip = nondet_int(); g_round = nondet_int();
  g_fr.mode_ = nondet_int(); g_fr.orig_obj_available_ = nondet_bool(); g_fr.orig_obj_value_ = 0;
  g_wrote_objective = 0; obj_value = 0;
  g_objvals = nondet_ptr();
  vp_report_objective();
  VP_REACH("normal return");
}
''']
    return Harness('C10.message.objective', 'C10', parts, enforce='vp_report_objective',
                   replace=['IsProblemSolvedOrFeasible'], loop_contracts=True, expect_loop_obligations=1,
                   inputs=['vp_in_sc', 'vp_in_nobj'],
                   stubs=['fmt::MemoryWriter::write (ghost: records whether the format literal mentions "objective ")',
                          'FormatObjValue', 'feasrelax()', 'round()', 'IsMIP()', 'RoundSolution'],
                   note='modular: uses the contract of IsProblemSolvedOrFeasible')


SOLIO = 'include/mp/solver-io.h'


def passthrough_report():
    """last statement of ReportSolution2AMPL: the code handed to the solution handler is SolveCode(), the objective value the one
    selected by the objective block"""
    parts = [PRELUDE, ENUM, '''
double obj_value; int g_handled_code, g_calls; double g_handled_obj;

struct { struct { bool e; double *d; } primal, dual; } sol;
#define vp_empty(v) ((v).e)
#define vp_data(v) ((v).d)
const char *writer_c_str(void) { return "msg"; }
/* classification predicates a changed call might consult: arbitrary (their contracts are proved separately) */
bool IsProblemSolved(void) { return nondet_bool(); }
bool IsProblemSolvedOrFeasible(void) { return nondet_bool(); }
bool IsProblemInfeasible(void) { return nondet_bool(); }
bool IsProblemUnbounded(void) { return nondet_bool(); }
void HandleSolution(int code, const char *msg, const double *x, const double *y, double obj) { g_calls++; g_handled_code = code; g_handled_obj = obj;
  __CPROVER_assert(x == (sol.primal.e ? (double *)0 : sol.primal.d), "the primal vector handed on is the solution's (null when empty)");
  __CPROVER_assert(y == (sol.dual.e ? (double *)0 : sol.dual.d), "the dual vector handed on is the solution's (null when empty)"); }
''',
             Fn(BACKEND, r'HandleSolution\((?=[^;]*sol\.dual\.data\(\), obj_value\);)', 'void vp_report_handle(void)', block_end=r'sol\.dual\.data\(\), obj_value\);',
                contract='__CPROVER_requires(g_calls == 0) '
                         '__CPROVER_ensures(g_calls == 1 && g_handled_code == g_sc && (g_handled_obj == obj_value || obj_value != obj_value)) '
                         '__CPROVER_assigns(g_calls, g_handled_code, g_handled_obj)',
                subst=[(r'writer\.c_str\(\)', 'writer_c_str()', 1), (r'sol\.(primal|dual)\.empty\(\)', r'vp_empty(sol.\1)', 2),
                       (r'sol\.(primal|dual)\.data\(\)', r'vp_data(sol.\1)', 2)],
                label='mp::StdBackend::ReportSolution2AMPL [HandleSolution call]'),
             '''
int vp_in_sc;
void harness(void) { vp_one = 1; g_sc = nondet_int(); vp_in_sc = g_sc; obj_value = nondet_double(); g_calls = 0;
  sol.primal.e = nondet_bool(); sol.dual.e = nondet_bool(); sol.primal.d = nondet_ptr(); sol.dual.d = nondet_ptr();
  vp_report_handle(); VP_REACH("normal return"); }
''']
    return Harness('C10.passthrough.ReportSolution2AMPL', 'C10', parts, enforce='vp_report_handle', inputs=['vp_in_sc'],
                   stubs=['HandleSolution (ghost record)', 'SolveCode()', 'std::vector empty()/data()'],
                   note='first hop of "the code written to the .sol file is the code the backend reported"')


def passthrough_writer(ordinal, which, prop='C10'):
    """SolutionWriterImpl::HandleSolution: the SolutionAdapter handed to the .sol writer carries the status it was given, one value per
    variable / per algebraic constraint (or none when the vector is absent) and the objective number that was used"""
    parts = [PRELUDE, ENUM, '''
int g_nv, g_nc, g_objno_used;
int builder_num_vars(void) { return g_nv; }
int builder_num_algebraic_cons(void) { return g_nc; }
int solver_objno_used(void) { return g_objno_used; }
/* other accessors of the solver a changed call might use: arbitrary values */
int solver_objno_specified(void) { return nondet_int(); }
int solver_objno(void) { return nondet_int(); }
int solver_multiobj(void) { return nondet_int(); }
int g_a_status, g_a_nvalues, g_a_nduals, g_a_objno, g_made; const double *g_a_values, *g_a_duals;
struct AR { const double *p; long n; };
static struct AR MakeArrayRef(const double *p, long n) { struct AR r; r.p = p; r.n = n; return r; }
static void vp_SolutionAdapter(int status, int builder, const char *msg, int options, struct AR values, struct AR duals, int objno) {
  g_made++; g_a_status = status; g_a_values = values.p; g_a_nvalues = (int)values.n; g_a_duals = duals.p; g_a_nduals = (int)duals.n; g_a_objno = objno; }
''',
             Fn(SOLIO, r'SolutionAdapter<PB> sol\(', 'void vp_make_adapter(int status, const char *message, const double *values, const double *dual_values)',
                block_end=r'solver_\.\w+\(\)\);',
                contract='__CPROVER_requires(g_made == 0 && g_nv >= 0 && g_nc >= 0) '
                         '__CPROVER_ensures(g_made == 1 && g_a_status == status && g_a_objno == g_objno_used) '
                         '__CPROVER_ensures(g_a_values == values && g_a_nvalues == (values ? g_nv : 0) && g_a_duals == dual_values && g_a_nduals == (dual_values ? g_nc : 0)) '
                         '__CPROVER_assigns(g_made, g_a_status, g_a_values, g_a_nvalues, g_a_duals, g_a_nduals, g_a_objno)',
                subst=[(r'SolutionAdapter<PB> sol\(', 'vp_SolutionAdapter(', 1), (r'&builder_,', '0,', 1), (r'message\.c_str\(\)', 'message', 1), (r'options_,', '0,', 1),
                       (r'builder_\.', 'builder_', 2), (r'solver_\.', 'solver_', 1)],
                ordinal=ordinal, label='mp::internal::SolutionWriterImpl::%s [SolutionAdapter construction]' % which),
             '''
void harness(void) { vp_one = 1; g_nv = nondet_int(); g_nc = nondet_int(); g_objno_used = nondet_int(); g_made = 0;
  vp_make_adapter(nondet_int(), "m", nondet_bool() ? (const double *)&g_nv : (const double *)0, nondet_bool() ? (const double *)&g_nc : (const double *)0);
  VP_REACH("normal return"); }
''']
    return Harness(('C10.passthrough.SolutionWriter.' if prop == 'C10' else 'C12.objno_echo.SolutionWriter.') + which, prop, parts, enforce='vp_make_adapter',
                   stubs=['SolutionAdapter constructor (ghost record)', 'builder_.num_vars()/num_algebraic_cons()', 'solver_.objno_used() (C12)'],
                   note='second hop; also carries "one value per variable / algebraic constraint" (C04) and "objno echoed is the one used" (C12)')


def passthrough_adapter():
    """SolutionAdapter: constructor (member initialiser list) and accessors: what WriteSolFile reads is what was stored"""
    parts = [PRELUDE, '''
struct AR { const double *p; long n; };
struct OR { const long *p; long n; };
int status_; int builder_; const char *message_; struct OR options_; struct AR values_, dual_values_; int objno_;
#define vp_size(a) ((a).n)
''',
             Fn(SOLIO, r'SolutionAdapter\(int status, ProblemBuilder \*pb, const char \*message,', 'void SolutionAdapter_ctor(int status, int pb, const char *message, struct OR options, struct AR values, struct AR dual_values, int on)',
                contract='__CPROVER_ensures(status_ == status && objno_ == on && values_.n == values.n && values_.p == values.p && dual_values_.n == dual_values.n && '
                         'dual_values_.p == dual_values.p && options_.n == options.n && options_.p == options.p && message_ == message) '
                         '__CPROVER_assigns(status_, builder_, message_, options_, values_, dual_values_, objno_)',
                label='mp::SolutionAdapter::SolutionAdapter (member initialiser list)', nmatches=1),
             Fn(SOLIO, r'int status\(\) const \{ return status_; \}', 'int SolutionAdapter_status(void)',
                contract='__CPROVER_ensures(__CPROVER_return_value == status_) __CPROVER_assigns()', label='mp::SolutionAdapter::status', nmatches=1),
             Fn(SOLIO, r'int objno\(\) const \{ return objno_; \}', 'int SolutionAdapter_objno(void)',
                contract='__CPROVER_ensures(__CPROVER_return_value == objno_) __CPROVER_assigns()', label='mp::SolutionAdapter::objno', nmatches=1),
             Fn(SOLIO, r'int num_values\(\) const', 'int SolutionAdapter_num_values(void)', subst=[(r'values_\.size\(\)', 'vp_size(values_)', 1)],
                contract='__CPROVER_requires(0 <= values_.n && values_.n <= INT_MAX) __CPROVER_ensures(__CPROVER_return_value == values_.n) __CPROVER_assigns()',
                label='mp::SolutionAdapter::num_values', nmatches=1),
             Fn(SOLIO, r'int num_dual_values\(\) const', 'int SolutionAdapter_num_dual_values(void)', subst=[(r'dual_values_\.size\(\)', 'vp_size(dual_values_)', 1)],
                contract='__CPROVER_requires(0 <= dual_values_.n && dual_values_.n <= INT_MAX) __CPROVER_ensures(__CPROVER_return_value == dual_values_.n) __CPROVER_assigns()',
                label='mp::SolutionAdapter::num_dual_values', nmatches=1),
             '''
void harness(void) { vp_one = 1;
  struct OR o; o.p = nondet_ptr(); o.n = nondet_long(); struct AR v, d; v.p = nondet_ptr(); v.n = nondet_long(); d.p = nondet_ptr(); d.n = nondet_long();
  int which = nondet_int();
  if (which == 0) SolutionAdapter_ctor(nondet_int(), 0, "m", o, v, d, nondet_int());
  else { status_ = nondet_int(); objno_ = nondet_int(); values_ = v; dual_values_ = d;
    if (which == 1) SolutionAdapter_status(); else if (which == 2) SolutionAdapter_objno(); else if (which == 3) SolutionAdapter_num_values(); else SolutionAdapter_num_dual_values(); }
  VP_REACH("normal return"); }
''']
    return parts


def passthrough_adapter_harnesses():
    hs = []
    for fn in ('SolutionAdapter_ctor', 'SolutionAdapter_status', 'SolutionAdapter_objno', 'SolutionAdapter_num_values', 'SolutionAdapter_num_dual_values'):
        hs.append(Harness('C10.passthrough.' + fn, 'C10', passthrough_adapter(), enforce=fn,
                          stubs=['mp::ArrayRef (pointer + size)'], note='third hop: what WriteSolFile (C05.WriteSolFile) reads is what was stored'))
    return hs


_drv = [None]


def make_replay(name):
    import subprocess
    from vp import native

    def replay(lead, inputs, obs):
        sc = inputs.get('vp_in_sc')
        if sc is None:
            return False, 'no concrete code in the verifier trace', ''
        if _drv[0] is None:
            _drv[0] = native.build_driver('c10_replay.cc', 'c10_replay', native.MP_SOURCES, ['-O0', '-DNDEBUG'])[0]
        args = [_drv[0], name, str(sc)]
        p = subprocess.run(args, capture_output=True, text=True)
        return p.returncode == 1, (p.stdout + p.stderr)[-2000:], ' '.join(args)
    return replay


_pdrv = [None]


def replay_passthrough(lead, inputs, obs):
    import subprocess
    from vp import native
    if _pdrv[0] is None:
        _pdrv[0] = native.build_driver('c10_passthrough_replay.cc', 'c10_passthrough_replay', native.MP_SOURCES, ['-O0'])[0]
    import tempfile
    d = tempfile.mkdtemp(prefix='c10pt_')
    try:
        p = subprocess.run([_pdrv[0]], capture_output=True, text=True, timeout=600, cwd=d)
    finally:
        import shutil
        shutil.rmtree(d, ignore_errors=True)
    return p.returncode != 0, (p.stdout + p.stderr)[-2000:], _pdrv[0]


BFLAT = 'include/mp/flat/backend_flat.h'


def getsolution_harness():
    """FlatBackend::GetSolution: the 'known infeasible' mark that leaves the backend with the solution (it makes the converter skip its
    solution check) is the documented infeasible classification - set exactly for codes 200-299 - and an absent primal / dual vector stays
    absent after postsolving.  All six predicates are present with their proved contracts, should the code consult another one."""
    decls = ''.join('bool %s(void)\n__CPROVER_requires(g_sc != -200)\n__CPROVER_ensures(__CPROVER_return_value == (%s))\n__CPROVER_assigns();\n' % (n, e) for n, e in PREDS.items())
    parts = [PRELUDE, '/* contracts proved by C10.<predicate> */\n' + decls, '''
typedef struct { long nvar, ncon, nobj; } MV;
typedef struct { long x, y, obj; } Solution;
long g_nx, g_ny, g_nobj; int g_post_calls; _Bool g_flag; int g_never;
static long PrimalSolution(void) { return g_nx; }
static long DualSolution(void) { return g_ny; }
static long GetObjectiveValues(void) { return g_nobj; }
static MV vp_postsolve(long x, long y, long obj, void *known_infeasible) {
  __CPROVER_assert(x == g_nx && y == g_ny, "the solver's primal and dual values are postsolved");
  g_flag = known_infeasible != (void *)0; g_post_calls++;
  MV mv; mv.nvar = nondet_long(); mv.ncon = nondet_long(); mv.nobj = nondet_long(); return mv; }
''',
             Fn(BFLAT, r'Solution GetSolution\(\) override', 'Solution GetSolution(void)',
                contract='__CPROVER_requires(g_sc != -200 && g_nx >= 0 && g_ny >= 0 && g_post_calls == 0) '
                         '__CPROVER_ensures(g_post_calls == 1 && g_flag == IN(200, 299)) '
                         '__CPROVER_ensures((g_nx == 0 ==> __CPROVER_return_value.x == 0) && (g_ny == 0 ==> __CPROVER_return_value.y == 0)) __CPROVER_assigns(g_flag, g_post_calls)',
                subst=[(r'BaseBackend::', '', -1), (r'GetValuePresolver\(\)\.PostsolveSolution\(\s*\{([^{}]*)\}\s*\)', r'vp_postsolve(\1)', 1),
                       (r'std::move\(', '(', -1), (r'mv\.GetVarValues\(\)\(\)', 'mv.nvar', 1), (r'mv\.GetConValues\(\)\(\)', 'mv.ncon', 1), (r'mv\.GetObjValues\(\)\(\)', 'mv.nobj', 1),
                       (r'\bx\.empty\(\)', '(x == 0)', 1), (r'\by\.Empty\(\)', '(y == 0)', 1), (r'\b(x1|y1)\.clear\(\);', r'\1 = 0;', 2), (r'return\s*\{', 'return (Solution){', 1)],
                label='mp::FlatBackend::GetSolution', nmatches=1), '''
void harness(void) { vp_one = 1; int sc = nondet_int(); __CPROVER_assume(sc != -200); g_sc = sc; g_nx = nondet_long(); g_ny = nondet_long(); g_nobj = nondet_long(); g_post_calls = 0;
  g_never = 0; if (g_never) { %s }      /* DFCC insists that a replaced function is referenced */
  GetSolution(); VP_REACH("normal return"); }
''' % ' '.join('(void)%s();' % n for n in PREDS)]
    return Harness('C10.FlatBackend.GetSolution', 'C10', parts, enforce='GetSolution', replace=list(PREDS),
                   stubs=['ValuePresolver::PostsolveSolution (ghost: records the mark; arbitrary result sizes)', 'PrimalSolution / DualSolution / GetObjectiveValues (sizes only)'],
                   note='modular: uses the contracts of the classification predicates')


_mdrv = [None]


def replay_message(lead, inputs, obs):
    import subprocess
    from vp import native
    if _mdrv[0] is None:
        _mdrv[0] = native.build_driver('c10_message_replay.cc', 'c10_message_replay', native.MP_SOURCES, ['-O0'])[0]
    p = subprocess.run([_mdrv[0]], capture_output=True, text=True, timeout=600)
    return p.returncode == 1, (p.stdout + p.stderr)[-2000:], _mdrv[0]


def replay_getsolution(lead, inputs, obs):
    """the real FlatBackend<>::GetSolution over a recording value presolver, for every code and presence combination (adapted from the
    demonstration of seeded change M65)"""
    import subprocess
    from vp import native
    drv = native.build_driver('c10_getsolution_replay.cc', 'c10_getsolution_replay', native.MP_SOURCES, ['-O0'])[0]
    p = subprocess.run([drv], capture_output=True, text=True, timeout=600)
    return p.returncode == 1, (p.stdout + p.stderr)[-2000:], drv


def harnesses(tier, seed):
    hs = _harnesses(tier, seed)
    for h in hs:
        if h.name == 'C10.message.objective':
            h.replay = replay_message
        if h.name == 'C10.FlatBackend.GetSolution':
            h.replay = replay_getsolution
        if 'passthrough' in h.name and h.replay is None:
            h.replay = replay_passthrough
    return hs


def _harnesses(tier, seed):
    hs = [pred_harness(n) for n in PREDS]
    hs.append(retrieved_harness())
    hs.append(enum_harness())
    hs.append(message_harness())
    hs += [getsolution_harness(), passthrough_report(), passthrough_writer(0, 'HandleFeasibleSolution'), passthrough_writer(1, 'HandleSolution')] + passthrough_adapter_harnesses()
    return hs
