"""C06 - inferred bounds and integrality of auxiliary variables (include/mp/flat/constr_prepro.h,
converter_model.h, preprocess.h, constr_keeper.h) - the multiplication-free preprocessors.

The model is three arrays (lb, ub, type) of any length; a constraint is an argument list of any length.
Soundness "the box contains f(x) for every x in the argument box" is stated through the box ends:
  - "for all arguments" facts for an arbitrary witness position g_w,
  - "result >= B whenever every ub >= B" (and duals) for an arbitrary bound g_B - together: result is exactly the
    min / max of the ends, hence the interval image of min / max.
For single-point operators (Abs, IfThen, conditional comparisons, equality fixing) a ghost witness point x inside the
argument box is used directly.
"""
import re

from vp import extract
from vp.extract import Fn
from vp.run import Harness

PP = 'include/mp/flat/constr_prepro.h'
CM = 'include/mp/flat/converter_model.h'
PI = 'include/mp/flat/preprocess.h'
CK = 'include/mp/flat/constr_keeper.h'

META = {
    'decides': 'for every argument box and every point in it: PreprocessInfo::narrow_result_bounds intersects; FlatModel::lb_array / '
               'ub_array / lb_max_array / ub_min_array are exactly the min / max of the ends; common_type is INTEGER only if every '
               'argument is integer-valued; Abs: alias only when lb >= 0, else box [0, max(-lb, ub)] contains |x|; IfThen: box contains '
               'either branch; Min/Max: composition of the array functions; Not/AllDiff/Implication/Count/Numberof: documented boxes; '
               'And/Or: fixed to 0/1 only when an argument is fixed false/true resp. all are; FixEqualityResult: fixed to 0 only when the '
               'body box excludes the rhs (or integer body, fractional rhs), to 1 only when body box = {rhs}; conditional comparisons: '
               'rounding the rhs keeps the truth value for every integral body value; result boxes of Exp/Sin/Cos/Tanh/Asin/Acos/Atan/'
               'Cosh/Acosh contain the range constants of the functions (as doubles)',
    'not_decided': 'the arithmetic itself: products and sums of ComputeBoundsAndType, that the hull of the corner products / quotients contains every value (monotonicity of IEEE multiplication / division / pow), what pow returns; the And/Or argument filtering (vector rebuild), NarrowVarBounds of root constraints, lin_approx.h, PLConstraint preprocessing; the body box used by FixEqualityResult is assumed sound',
    'not_under_contract': ['PreprocessConstraint(LinearFunctionalConstraint / QuadraticFunctionalConstraint) (two calls of proved functions)', 'ConstraintPreprocessors::IntegrateNested', 'FlatConverter::NarrowVarBounds', 'BasicFCC::AddResultVariable', 'PLConstraint / lin_approx'],
    'assumptions': ['constraint arguments are valid variable indices (assumed at every access)', 'bounds are not NaN and lb <= ub',
                    'prepro / model handle objects rendered as free functions over ghost records'],
    'trusted_base': ['CBMC models of fabs / floor / ceil / fmin / fmax'],
}

PRE = '''
#include "mp_shim.h"
#include <math.h>
int vp_one;
#define assert(x) __CPROVER_assert(x, "assert(" #x ") of the source holds")
enum { var_CONTINUOUS = 0, var_INTEGER = 1, var_Type_CONTINUOUS = 0, var_Type_INTEGER = 1 };
static double min(double a, double b) { return b < a ? b : a; }    /* std::min / std::max */
static double max(double a, double b) { return a < b ? b : a; }
/* FlatModel: variable bounds and types */
double *g_lb, *g_ub; int *g_type; size_t g_nv;
int *g_args; size_t g_nargs;
#define VP_LEN(a) g_nargs
#define VP_AT(a, k) (g_args[k])
int g_mode; double g_B; size_t g_w;
enum { M_ANY = 0, M_LB_LE_B = 1, M_LB_GE_B = 2, M_UB_LE_B = 3, M_UB_GE_B = 4 };
#define V_OK(v) (0 <= (v) && (size_t)(v) < g_nv && g_lb[v] == g_lb[v] && g_ub[v] == g_ub[v] && g_lb[v] <= g_ub[v] && \\
   (g_mode != M_LB_LE_B || g_lb[v] <= g_B) && (g_mode != M_LB_GE_B || g_lb[v] >= g_B) && \\
   (g_mode != M_UB_LE_B || g_ub[v] <= g_B) && (g_mode != M_UB_GE_B || g_ub[v] >= g_B) && (g_type[v] == 0 || g_type[v] == 1))
static double lb(int v) { __CPROVER_assume(V_OK(v)); return g_lb[v]; }
static double ub(int v) { __CPROVER_assume(V_OK(v)); return g_ub[v]; }
static int var_type(int v) { __CPROVER_assume(V_OK(v)); return g_type[v]; }
#define LBW (g_lb[g_args[g_w]])
#define UBW (g_ub[g_args[g_w]])
#define TYW (g_type[g_args[g_w]])
#define A_OK(k) ((k) >= g_nargs || V_OK(g_args[k]))
#define WIT_OK (A_OK(g_w) && A_OK(0) && A_OK(1) && A_OK(2))
static double Inf(void) { return __builtin_inf(); }
static double MinusInf(void) { return -__builtin_inf(); }
static void vp_mk(void) {
  g_nargs = nondet_size_t(); __CPROVER_assume(g_nargs <= 1000000);
  g_nv = nondet_size_t(); __CPROVER_assume(g_nv >= 1 && g_nv <= 1000000);
  g_args = vp_malloc((g_nargs ? g_nargs : 1) * sizeof(int));
  g_lb = vp_malloc(g_nv * sizeof(double)); g_ub = vp_malloc(g_nv * sizeof(double)); g_type = vp_malloc(g_nv * sizeof(int));
  g_mode = nondet_int(); __CPROVER_assume(g_mode >= 0 && g_mode <= 4); g_B = nondet_double(); __CPROVER_assume(g_B == g_B);
  g_w = nondet_size_t();
  __CPROVER_assume(WIT_OK);
}
'''
REQ = ('__CPROVER_requires(g_nargs <= 1000000 && g_nv >= 1 && __CPROVER_OBJECT_SIZE(g_args) == (g_nargs ? g_nargs : 1) * sizeof(int) && '
       '__CPROVER_OBJECT_SIZE(g_lb) == g_nv * sizeof(double) && __CPROVER_OBJECT_SIZE(g_ub) == g_nv * sizeof(double) && '
       '__CPROVER_OBJECT_SIZE(g_type) == g_nv * sizeof(int) && g_B == g_B && WIT_OK)')
R = '__CPROVER_return_value'
K = '_k0 <= g_nargs'

ARR = {
    # name: (ensures, invariant)
    'lb_array': ('(g_w < g_nargs ==> %s <= LBW) && ((g_mode == M_LB_GE_B) ==> %s >= g_B)' % (R, R),
                 'result == result && (g_w < _k0 ==> result <= LBW) && (g_mode == M_LB_GE_B ==> result >= g_B)'),
    'ub_array': ('(g_w < g_nargs ==> %s >= UBW) && ((g_mode == M_UB_LE_B) ==> %s <= g_B)' % (R, R),
                 'result == result && (g_w < _k0 ==> result >= UBW) && (g_mode == M_UB_LE_B ==> result <= g_B)'),
    'lb_max_array': ('(g_w < g_nargs ==> %s >= LBW) && ((g_mode == M_LB_LE_B) ==> %s <= g_B)' % (R, R),
                     'result == result && (g_w < _k0 ==> result >= LBW) && (g_mode == M_LB_LE_B ==> result <= g_B)'),
    'ub_min_array': ('(g_w < g_nargs ==> %s <= UBW) && ((g_mode == M_UB_GE_B) ==> %s >= g_B)' % (R, R),
                     'result == result && (g_w < _k0 ==> result <= UBW) && (g_mode == M_UB_GE_B ==> result >= g_B)'),
}


def arr_fn(name, contract=True):
    ens, inv = ARR[name]
    return Fn(CM, r'double %s\(const VarArray& va\) const' % name, 'double %s(void)' % name,
              contract=(REQ + ' __CPROVER_ensures(%s) __CPROVER_assigns()' % ens) if contract else '',
              loops={0: '__CPROVER_assigns(_k0, result) __CPROVER_loop_invariant(%s && %s) __CPROVER_decreases(g_nargs - _k0)' % (K, inv)},
              label='mp::FlatModel::%s' % name, nmatches=1)


def arr_decl(name):
    return 'double %s(void)\n%s __CPROVER_ensures(%s) __CPROVER_assigns();\n' % (name, REQ, ARR[name][0])


def h_arr(name):
    parts = [PRE, arr_fn(name), 'void harness(void) { vp_one = 1; vp_mk(); %s(); VP_REACH("normal return"); }\n' % name]
    return Harness('C06.FlatModel.' + name, 'C06', parts, enforce=name, loop_contracts=True, expect_loop_obligations=1)


INTVAL = '(g_type[g_args[g_w]] == var_INTEGER || (LBW == UBW && VP_ISINT(LBW)))'
CT_ENS = '(%s == var_INTEGER || %s == var_CONTINUOUS) && ((%s == var_INTEGER && g_w < g_nargs) ==> %s)' % (R, R, R, INTVAL)


def common_type_parts():
    return [
        Fn(CM, r'bool is_fixed\(int v\) const', 'bool is_fixed(int v)', label='mp::FlatModel::is_fixed', nmatches=1),
        Fn(CM, r'double fixed_value\(int v\) const', 'double fixed_value(int v)', label='mp::FlatModel::fixed_value', nmatches=1),
        Fn(CM, r'bool is_integer_var\(int v\) const', 'bool is_integer_var(int v)', label='mp::FlatModel::is_integer_var', nmatches=1),
        Fn(CM, r'static bool is_integer_value\(Num n\)', 'bool is_integer_value(double n)', label='mp::FlatModel::is_integer_value', nmatches=1),
    ]


def h_common_type():
    parts = [PRE] + common_type_parts() + [
        Fn(CM, r'var::Type common_type\(const VarArray& va\) const', 'int common_type(void)',
           contract=REQ + ' __CPROVER_ensures(%s) __CPROVER_assigns()' % CT_ENS,
           loops={0: '__CPROVER_assigns(_k0, type) __CPROVER_loop_invariant(%s && type == var_INTEGER && (g_w < _k0 ==> %s)) '
                     '__CPROVER_decreases(g_nargs - _k0)' % (K, INTVAL)},
           label='mp::FlatModel::common_type', nmatches=1),
        'void harness(void) { vp_one = 1; vp_mk(); common_type(); VP_REACH("normal return"); }\n']
    return Harness('C06.FlatModel.common_type', 'C06', parts, enforce='common_type', loop_contracts=True, expect_loop_obligations=1)


PREPRO = '''
/* PreprocessInfo (ghost record): result box, type, result variable */
double lb_, ub_; int type_; int result_var_;
'''


def prepro_fns():
    return [
        Fn(PI, r'void narrow_result_bounds\(double l, double u\)', 'void prepro_narrow_result_bounds(double l, double u)',
           label='mp::PreprocessInfo::narrow_result_bounds', nmatches=1),
        Fn(PI, r'void set_result_type\(var::Type t\)', 'void prepro_set_result_type(int t)', label='mp::PreprocessInfo::set_result_type', nmatches=1),
        Fn(PI, r'void set_result_var\(int r\)', 'void prepro_set_result_var(int r)', label='mp::PreprocessInfo::set_result_var', nmatches=1),
    ]


PSUB = [(r'\bprepro\.', 'prepro_', -1), (r'MPD\(\s*', 'VP_MPD(', -1), (r'MP_DISPATCH\(\s*', 'VP_MPD(', -1), (r'MPCD\(\s*', 'VP_MPD(', -1),
        (r'c\.GetArguments\(\)', 'g_args', -1), (r'con\.GetArguments\(\)', 'g_args', -1), (r'\bm\.', 'VP_M_', -1)]
PDEF = '''/* MPD(call) / MP_DISPATCH(call) / m.call: CRTP dispatch to the converter / its model -> prefixed free functions (R9) */
#define VP_MPD(x) VP_M_##x
static double VP_M_lb(int v) { return lb(v); }
static double VP_M_ub(int v) { return ub(v); }
static int VP_M_var_type(int v) { return var_type(v); }
'''
INIT = ('lb_ = nondet_double(); ub_ = nondet_double(); __CPROVER_assume(lb_ == lb_ && ub_ == ub_); '
        'double lb0 = lb_, ub0 = ub_; type_ = var_CONTINUOUS; result_var_ = -1;')


def h_narrow():
    parts = [PRE, PREPRO, Fn(PI, r'void narrow_result_bounds\(double l, double u\)', 'void prepro_narrow_result_bounds(double l, double u)',
                             contract='__CPROVER_requires(lb_ == lb_ && ub_ == ub_ && l == l && u == u) '
                                      '__CPROVER_ensures(lb_ == (__CPROVER_old(lb_) < l ? l : __CPROVER_old(lb_)) && ub_ == (u < __CPROVER_old(ub_) ? u : __CPROVER_old(ub_))) '
                                      '__CPROVER_assigns(lb_, ub_)',
                             label='mp::PreprocessInfo::narrow_result_bounds', nmatches=1),
             'void harness(void) { vp_one = 1; lb_ = nondet_double(); ub_ = nondet_double(); double l = nondet_double(), u = nondet_double(); '
             '__CPROVER_assume(lb_ == lb_ && ub_ == ub_ && l == l && u == u); prepro_narrow_result_bounds(l, u); VP_REACH("normal return"); }\n']
    return Harness('C06.PreprocessInfo.narrow_result_bounds', 'C06', parts, enforce='prepro_narrow_result_bounds',
                   note='narrowing intersects the result box with [l,u]: it never widens')


def pc_fn(kind, contract, subst=(), loops=None, proto=None):
    return Fn(PP, r'void PreprocessConstraint\(\s*%sConstraint& ?\w*\s*, PreprocessInfo& ?\w*\)' % kind,
              proto or ('void Preprocess_%s(void)' % kind), contract=contract, subst=PSUB + list(subst), loops=loops,
              label='mp::ConstraintPreprocessors::PreprocessConstraint(%sConstraint&)' % kind, nmatches=1)


BOXFRAME = '__CPROVER_assigns(lb_, ub_, type_, result_var_)'
NAR = 'lb_ >= __CPROVER_old(lb_) && ub_ <= __CPROVER_old(ub_)'   # only narrows


def h_pc(kind, ensures, subst=(), extra_parts=(), replace=(), nargs_req='1', pre='', stubs=()):
    c = REQ + ' __CPROVER_requires(lb_ == lb_ && ub_ == ub_ && %s) __CPROVER_ensures(%s) %s' % (nargs_req, ensures, BOXFRAME)
    parts = [PRE, PREPRO, PDEF] + prepro_fns() + list(extra_parts) + [pc_fn(kind, c, subst), '''
void harness(void) { vp_one = 1; vp_mk(); %s %s
  Preprocess_%s(); VP_REACH("normal return"); }
''' % (INIT, pre, kind)]
    return Harness('C06.Preprocess.' + kind, 'C06', parts, enforce='Preprocess_' + kind, replace=list(replace), stubs=list(stubs))


def box(l, u):
    """post-state box is the old box intersected with [l,u]"""
    return ('lb_ == (__CPROVER_old(lb_) < (%s) ? (%s) : __CPROVER_old(lb_)) && ub_ == ((%s) < __CPROVER_old(ub_) ? (%s) : __CPROVER_old(ub_))'
            % (l, l, u, u))


def fixed_box_harnesses():
    hs = []
    for kind in ('Not', 'AllDiff', 'Implication'):
        hs.append(h_pc(kind, box('0.0', '1.0') + ' && type_ == var_INTEGER'))
    hs.append(h_pc('Count', box('0.0', '(double)g_nargs') + ' && type_ == var_INTEGER', subst=[(r'g_args\.size\(\)', 'g_nargs', 1)]))
    hs.append(h_pc('NumberofConst', box('0.0', '(double)g_nargs') + ' && type_ == var_INTEGER', subst=[(r'g_args\.size\(\)', 'g_nargs', 1)]))
    hs.append(h_pc('NumberofVar', box('0.0', '(double)g_nargs - 1') + ' && type_ == var_INTEGER', subst=[(r'g_args\.size\(\)', 'g_nargs', 1)]))
    return hs


def consts():
    """Pi(), Infty() as written in constr_keeper.h (read on every run)."""
    txt = extract.blank_comments(extract.read_repo(CK))
    m = re.search(r'static constexpr double Pi\(\)\s*\{\s*return\s*([0-9.eE+-]+)\s*;', txt)
    if not m:
        raise extract.ExtractionError('Pi() not found in constr_keeper.h')
    return m.group(1)


def range_harnesses():
    """Result boxes of the transcendental functions: box must contain the range of the function as computed in doubles
    (asin/acos/atan return the doubles nearest to +-pi/2 and pi at the ends of their domains)."""
    pi = consts()
    hs = []
    PIHALF = '1.5707963267948966'   # atan(inf), asin(1) as doubles (= M_PI/2)
    PID = '3.141592653589793'       # acos(-1) as a double (= M_PI)
    table = {
        'Exp': ('0.0', Infq()), 'ExpA': ('0.0', Infq()), 'Sin': ('-1.0', '1.0'), 'Cos': ('-1.0', '1.0'), 'Tanh': ('-1.0', '1.0'),
        'Asin': ('-' + PIHALF, PIHALF), 'Acos': ('0.0', PID), 'Atan': ('-' + PIHALF, PIHALF), 'Cosh': ('1.0', Infq()), 'Acosh': ('0.0', Infq()),
    }
    for kind, (lo, hi) in table.items():
        ens = ('((__CPROVER_old(lb_) <= %s) ==> lb_ <= %s) && ((__CPROVER_old(ub_) >= %s) ==> ub_ >= %s) && %s' % (lo, lo, hi, hi, NAR))
        hs.append(h_pc(kind, ens, extra_parts=['static double VP_M_Pi(void) { return %s; }   /* constr_keeper.h */\nstatic double VP_M_Infty(void) { return __builtin_inf(); }\n' % pi]))
    return hs


def Infq():
    return '__builtin_inf()'


def h_abs():
    # ghost witness point x in [lb,ub] of the argument
    ens = ('(result_var_ == g_args[0] ==> g_lb[g_args[0]] >= 0.0) && '
           '(result_var_ == -1 ==> (' + box('0.0', '(-g_lb[g_args[0]] < g_ub[g_args[0]] ? g_ub[g_args[0]] : -g_lb[g_args[0]])') +
           ' && g_lb[g_args[0]] < 0.0 && g_ub[g_args[0]] > 0.0 && type_ == g_type[g_args[0]])) && '
           '(result_var_ == -1 || result_var_ == g_args[0] || (result_var_ == 1000000 && g_ub[g_args[0]] <= 0.0))')
    return h_pc('Abs', ens, nargs_req='g_nargs >= 1',
                subst=[(r'VP_MPD\(AssignResult2Args\(.*?\)\) \);', 'vp_make_negated_var(argvar);', 1), (r'res\.get_var\(\)', 'res', 1),
                       (r'auto res = ', 'int res = ', 1)],
                extra_parts=['/* AssignResult2Args(LinearFunctionalConstraint({{-1},{argvar}},0)): new variable equal to -argvar (id 1000000) */\n'
                             'static int vp_make_negated_var(int v) { return 1000000; }\n'],
                stubs=['AssignResult2Args (creates the variable -argvar)'])


def h_abs_point():
    """Lemma: the Abs box contains |x| for every x in [lb,ub] (witness point)."""
    parts = ['#include "mp_shim.h"\n#include <math.h>\nint vp_one;\n', '''
void harness(void) { vp_one = 1;
  double l = nondet_double(), u = nondet_double(), x = nondet_double();
  __CPROVER_assume(l == l && u == u && x == x && l <= x && x <= u);
  double ax = x < 0 ? -x : x;
  if (l < 0.0 && u > 0.0) {
    double bu = (-l < u ? u : -l);
    __CPROVER_assert(0.0 <= ax && ax <= bu, "|x| lies in [0, max(-lb, ub)] for every x in [lb, ub]");
  }
  if (l >= 0.0) __CPROVER_assert(ax == x, "alias x is exact when lb >= 0");
  if (u <= 0.0) __CPROVER_assert(ax == -x, "alias -x is exact when ub <= 0");
  VP_REACH("end"); }
''']
    return Harness('C06.lemma.Abs.point', 'C06', parts, plain=True, note='lemma over the postcondition of Preprocess.Abs')


def h_ifthen():
    ens = (box('(g_lb[g_args[1]] < g_lb[g_args[2]] ? g_lb[g_args[1]] : g_lb[g_args[2]])',
               '(g_ub[g_args[1]] < g_ub[g_args[2]] ? g_ub[g_args[2]] : g_ub[g_args[1]])') +
           ' && (type_ == var_INTEGER ==> ((g_type[g_args[1]] == var_INTEGER || (g_lb[g_args[1]] == g_ub[g_args[1]] && VP_ISINT(g_lb[g_args[1]]))) && '
           '(g_type[g_args[2]] == var_INTEGER || (g_lb[g_args[2]] == g_ub[g_args[2]] && VP_ISINT(g_lb[g_args[2]])))))')
    return h_pc('IfThen', ens, nargs_req='g_nargs >= 3',
                subst=[(r'const auto& args = g_args;', 'const int *args = g_args;', 1),
                       (r'VP_MPD\(GetModel\(\)\)\.\s*common_type\( \{ args\[1\], args\[2\] \} \)', 'common_type2(args[1], args[2])', 1)],
                extra_parts=common_type_parts() + ['''
/* common_type({a, b}): the loop of FlatModel::common_type (proved for any length in C06.FlatModel.common_type) over two elements */
static int common_type2(int a, int b) {
  if (!is_integer_var(a) && (!is_fixed(a) || !is_integer_value(fixed_value(a)))) return var_CONTINUOUS;
  if (!is_integer_var(b) && (!is_fixed(b) || !is_integer_value(fixed_value(b)))) return var_CONTINUOUS;
  return var_INTEGER;
}
'''], stubs=['common_type({a,b}) (two-element instance)'])


def h_minmax(kind):
    lo, hi = ('lb_array', 'ub_min_array') if kind == 'Min' else ('lb_max_array', 'ub_array')
    # the box ends are the values returned by the array functions (contracts): narrowing with them
    parts = [PRE, PREPRO, PDEF] + prepro_fns() + [
        'double g_lo, g_hi; int g_ct;\n',
        'double %s(void) %s __CPROVER_ensures(%s && %s == g_lo) __CPROVER_assigns();\n' % (lo, REQ, ARR[lo][0], R),
        'double %s(void) %s __CPROVER_ensures(%s && %s == g_hi) __CPROVER_assigns();\n' % (hi, REQ, ARR[hi][0], R),
        'int common_type(void) %s __CPROVER_ensures(%s && %s == g_ct) __CPROVER_assigns();\n' % (REQ, CT_ENS, R),
        pc_fn(kind, REQ + ' __CPROVER_requires(lb_ == lb_ && ub_ == ub_ && g_lo == g_lo && g_hi == g_hi) __CPROVER_ensures(' + box('g_lo', 'g_hi') +
              ' && type_ == g_ct) ' + BOXFRAME,
              subst=[(r'auto& m = VP_MPD\(GetModel\(\)\s*\);', '', 1), (r'auto& args = g_args;', '', 1),
                     (r'VP_M_(lb_array|ub_min_array|lb_max_array|ub_array|common_type)\(args\)', r'\1()', 3)]),
        '''
void harness(void) { vp_one = 1; vp_mk(); %s g_lo = nondet_double(); g_hi = nondet_double(); g_ct = nondet_int();
  __CPROVER_assume(g_lo == g_lo && g_hi == g_hi);
  Preprocess_%s(); VP_REACH("normal return"); }
''' % (INIT, kind)]
    return Harness('C06.Preprocess.' + kind, 'C06', parts, enforce='Preprocess_' + kind, replace=[lo, hi, 'common_type'],
                   note='modular: box ends are the values of %s / %s (exact min/max by their contracts), type is common_type' % (lo, hi))


def h_count_fixed():
    parts = [PRE, 'struct pair_int_int { int first; int second; };\nstatic bool VP_M_is_binary_var(int v) { return 1; }   /* precondition of the preprocessor: arguments are binary (assumed) */\n', PDEF,
             Fn(PP, r'std::pair<int, int> count_fixed_01\(const Vec& vec\) const', 'struct pair_int_int count_fixed_01(void)',
                contract=REQ + ' __CPROVER_ensures(%s.first >= 0 && %s.second >= 0 && (size_t)%s.second <= g_nargs) '
                               '__CPROVER_ensures((g_w < g_nargs && UBW <= 0.0) ==> %s.first >= 1) '
                               '__CPROVER_ensures((g_mode == M_UB_GE_B && g_B > 0.0) ==> %s.first == 0) '
                               '__CPROVER_ensures(((size_t)%s.second == g_nargs && g_w < g_nargs) ==> LBW >= 1.0) '
                               '__CPROVER_ensures((g_mode == M_LB_LE_B && g_B < 1.0) ==> %s.second == 0) '
                               '__CPROVER_assigns()' % (R, R, R, R, R, R, R),
                subst=PSUB + [(r'std::pair<int, int> result \{0, 0\};', 'struct pair_int_int result = {0, 0};', 1)],
                loops={0: '__CPROVER_assigns(_k0, result) __CPROVER_loop_invariant(%s && result.first >= 0 && result.second >= 0 && (size_t)result.first <= _k0 && '
                          '(size_t)result.second <= _k0 && ((g_w < _k0 && UBW <= 0.0) ==> result.first >= 1) && '
                          '((g_mode == M_UB_GE_B && g_B > 0.0) ==> result.first == 0) && '
                          '(((size_t)result.second == _k0 && g_w < _k0) ==> LBW >= 1.0) && '
                          '((g_mode == M_LB_LE_B && g_B < 1.0) ==> result.second == 0)) __CPROVER_decreases(g_nargs - _k0)' % K},
                label='mp::ConstraintPreprocessors::count_fixed_01', nmatches=1),
             'void harness(void) { vp_one = 1; vp_mk(); count_fixed_01(); VP_REACH("normal return"); }\n']
    return Harness('C06.count_fixed_01', 'C06', parts, enforce='count_fixed_01', loop_contracts=True, expect_loop_obligations=1)


def h_round():
    """Conditional comparisons: rounding of a fractional rhs for an integer body keeps the truth value for every integral
    body value z (kind 1: >=, -1: <=, 2: >, -2: <)."""
    parts = ['#include "mp_shim.h"\n#include <math.h>\nint vp_one;\n#define assert(x) __CPROVER_assert(x, "assert(" #x ") of the source holds")\n',
             'enum { var_INTEGER = 1 };\nint kind; double g_rhs; int g_body_type;\n'
             'static double algc_rhs(void) { return g_rhs; }\nstatic void algc_set_rhs(double r) { g_rhs = r; }\n'
             'struct { int t; } bnt_body;\nstatic int bnt_body_get_result_type(void) { return g_body_type; }\n',
             Fn(PP, r'if \(var::INTEGER == bnt_body\.get_result_type\(\)', 'void vp_round_rhs(double rhs)',
                block_end=r'assert\(-2==kind\);\s*algc\.set_rhs\([^;]*\);\s*\}\s*\}',
                contract='__CPROVER_requires(rhs == rhs && rhs == g_rhs && (kind == 1 || kind == -1 || kind == 2 || kind == -2) && g_z == g_z && VP_ISINT(g_z)) '
                         '__CPROVER_ensures(g_body_type == var_INTEGER ==> ('
                         '(kind == 1 ==> ((g_z >= rhs) == (g_z >= g_rhs))) && (kind == -1 ==> ((g_z <= rhs) == (g_z <= g_rhs))) && '
                         '(kind == 2 ==> ((g_z > rhs) == (g_z > g_rhs))) && (kind == -2 ==> ((g_z < rhs) == (g_z < g_rhs))))) '
                         '__CPROVER_ensures(g_body_type != var_INTEGER ==> g_rhs == rhs) '
                         '__CPROVER_assigns(g_rhs)',
                subst=[(r'algc\.set_rhs\(', 'algc_set_rhs(', -1), (r'bnt_body\.get_result_type\(\)', 'bnt_body_get_result_type()', 1)],
                label='mp::ConstraintPreprocessors::PreprocessConstraint(ConditionalConstraint<...>&) [rhs rounding]'),
             '''
void harness(void) { vp_one = 1; kind = nondet_int(); g_rhs = nondet_double(); g_body_type = nondet_int(); g_z = nondet_double();
  __CPROVER_assume(g_rhs == g_rhs && (kind == 1 || kind == -1 || kind == 2 || kind == -2) && g_z == g_z && VP_ISINT(g_z));
  vp_round_rhs(g_rhs); VP_REACH("normal return"); }
''']
    parts.insert(2, 'double g_z;   /* arbitrary integral body value */\n')
    return Harness('C06.Preprocess.CondCmp.rounding', 'C06', parts, enforce='vp_round_rhs', timeout=900,
                   note='all four comparison kinds over all doubles')


def h_fixeq():
    """FixEqualityResult: result fixed to 0 / 1 only when justified, for every body value z in the (assumed sound) body box."""
    parts = ['#include "mp_shim.h"\n#include <math.h>\nint vp_one;\n', PREPRO, PDEF,
             'enum { var_CONTINUOUS = 0, var_INTEGER = 1 };\nstatic double min(double a, double b) { return b < a ? b : a; }\nstatic double max(double a, double b) { return a < b ? b : a; }\n'] + \
        prepro_fns() + ['''
double g_rhs, g_blb, g_bub, g_z; int g_btype;
struct BT { double lb_, ub_; int type_; };
static double con_rhs(void) { return g_rhs; }
static bool is_integer(double v) { return floor(v) == ceil(v); }       /* mp::is_integer (utils-math.h) */
''',
                        Fn(PP, r'bool FixEqualityResult\(\s*CondAlgCon& c, PreprocessInfo& prepro\)', 'bool FixEqualityResult(void)',
                           contract='__CPROVER_requires(lb_ == 0.0 && ub_ == 1.0 && g_rhs == g_rhs && g_blb <= g_z && g_z <= g_bub && g_z == g_z && '
                                    '(g_btype == var_INTEGER ==> VP_ISINT(g_z))) '
                                    '__CPROVER_ensures(__CPROVER_return_value ==> ((lb_ == 0.0 && ub_ == 0.0) || (lb_ == 1.0 && ub_ == 1.0))) '
                                    '__CPROVER_ensures((__CPROVER_return_value && ub_ == 0.0) ==> g_z != g_rhs) '
                                    '__CPROVER_ensures((__CPROVER_return_value && lb_ == 1.0) ==> g_z == g_rhs) '
                                    '__CPROVER_ensures(!__CPROVER_return_value ==> (lb_ == 0.0 && ub_ == 1.0)) '
                                    '__CPROVER_assigns(lb_, ub_)',
                           subst=[(r'\bprepro\.', 'prepro_', -1),
                                  (r'const auto& con = c\.GetConstraint\(\);', '', 1), (r'const auto& body = con\.GetBody\(\);', '', 1),
                                  (r'con\.rhs\(\)', 'con_rhs()', 2),
                                  (r'auto bndsNType = MPD\( ComputeBoundsAndType\(body\) \);', 'struct BT bndsNType = { g_blb, g_bub, g_btype };', 1),
                                  (r'bndsNType\.lb\(\)', 'bndsNType.lb_', 2), (r'bndsNType\.ub\(\)', 'bndsNType.ub_', 2)],
                           label='mp::ConstraintPreprocessors::FixEqualityResult', nmatches=1),
                        '''
void harness(void) { vp_one = 1; lb_ = 0.0; ub_ = 1.0; type_ = var_INTEGER; result_var_ = -1;
  g_rhs = nondet_double(); g_blb = nondet_double(); g_bub = nondet_double(); g_z = nondet_double(); g_btype = nondet_int();
  __CPROVER_assume(g_rhs == g_rhs && g_z == g_z && g_blb <= g_z && g_z <= g_bub && (g_btype != var_INTEGER || VP_ISINT(g_z)));
  FixEqualityResult(); VP_REACH("normal return"); }
''']
    return Harness('C06.FixEqualityResult', 'C06', parts, enforce='FixEqualityResult',
                   stubs=['ComputeBoundsAndType(body) (assumed sound box containing the body value z)'], timeout=900)


def h_andor(kind):
    fixed0, fixed1 = ('n01.first', 'n01.second') if kind == 'And' else ('n01.second', 'n01.first')
    parts = [PRE, PREPRO, PDEF, 'struct pair_int_int { int first; int second; };\nstruct pair_int_int g_n01;\n'] + prepro_fns() + [
        'struct pair_int_int count_fixed_01(void) { return g_n01; }   /* contract proved by C06.count_fixed_01 */\n',
        Fn(PP, r'prepro\.narrow_result_bounds\(0\.0, 1\.0\);\s*prepro\.set_result_type\( var::INTEGER \);\s*auto n01 = count_fixed_01\(con\.GetArguments\(\)\);\s*if \(%s\)' % ('n01\\.first' if kind == 'And' else 'n01\\.second'),
           'void Preprocess_%s_head(void)' % kind,
           block_end=r'if \(\(int\)con\.GetArguments\(\)\.size\(\)[^{;]*\{\s*prepro\.narrow_result_bounds\([^;]*\);\s*return;\s*\}',
           contract='__CPROVER_requires(lb_ == 0.0 && ub_ == 1.0 && g_n01.first >= 0 && g_n01.second >= 0 && g_nargs <= 1000000) '
                    + ('__CPROVER_ensures((lb_ == 0.0 && ub_ == 0.0) == (g_n01.first >= 1)) '
                       '__CPROVER_ensures((lb_ == 1.0 && ub_ == 1.0) == (g_n01.first == 0 && (size_t)g_n01.second == g_nargs)) '
                       if kind == 'And' else
                       '__CPROVER_ensures((lb_ == 1.0 && ub_ == 1.0) == (g_n01.second >= 1)) '
                       '__CPROVER_ensures((lb_ == 0.0 && ub_ == 0.0) == (g_n01.second == 0 && (size_t)g_n01.first == g_nargs)) ')
                    + '__CPROVER_ensures(type_ == var_INTEGER && lb_ >= 0.0 && ub_ <= 1.0) __CPROVER_assigns(lb_, ub_, type_)',
           subst=PSUB + [(r'auto n01 = count_fixed_01\(g_args\);', 'struct pair_int_int n01 = count_fixed_01();', 1), (r'g_args\.size\(\)', 'g_nargs', 1)],
           label='mp::ConstraintPreprocessors::PreprocessConstraint(%sConstraint&) [fixed-result part]' % kind),
        '''
void harness(void) { vp_one = 1; lb_ = 0.0; ub_ = 1.0; type_ = 0; g_nargs = nondet_size_t(); __CPROVER_assume(g_nargs <= 1000000);
  g_n01.first = nondet_int(); g_n01.second = nondet_int(); __CPROVER_assume(g_n01.first >= 0 && g_n01.second >= 0);
  Preprocess_%s_head(); VP_REACH("normal return"); }
''' % kind]
    return Harness('C06.Preprocess.%s.head' % kind, 'C06', parts, enforce='Preprocess_%s_head' % kind, no_canary=False,
                   note='result fixed only on the counts of fixed-false / fixed-true arguments (count_fixed_01 contract)')


_drv = {}


def replay(lead, inputs, obs):
    """Native neighbourhood search: the three drivers run the real preprocessors (Min/Max/IfThen over 10 argument domains with brute force
    over reachable values; conditional comparisons with fractional right-hand sides; the constant boxes of acos/asin/atan that depend on
    Pi()).  They cover part of the harnesses only: a failure they do not reach is reported with no-failing-input-found."""
    import subprocess
    from vp import native
    text = ''
    for src in ('c06_minmax_replay.cc', 'c06_cmp_replay.cc', 'c06_div_replay.cc', 'c06_pi_replay.cc', 'c06_pow_replay.cc', 'c06_square_replay.cc', 'c06_prop_replay.cc'):
        if src not in _drv:
            try:
                _drv[src] = native.build_driver(src, src[:-3], native.MP_SOURCES, ['-O0'])[0]
            except RuntimeError as e:
                text += '%s does not build: %s\n' % (src, str(e)[-400:])
                _drv[src] = None
        if not _drv[src]:
            continue
        p = subprocess.run([_drv[src]], capture_output=True, text=True, timeout=600)
        text += (p.stdout + p.stderr)[-1200:]
        if p.returncode != 0:
            return True, text[-2500:], _drv[src]
    return False, text[-2500:], ''


def harnesses(tier, seed):
    from specs import C06_bounds, C06_prop
    hs = _harnesses(tier, seed)
    for h in hs:
        h.replay = replay
    extra = C06_bounds.harnesses() + C06_prop.harnesses()
    for h in extra:
        h.replay = replay
    return hs + extra


def h_div():
    """DivConstraint: the result box is the hull of the four corner quotients (interval division over a denominator box that does not
    contain zero): the box is never narrowed beyond any corner quotient, and only when all four bounds are finite and the denominator
    box has one sign.  That the hull of the corners contains every quotient (monotonicity of the double division) is not decided."""
    L1, U1, L2, U2 = 'g_lb[g_args[0]]', 'g_ub[g_args[0]]', 'g_lb[g_args[1]]', 'g_ub[g_args[1]]'
    # every quotient <x>1 / <y>2 of the source text is replaced by the ghost value Q_<x><y> (the four corner quotients as opaque numbers: SAT
    # cannot relate two evaluations of one double division); a quotient over other operands stays a real division
    corners = ['Q_ll', 'Q_lu', 'Q_ul', 'Q_uu']
    guard = '(%s > -1e20 && %s < 1e20 && %s > -1e20 && %s < 1e20 && P_l2u2 > 0.0)' % (L1, U1, L2, U2)
    ens = ') __CPROVER_ensures('.join('(lb_ <= __CPROVER_old(lb_) || lb_ <= %s) && (ub_ >= __CPROVER_old(ub_) || ub_ >= %s)' % (q, q) for q in corners)
    ens += ') __CPROVER_ensures(!%s ==> (lb_ == __CPROVER_old(lb_) && ub_ == __CPROVER_old(ub_))) __CPROVER_ensures(%s' % (guard, NAR)
    return h_pc('Div', ens, nargs_req='g_nargs >= 2 && Q_ll == Q_ll && Q_lu == Q_lu && Q_ul == Q_ul && Q_uu == Q_uu',
                subst=[(r'auto& m = VP_MPD\(\s*GetModel\(\)\s*\);', '', 1), (r'\b([lu])1 / ([lu])2\b', r'Q_\1\2', -1), (r'\bl2 \* u2\b', 'P_l2u2', 1)],
                extra_parts=['static double VP_M_PracticallyInf(void) { return %s; }\nstatic double VP_M_PracticallyMinusInf(void) { return %s; }\n' % practically(),
                             'double P_l2u2;   /* the product l2 * u2 of the denominator bounds as an opaque value (its sign says whether the box contains zero) */\ndouble Q_ll, Q_lu, Q_ul, Q_uu;   /* the quotients l1/l2, l1/u2, u1/l2, u1/u2 of the bounds (finite, denominator box without zero) */\n'],
                pre='Q_ll = nondet_double(); Q_lu = nondet_double(); Q_ul = nondet_double(); Q_uu = nondet_double(); P_l2u2 = nondet_double();',
                stubs=['PracticallyInf / PracticallyMinusInf (constants read from constr_keeper.h on this run)',
                       'the four corner quotients <l|u>1 / <l|u>2 of the source text as opaque values'])


def h_pow():
    """PowConstraint x^a (a a constant): replaced by the constant 1 only for a == 0, by the argument itself only for a == 1; integer only for an
    integer argument and a non-negative integer a; the result box is never narrowed beyond the two end values lb^a, ub^a (opaque ghost values:
    SAT cannot evaluate pow), contains 0 for an even a over a domain that straddles 0, and is left alone for a fractional or negative a over a
    domain with negative values.  That x^a is monotone between the ends (and what pow returns) is not decided."""
    A, L, U = 'g_args[0]', 'g_lb[g_args[0]]', 'g_ub[g_args[0]]'
    untouched = '((!VP_ISINT(g_pwr) || g_pwr < 0.0) && %s < 0.0)' % L
    straddle = '(VP_ISINT(g_pwr / 2.0) && %s < 0.0 && %s > 0.0)' % (L, U)   # even exponent over a domain around 0
    ens = ('(result_var_ == -1 || (result_var_ == %s && g_pwr == 1.0))' % A +
           ') __CPROVER_ensures((g_pwr == 0.0) ==> (' + box('1.0', '1.0') + ' && result_var_ == -1)' +
           ') __CPROVER_ensures((g_pwr != 0.0 && g_pwr != 1.0 && %s) ==> (lb_ == __CPROVER_old(lb_) && ub_ == __CPROVER_old(ub_))' % untouched +
           ') __CPROVER_ensures((g_pwr != 0.0) ==> (ub_ >= __CPROVER_old(ub_) || (ub_ >= POW_L && ub_ >= POW_U))' +
           ') __CPROVER_ensures((g_pwr != 0.0 && !%s) ==> (lb_ <= __CPROVER_old(lb_) || (lb_ <= POW_L && lb_ <= POW_U))' % straddle +
           ') __CPROVER_ensures((g_pwr != 0.0 && %s) ==> (lb_ <= __CPROVER_old(lb_) || lb_ <= 0.0)' % straddle +
           ') __CPROVER_ensures(type_ == var_INTEGER ==> (g_type[%s] == var_INTEGER && VP_ISINT(g_pwr) && g_pwr >= 0.0)' % A +
           ') __CPROVER_ensures(' + NAR)
    return h_pc('Pow', ens, nargs_req='g_nargs >= 1 && g_pwr == g_pwr && POW_L == POW_L && POW_U == POW_U && %s <= %s' % (L, U),
                subst=[(r'auto& m = VP_MPD\(\s*GetModel\(\)\s*\);', '', 1), (r'c\.GetParameters\(\)\[0\]', 'g_pwr', 1),
                       (r'std::pow\(VP_M_lb\(arg\), pwr\)', 'POW_L', 1), (r'std::pow\(VP_M_ub\(arg\), pwr\)', 'POW_U', 1)],
                extra_parts=[Fn(CM, r'static bool is_integer_value\(Num n\)', 'bool is_integer_value(double n)', label='mp::FlatModel::is_integer_value', nmatches=1),
                             'static _Bool VP_M_is_integer_value(double n) { return is_integer_value(n); }\n'
                             'double g_pwr;            /* the exponent: c.GetParameters()[0] */\ndouble POW_L, POW_U;   /* pow(lb, a), pow(ub, a) as opaque values */\n'],
                pre='g_pwr = nondet_double(); POW_L = nondet_double(); POW_U = nondet_double();',
                stubs=['std::pow at the two ends of the argument domain as opaque values'])


def practically():
    txt = extract.blank_comments(extract.read_repo(CK))
    a = re.search(r'PracticallyInf\(\)\s*\{\s*return\s*([0-9.eE+-]+)\s*;', txt)
    b = re.search(r'PracticallyMinusInf\(\)\s*\{\s*return\s*([0-9.eE+-]+)\s*;', txt)
    if not a or not b:
        raise extract.ExtractionError('PracticallyInf / PracticallyMinusInf not found in constr_keeper.h')
    return a.group(1), b.group(1)


def _harnesses(tier, seed):
    hs = [h_narrow()] + [h_arr(n) for n in ARR] + [h_common_type(), h_count_fixed()]
    hs += fixed_box_harnesses() + range_harnesses()
    hs += [h_abs(), h_abs_point(), h_ifthen(), h_minmax('Min'), h_minmax('Max'), h_round(), h_fixeq(), h_andor('And'), h_andor('Or'), h_div(), h_pow()]
    return hs
