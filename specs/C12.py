"""C12 - objective selection (nl-reader.h NLProblemBuilder, solver-base.h BasicSolver, solver-io.h OnHeader).

State (one solver object): objno_ (>= -1: -1 = defaulted, else the user's value; invariant established by
SetObjNo's contract and the member initialiser {-1}), multiobj_, opts_read_, obj_added_.
k = objno_specified() = |objno_|.  M = "multi-objective mode on and objno defaulted".
"""
from vp.extract import Fn
from vp.run import Harness

NLR = 'include/mp/nl-reader.h'
SB = 'include/mp/solver-base.h'
SIO = 'include/mp/solver-io.h'

META = {
    'decides': 'for every option state (objno given or defaulted, multiobj on/off) and every objective count n and index i: '
               'exactly the k-th / none / all objectives are needed, kept count equals the number of needed objectives, '
               'kept indices are inside the allocated range, an objno beyond the file is rejected in OnHeader, '
               'objno_used() echoes k when an objective was added and 0 when none was; the O segment forwards an '
               'objective to the builder iff it is needed, at its resulting index',
    'not_decided': 'that the skipped objectives\' expression trees and G segments are parsed and discarded without side '
                   'effects (recursive expression readers: C02); the visitor that flattens the nonlinear part; '
                   'the objno line of the .sol file (WriteSolFile formatting)',
    'not_under_contract': ['NLReader::ReadNumericExpr (recursive templates: C02)', 'the expression visitor and term containers of ProblemFlattener (ghost objects)',
                           'WriteSolFile objno line (C05)'],
    'assumptions': ['one solver object: members objno_, multiobj_, opts_read_, obj_added_ rendered as globals',
                    'virtual objno()/multiobj()/notify_obj_added() resolve to the SolverNLHandlerImpl overrides',
                    'objno_ >= -1 (member initialiser -1; SetObjNo, the only writer, is proved to store only values >= 0)'],
    'trusted_base': [],
}

HANDLE = [(r'\b(solver_|handler_|reader_|builder_)\.', r'\1', -1)]

PRELUDE = '''
int vp_one;
int objno_; bool multiobj_; bool opts_read_; bool obj_added_;
#define min(a, b) ((a) < (b) ? (a) : (b))
#define assert(x) __CPROVER_assert(x, "assert(" #x ") of the source holds")
#define K (objno_ < 0 ? -objno_ : objno_)
#define M (multiobj_ && objno_ < 0)
#define INV (objno_ >= -1)
struct SolverOption;
'''

# (c name, file, anchor, proto, contract, label)
SOLVER_FNS = {
    'solver_objno_specified': (SB, r'int objno_specified\(\) const', 'int solver_objno_specified(void)',
                               '__CPROVER_requires(INV) __CPROVER_ensures(__CPROVER_return_value == K) __CPROVER_assigns()',
                               'mp::BasicSolver::objno_specified'),
    'solver_is_objno_specified': (SB, r'bool is_objno_specified\(\) const', 'bool solver_is_objno_specified(void)',
                                  '__CPROVER_requires(INV) __CPROVER_ensures(__CPROVER_return_value == (objno_ >= 0)) __CPROVER_assigns()',
                                  'mp::BasicSolver::is_objno_specified'),
    'solver_multiobj': (SB, r'bool multiobj\(\) const', 'bool solver_multiobj(void)',
                        '__CPROVER_requires(INV) __CPROVER_ensures(__CPROVER_return_value == M) __CPROVER_assigns()',
                        'mp::BasicSolver::multiobj'),
    'solver_notify_obj_added': (SB, r'void notify_obj_added\(\)', 'void solver_notify_obj_added(void)',
                                '__CPROVER_ensures(obj_added_ == 1) __CPROVER_assigns(obj_added_)',
                                'mp::BasicSolver::notify_obj_added'),
    'solver_notify_start_opts': (SB, r'void notify_start_opts\(\)', 'void solver_notify_start_opts(void)',
                                 '__CPROVER_ensures(opts_read_ == 0) __CPROVER_assigns(opts_read_)',
                                 'mp::BasicSolver::notify_start_opts'),
    'solver_notify_end_opts': (SB, r'void notify_end_opts\(\)', 'void solver_notify_end_opts(void)',
                               '__CPROVER_ensures(opts_read_ == 1) __CPROVER_assigns(opts_read_)',
                               'mp::BasicSolver::notify_end_opts'),
    'solver_objno_used': (SB, r'int objno_used\(\) const', 'int solver_objno_used(void)',
                          '__CPROVER_requires(INV) __CPROVER_ensures(__CPROVER_return_value == (opts_read_ ? (obj_added_ ? K : 0) : K)) __CPROVER_assigns()',
                          'mp::BasicSolver::objno_used'),
    'solver_GetObjNo': (SB, r'int GetObjNo\(const SolverOption &\) const', 'int solver_GetObjNo(const struct SolverOption *o)',
                        '__CPROVER_requires(INV) __CPROVER_ensures(__CPROVER_return_value == K) __CPROVER_assigns()',
                        'mp::BasicSolver::GetObjNo'),
}
# SolverNLHandlerImpl overrides + NLProblemBuilder
HANDLER_FNS = {
    'objno': (SIO, r'int objno\(\) const override', 'int objno(void)',
              '__CPROVER_requires(INV) __CPROVER_ensures(__CPROVER_return_value == K) __CPROVER_assigns()',
              'mp::SolverNLHandlerImpl::objno'),
    'multiobj': (SIO, r'bool multiobj\(\) const override', 'bool multiobj(void)',
                 '__CPROVER_requires(INV) __CPROVER_ensures(__CPROVER_return_value == M) __CPROVER_assigns()',
                 'mp::SolverNLHandlerImpl::multiobj'),
    'notify_obj_added': (SIO, r'void notify_obj_added\(\) const override', 'void notify_obj_added(void)',
                         '__CPROVER_ensures(obj_added_ == 1) __CPROVER_assigns(obj_added_)',
                         'mp::SolverNLHandlerImpl::notify_obj_added'),
    'resulting_nobj': (NLR, r'int resulting_nobj\(int nobj_header\) const', 'int resulting_nobj(int nobj_header)',
                       '__CPROVER_requires(INV && nobj_header >= 0) '
                       '__CPROVER_ensures(__CPROVER_return_value == (M ? nobj_header : ((K >= 1 && nobj_header >= 1) ? 1 : 0))) __CPROVER_assigns()',
                       'mp::internal::NLProblemBuilder::resulting_nobj'),
    'NeedObj': (NLR, r'bool NeedObj\(int obj_index\) const', 'bool NeedObj(int obj_index)',
                '__CPROVER_requires(INV) __CPROVER_ensures(__CPROVER_return_value == (M || K - 1 == obj_index)) __CPROVER_assigns()',
                'mp::internal::NLProblemBuilder::NeedObj'),
    'resulting_obj_index': (NLR, r'int resulting_obj_index\(int index\) const', 'int resulting_obj_index(int index)',
                            '__CPROVER_requires(INV && (M || K - 1 == index)) '
                            '__CPROVER_ensures(__CPROVER_return_value == (M ? index : 0)) __CPROVER_assigns()',
                            'mp::internal::NLProblemBuilder::resulting_obj_index'),
}
DEPS = {
    'objno': ['solver_objno_specified'], 'multiobj': ['solver_multiobj'], 'notify_obj_added': ['solver_notify_obj_added'],
    'resulting_nobj': ['objno', 'multiobj'], 'NeedObj': ['objno', 'multiobj'], 'resulting_obj_index': ['objno', 'multiobj'],
    'solver_objno_used': ['solver_objno_specified'],
}
ALL = dict(SOLVER_FNS)
ALL.update(HANDLER_FNS)


def decl(name):
    f = ALL[name]
    return '%s\n%s;\n' % (f[2], f[3])


def fn(name, with_contract=True):
    f = ALL[name]
    anchor = f[1]
    sub = list(HANDLE)
    ordinal, nm = 0, 1
    if name == 'NeedObj':
        ordinal, nm = 1, 2      # first match is NLHandler::NeedObj (the default handler), second NLProblemBuilder's
    if name == 'solver_objno_used':
        sub.append((r'\bobjno_specified\(\)', 'solver_objno_specified()', 2))   # call inside BasicSolver itself
    return Fn(f[0], anchor, f[2], contract=f[3] if with_contract else '', subst=sub, label=f[4], nmatches=nm,
              ordinal=ordinal)


STATE = '''
int vp_in_objno, vp_in_multiobj, vp_in_n, vp_in_i, vp_in_opts_read, vp_in_obj_added;
static void vp_state(void) {
  vp_one = 1;
  objno_ = nondet_int(); __CPROVER_assume(objno_ >= -1);
  multiobj_ = nondet_bool(); opts_read_ = nondet_bool(); obj_added_ = nondet_bool();
  vp_in_objno = objno_; vp_in_multiobj = multiobj_; vp_in_opts_read = opts_read_; vp_in_obj_added = obj_added_;
}
'''


def fn_harness(name):
    parts = [PRELUDE]
    deps = DEPS.get(name, [])
    for d in deps:
        parts.append(decl(d))
    parts.append(fn(name))
    f = ALL[name]
    args = ''
    pre = ''
    if 'int nobj_header' in f[2]:
        pre = 'int n = nondet_int(); vp_in_n = n;'
        args = 'n'
    elif 'int obj_index' in f[2] or 'int index' in f[2]:
        pre = 'int i = nondet_int(); vp_in_i = i;'
        args = 'i'
    elif 'SolverOption' in f[2]:
        args = '0'
    parts.append(STATE + 'void harness(void) { vp_state(); %s %s(%s); VP_REACH("normal return"); }\n' % (pre, name, args))
    return Harness('C12.fn.' + name, 'C12', parts, enforce=name, replace=deps,
                   inputs=['vp_in_objno', 'vp_in_multiobj', 'vp_in_n', 'vp_in_i'], replay=replay)


def setobjno_harness():
    parts = [PRELUDE, '''
#define VP_MAY_THROW_InvalidOptionValue (value < 0)
''', Fn(SB, r'void SetObjNo\(const SolverOption &opt, int value\)', 'void solver_SetObjNo(const struct SolverOption *opt, int value)',
        contract='__CPROVER_ensures(value >= 0 && objno_ == value) __CPROVER_assigns(objno_)',
        label='mp::BasicSolver::SetObjNo', nmatches=1),
             STATE + 'void harness(void) { vp_state(); int v = nondet_int(); vp_in_n = v; solver_SetObjNo(0, v); VP_REACH("normal return"); }\n']
    return Harness('C12.fn.solver_SetObjNo', 'C12', parts, enforce='solver_SetObjNo',
                   inputs=['vp_in_n'], note='establishes the invariant objno_ >= -1 (with the member initialiser {-1})')


ONHEADER_CONTRACT = ('__CPROVER_requires(INV && h.num_objs >= 0) '
                     '__CPROVER_ensures(INV && !(objno_ >= 0 && K > h.num_objs) && opts_read_ == 1) '
                     '__CPROVER_assigns(objno_, multiobj_, opts_read_)')


def onheader_harness():
    """SolverNLHandlerImpl::OnHeader from the option notification to the objno range check.  after_header_ (a
    std::function: the deferred option parsing of the model manager) may set objno (SetObjNo: >= 0) and multiobj."""
    parts = [PRELUDE, decl('solver_objno_specified'), decl('solver_is_objno_specified'), decl('solver_notify_start_opts'),
             decl('solver_notify_end_opts'), '''
struct { int num_objs; } h;
int g_after_header;
/* after_header_(): parses the solver options; objno_ only through SetObjNo (contract: stores a value >= 0) */
void vp_after_header(void) { if (nondet_bool()) { int v = nondet_int(); __CPROVER_assume(v >= 0); objno_ = v; } multiobj_ = nondet_bool(); }
#define VP_MAY_THROW_InvalidOptionValue (objno_ >= 0 && K > h.num_objs)
''', Fn(SIO, r'if \(after_header_\) \{\s*solver_\.notify_start_opts', 'void vp_OnHeader_objno_check(void)',
        block_end=r'fmt::format\("expected value between 0 and \{\}", h\.num_objs\)\);',
        contract=ONHEADER_CONTRACT,
        subst=HANDLE + [(r'if \(after_header_\)', 'if (g_after_header)', 1), (r'after_header_\(\);', 'vp_after_header();', 1)],
        label='mp::SolverNLHandlerImpl::OnHeader [option notification + objno range check]'),
             STATE + '''void harness(void) { vp_state(); h.num_objs = nondet_int(); __CPROVER_assume(h.num_objs >= 0); vp_in_n = h.num_objs;
  g_after_header = nondet_bool();
  vp_OnHeader_objno_check(); VP_REACH("normal return"); }
''']
    return Harness('C12.OnHeader.range', 'C12', parts, enforce='vp_OnHeader_objno_check',
                   replace=['solver_objno_specified', 'solver_is_objno_specified', 'solver_notify_start_opts', 'solver_notify_end_opts'],
                   inputs=['vp_in_objno', 'vp_in_multiobj', 'vp_in_n'], replay=replay,
                   stubs=['after_header_ callback (option parsing: may set objno >= 0 and multiobj)'])


def builder_onheader_harness():
    """NLProblemBuilder::OnHeader, the objective allocation: the problem gets exactly resulting_nobj(h.num_objs) objectives (all of the file's
    in multi-objective mode, one when a single objective is selected and the file has some, none otherwise) - the count the O and G segment
    handlers then index into."""
    parts = [PRELUDE, decl('resulting_nobj'), '''
struct { int num_objs; } h;
int g_added; int g_addobjs_calls;
static void builder_AddObjs(int n) { g_addobjs_calls++; g_added = n; }
''',
             Fn(NLR, r'int n_objs = resulting_nobj\( h\.num_objs \);', 'void vp_alloc_objs(void)', block_end=r'builder_\.AddObjs\([^;]*\);',
                contract='__CPROVER_requires(INV && h.num_objs >= 0 && g_addobjs_calls == 0 && g_added == 0) '
                         '__CPROVER_ensures(g_added == (M ? h.num_objs : ((K >= 1 && h.num_objs >= 1) ? 1 : 0)) && g_addobjs_calls <= 1) __CPROVER_assigns(g_added, g_addobjs_calls)',
                subst=HANDLE, label='mp::internal::NLProblemBuilder::OnHeader [objective allocation]'),
             STATE + '''void harness(void) { vp_state(); h.num_objs = nondet_int(); __CPROVER_assume(h.num_objs >= 0); vp_in_n = h.num_objs; g_added = 0; g_addobjs_calls = 0;
  vp_alloc_objs(); VP_REACH("normal return"); }
''']
    return Harness('C12.NLProblemBuilder.OnHeader.objectives', 'C12', parts, enforce='vp_alloc_objs', replace=['resulting_nobj'],
                   inputs=['vp_in_objno', 'vp_in_multiobj', 'vp_in_n'], replay=replay,
                   stubs=['ProblemBuilder::AddObjs (ghost: records the count)'], note='modular: uses the contract of resulting_nobj')


def osegment_harness():
    """case 'O' of NLReader::Read: index read with ReadUInt(num_objs) (contract: 0 <= index < bound, proved in C02),
    objective forwarded iff NeedObj(index), at resulting_obj_index(index)."""
    parts = [PRELUDE, decl('NeedObj').replace('bool NeedObj', 'bool handler_NeedObj'),
             decl('resulting_obj_index').replace('int resulting_obj_index', 'int handler_resulting_obj_index'), '''
struct { int num_objs; } header_;
typedef int NumericExpr;
enum { obj_MIN = 0, obj_MAX = 1 };
int ReadUInt(unsigned ub)
__CPROVER_requires(1)
__CPROVER_ensures(0 <= __CPROVER_return_value && (unsigned)__CPROVER_return_value < ub)
__CPROVER_assigns();
int reader_ReadUInt(void)
__CPROVER_requires(1) __CPROVER_ensures(__CPROVER_return_value >= 0) __CPROVER_assigns();
void reader_ReadTillEndOfLine(void) {}
NumericExpr ReadNumericExpr(bool b) { return nondet_int(); }
int g_calls, g_index, g_type, g_read_index, g_never;
void handler_OnObj(int index, int type, NumericExpr e) { g_calls++; g_index = index; g_type = type; }
''',
             Fn(NLR, r"int index = ReadUInt\(header_\.num_objs\);\s*int obj_type",
                'void vp_O_segment(void)', block_end=r'expr\);\s*break;',
                contract='__CPROVER_requires(INV && header_.num_objs >= 0 && g_calls == 0) '
                         '__CPROVER_ensures(g_calls == ((M || K - 1 == g_read_index) ? 1 : 0)) '
                         '__CPROVER_ensures(g_calls == 1 ==> (g_index == (M ? g_read_index : 0) && (g_type == obj_MIN || g_type == obj_MAX))) '
                         '__CPROVER_ensures(0 <= g_read_index && g_read_index < header_.num_objs) '
                         '__CPROVER_assigns(g_calls, g_index, g_type, g_read_index)',
                subst=HANDLE + [(r'break;\s*\}$', 'g_read_index = index; }', 1)],
                label="mp::internal::NLReader::Read [case 'O']"),
             STATE + '''void harness(void) { vp_state(); header_.num_objs = nondet_int(); __CPROVER_assume(header_.num_objs >= 0);
  vp_in_n = header_.num_objs; g_calls = 0;
  g_never = 0; if (g_never) { (void)handler_NeedObj(0); (void)handler_resulting_obj_index(0); (void)ReadUInt(1); (void)reader_ReadUInt(); }   /* DFCC insists that a replaced function is referenced */
  vp_O_segment(); VP_REACH("normal return"); }
''']
    return Harness('C12.NLReader.O_segment', 'C12', parts, enforce='vp_O_segment',
                   replace=['handler_NeedObj', 'handler_resulting_obj_index', 'ReadUInt', 'reader_ReadUInt'],
                   inputs=['vp_in_objno', 'vp_in_multiobj', 'vp_in_n'], replay=replay,
                   stubs=['NLReader::ReadUInt(ub) (contract 0 <= ret < ub, proved under C02)', 'TextReader::ReadUInt() (>= 0)',
                          'NLReader::ReadNumericExpr (opaque)', 'Handler::OnObj (ghost: records the call)'])


def gsegment_harness():
    """'G' segment: NLReader::ReadLinearExpr<ObjHandler>(): the linear part of objective `index` is forwarded to the builder
    iff the objective is needed, at its resulting index and with the announced number of terms; otherwise it is read
    into a null handler (discarded)."""
    parts = [PRELUDE, decl('NeedObj').replace('bool NeedObj', 'bool handler_NeedObj'),
             decl('resulting_obj_index').replace('int resulting_obj_index', 'int handler_resulting_obj_index'), """
struct { int num_objs; int num_vars; } header_;
static int ReadUInt1(unsigned ub) { int v = nondet_int(); __CPROVER_assume(v >= 0 && (unsigned)v < ub); return v; }
static int ReadUInt2(unsigned lb, unsigned ub) { int v = nondet_int(); __CPROVER_assume(v >= 0 && lb <= (unsigned)v && (unsigned)v < ub); return v; }
#define VP_SEL2(_1, _2, NAME, ...) NAME
#define ReadUInt(...) VP_SEL2(__VA_ARGS__, ReadUInt2, ReadUInt1)(__VA_ARGS__)
static void reader_ReadTillEndOfLine(void) {}
int g_read_index, g_notified, g_index, g_terms, g_null_reads, g_h_reads, g_read_terms;
/* Handler::OnLinearObjExpr(obj_index, num_terms) */
static int handler_OnLinearObjExpr(int obj_index, int num_terms) { g_notified++; g_index = obj_index; g_terms = num_terms; return 0; }
/* ReadLinearExpr(num_terms, handler): proved by C02.NLReader.ReadLinearExpr (exactly num_terms terms) */
static void ReadLinearExpr_null(int num_terms) { g_null_reads++; g_read_terms = num_terms; }
static void ReadLinearExpr_h(int num_terms, int h) { g_h_reads++; g_read_terms = num_terms; }
""",
             Fn(NLR, r'int num_items\(\) const \{ return this->reader_\.header_\.num_objs; \}', 'int lh_num_items(void)',
                subst=[(r'this->reader_\.', '', 1)], label='mp::internal::NLReader::ObjHandler::num_items', nmatches=1),
             Fn(NLR, r'bool SkipExpr\(int obj_index\) const', 'bool lh_SkipExpr(int obj_index)',
                subst=[(r'this->reader_\.handler_\.', 'handler_', 1)], label='mp::internal::NLReader::ObjHandler::SkipExpr', nmatches=1),
             Fn(NLR, r'typename Handler::LinearObjHandler OnLinearExpr\(int index, int num_terms\)', 'int lh_OnLinearExpr(int index, int num_terms)',
                subst=[(r'auto& h = this->reader_\.handler_;', '', 1), (r'\bh\.', 'handler_', 2)],
                label='mp::internal::NLReader::ObjHandler::OnLinearExpr', nmatches=1),
             Fn(NLR, r'void NLReader<Reader, Handler>::ReadLinearExpr\(\) \{', 'void ReadLinearExpr_G(void)',
                contract='__CPROVER_requires(INV && header_.num_objs >= 0 && header_.num_vars >= 0 && g_notified == 0 && g_null_reads == 0 && g_h_reads == 0) '
                         '__CPROVER_ensures(0 <= g_read_index && g_read_index < header_.num_objs) '
                         '__CPROVER_ensures(g_notified == ((M || K - 1 == g_read_index) ? 1 : 0) && g_h_reads == g_notified && g_null_reads == 1 - g_notified) '
                         '__CPROVER_ensures(1 <= g_read_terms && g_read_terms <= header_.num_vars) '
                         '__CPROVER_ensures(g_notified == 1 ==> (g_index == (M ? g_read_index : 0) && g_terms == g_read_terms)) '
                         '__CPROVER_assigns(g_read_index, g_notified, g_index, g_terms, g_null_reads, g_h_reads, g_read_terms)',
                subst=HANDLE + [(r'LinearHandler lh\(\*this\);', '', 1), (r'\blh\.', 'lh_', -1),
                                (r'ReadLinearExpr\(num_terms, NullLinearExprHandler\(\)\)', 'ReadLinearExpr_null(num_terms)', 1),
                                (r'ReadLinearExpr\(num_terms, lh_OnLinearExpr\(index, num_terms\)\)', 'ReadLinearExpr_h(num_terms, lh_OnLinearExpr(index, num_terms))', 1),
                                (r'reader_ReadTillEndOfLine\(\);', 'reader_ReadTillEndOfLine(); /* ghost */ g_read_index = index;', 1)],
                label='mp::internal::NLReader::ReadLinearExpr<ObjHandler>()', nmatches=1),
             STATE + """void harness(void) { vp_state(); header_.num_objs = nondet_int(); header_.num_vars = nondet_int();
  __CPROVER_assume(header_.num_objs >= 0 && header_.num_vars >= 0); vp_in_n = header_.num_objs;
  g_notified = 0; g_null_reads = 0; g_h_reads = 0; ReadLinearExpr_G(); VP_REACH("normal return"); }
"""]
    return Harness('C12.NLReader.G_segment', 'C12', parts, enforce='ReadLinearExpr_G',
                   replace=['handler_NeedObj', 'handler_resulting_obj_index'], inputs=['vp_in_objno', 'vp_in_multiobj', 'vp_in_n'],
                   stubs=['Handler::OnLinearObjExpr (ghost record)', 'ReadLinearExpr(n, handler) (proved under C02)', 'NLReader::ReadUInt'])


PF = 'include/mp/flat/problem_flattener.h'


def replay_objective(lead, inputs, obs):
    """the objective that reaches the converter's ModelAPI, evaluated at a point, against the NL file's objective (adapted from the
    demonstration of seeded change M51)"""
    import subprocess
    from vp import native
    drv = native.build_driver('c12_objective_replay.cc', 'c12_objective_replay', native.MP_SOURCES, ['-O0', '-DNDEBUG'])[0]
    p = subprocess.run([drv], capture_output=True, text=True, timeout=300)
    return p.returncode == 1, (p.stdout + p.stderr)[-2000:], drv


def flatten_objective_harness():
    """ProblemFlattener::Convert(MutObjective): the objective handed to the converter (AddObjective) is the objective read - its sense, the
    linear part of the file (ToLinTerms(obj.linear_expr())), and of the nonlinear part's flattened form its linear terms, its quadratic terms
    and its CONSTANT (carried by a fixed variable with coefficient 1) - delivered exactly once, with sorted (merged) terms.
    Containers and the expression visitor are ghost objects: what is checked is which pieces reach AddObjective."""
    parts = ['#include "mp_shim.h"\n#include <math.h>\nint vp_one;\n', '''
typedef struct { double c; int lin_id, qp_id; } EExpr;
enum { obj_MIN = 0, obj_MAX = 1, CTX_POS = 1, CTX_NEG = 2 };
int g_type, g_file_lin; _Bool g_has_nl; EExpr g_flat;            /* the objective as read, and the flattened form of its nonlinear part */
int g_le_file, g_le_expr; double g_le_const; int g_le_nconst; _Bool g_le_sorted, g_qp_sorted; double g_fixed_val; int g_delivered;
static int vp_src_add(void) { return 1; }
static int vp_tgt_add(void) { return 2; }
static void vp_copylink(int a, int b) { }
static int obj_linear_expr(void) { return g_file_lin; }
static int obj_nonlinear_expr(void) { return g_has_nl; }
static int obj_type(void) { return g_type; }
static int ToLinTerms(int lin) { g_le_file = lin; return 0; }
static EExpr Visit(int e) { return g_flat; }
static void le_add(int lin) { __CPROVER_assert(g_le_expr == 0, "the linear terms of the nonlinear part are added once"); g_le_expr = lin; g_le_sorted = 0; }
static int MakeFixedVar(double v) { g_fixed_val = v; return 7; }
static void le_add_term(double coef, int var) { __CPROVER_assert(var == 7 && coef == 1.0, "the constant enters as 1 * (variable fixed at the constant)"); g_le_const = g_fixed_val; g_le_nconst++; g_le_sorted = 0; }
static void le_sort_terms(void) { g_le_sorted = 1; }
static void eexpr_qp_sort(void) { g_qp_sorted = 1; }
static double cvt_MinusInfty(void) { return -__builtin_inf(); }
static double cvt_Infty(void) { return __builtin_inf(); }
static void cvt_PropagateResult2LinTerms(int le, double lb, double ub, int ctx) { __CPROVER_assert(ctx == (g_type == obj_MAX ? CTX_POS : CTX_NEG), "context of a maximised / minimised objective"); }
static void cvt_PropagateResult2QuadTerms(int qp, double lb, double ub, int ctx) { __CPROVER_assert(ctx == (g_type == obj_MAX ? CTX_POS : CTX_NEG), "context of a maximised / minimised objective"); }
static int le_coefs(void) { return 11; }
static int le_vars(void) { return 12; }
static int vp_make_lo(int type, int coefs, int vars) {
  __CPROVER_assert(type == g_type, "the objective is delivered with the sense it was read with");
  __CPROVER_assert(coefs == 11 && vars == 12, "the linear objective is built from the collected terms");
  return 21; }
static int vp_make_qo(int lo, int qp) { __CPROVER_assert(lo == 21, "the quadratic objective wraps the linear one"); return qp; }
static void cvt_AddObjective(int qp) {
  __CPROVER_assert(g_le_file == g_file_lin, "the linear part of the file is delivered");
  __CPROVER_assert(g_has_nl ? g_le_expr == g_flat.lin_id : g_le_expr == 0, "the linear terms of the flattened nonlinear part are delivered (and nothing else)");
  __CPROVER_assert(g_has_nl ? ((g_le_nconst == 1 && g_le_const == g_flat.c) || (g_le_nconst == 0 && g_flat.c == 0.0)) : g_le_nconst == 0,
                   "the constant of the nonlinear part is delivered: the objective handed on has the same value as the one read");
  __CPROVER_assert(g_has_nl ? qp == g_flat.qp_id : qp == 0, "the quadratic terms of the flattened nonlinear part are delivered");
  __CPROVER_assert(g_le_sorted && g_qp_sorted, "terms are sorted / merged before delivery (repeated terms would be lost)");
  g_delivered++;
}
''',
             Fn(PF, r'void Convert\(typename ProblemType::MutObjective obj\)', 'void Convert_objective(void)',
                contract='__CPROVER_requires(g_flat.c == g_flat.c && g_flat.lin_id > 0 && g_flat.qp_id > 0 && g_file_lin > 0 && g_delivered == 0 && g_le_expr == 0 && g_le_nconst == 0 && !g_le_sorted && !g_qp_sorted) '
                         '__CPROVER_ensures(g_delivered == 1) __CPROVER_assigns(g_le_file, g_le_expr, g_le_const, g_le_nconst, g_le_sorted, g_qp_sorted, g_fixed_val, g_delivered)',
                subst=[(r'GetValuePresolver\(\)\.GetSourceNodes\(\)\.GetObjValues\(\)\(\)\.Add\(\)', 'vp_src_add()', 1),
                       (r'GetValuePresolver\(\)\.GetTargetNodes\(\)\.GetObjValues\(\)\(\)\.Add\(\)', 'vp_tgt_add()', 1),
                       (r'GetCopyLink\(\)\.AddEntry\(\s*\{([^{}]*)\}\s*\);', r'vp_copylink(\1);', 1),
                       (r'pre::AutoLinkScope<FlatConverterType> auto_link_scope\{[^{}]*\};', '', 1),
                       (r'NumericExpr e\b', 'int e', 1), (r'EExpr eexpr;', 'EExpr eexpr = {0.0, 0, 0};', 1), (r'MP_DISPATCH\(\s*Visit\(e\)\s*\)', 'Visit(e)', 1),
                       (r'eexpr\.GetQPTerms\(\)\.sort_terms\(\)', 'eexpr_qp_sort()', 1), (r'eexpr\.GetQPTerms\(\)', 'eexpr.qp_id', -1),
                       (r'eexpr\.GetLinTerms\(\)', 'eexpr.lin_id', 1), (r'eexpr\.constant_term\(\)', 'eexpr.c', -1),
                       (r'\b(le|obj)\.(\w+)\(', r'\1_\2(', -1), (r'GetFlatCvt\(\)\.(\w+)\(', r'cvt_\1(', -1),
                       (r'obj::MAX', 'obj_MAX', 1), (r'Context::(CTX_\w+)', r'\1', 2), (r'std::move\(', '(', -1),
                       (r'LinearObjective lo \{([^{}]*)\};', r'int lo = vp_make_lo(\1);', 1), (r'QuadraticObjective\{([^{}]*)\}', r'vp_make_qo(\1)', 1)],
                label='mp::ProblemFlattener::Convert(MutObjective)', nmatches=1), '''
void harness(void) { vp_one = 1; g_type = nondet_bool() ? obj_MAX : obj_MIN; g_file_lin = nondet_int(); g_has_nl = nondet_bool();
  g_flat.c = nondet_double(); g_flat.lin_id = nondet_int(); g_flat.qp_id = nondet_int();
  g_delivered = 0; g_le_expr = 0; g_le_nconst = 0; g_le_sorted = 0; g_qp_sorted = 0;
  Convert_objective(); VP_REACH("normal return"); }
''']
    return Harness('C12.ProblemFlattener.Convert.objective', 'C12', parts, enforce='Convert_objective', replay=replay_objective,
                   stubs=['LinTerms / EExpr / QuadTerms containers and the expression visitor (ghost objects)', 'value-presolve link bookkeeping (no-ops)'])


def lemma_harness():
    names = ['resulting_nobj', 'NeedObj', 'resulting_obj_index', 'solver_objno_used', 'solver_notify_obj_added',
             'solver_objno_specified', 'solver_is_objno_specified', 'vp_OnHeader_objno_check']
    parts = [PRELUDE] + [decl(n) for n in names[:-1]] + ['struct { int num_objs; } h;\nvoid vp_OnHeader_objno_check(void)\n' + ONHEADER_CONTRACT + ';\n',
                                                         STATE + '''
void harness(void) {
  vp_state();
  int n = nondet_int(), i = nondet_int(), j = nondet_int();
  __CPROVER_assume(n >= 0 && 0 <= i && i < n && 0 <= j && j < n);
  vp_in_n = n; vp_in_i = i;
  h.num_objs = n;
  vp_OnHeader_objno_check();                    /* the header was handled: contract of C12.OnHeader.range (a throw ends the path) */
  int k = solver_objno_specified();
  bool given = solver_is_objno_specified();
  int kept = resulting_nobj(n);
  bool need_i = NeedObj(i), need_j = NeedObj(j);
  vp_in_objno = objno_; vp_in_multiobj = multiobj_;
  if (multiobj_ && !given) {
    /* (a) multi-objective mode on, objno defaulted: all objectives in file order */
    __CPROVER_assert(need_i, "multiobj: every objective is needed");
    __CPROVER_assert(resulting_obj_index(i) == i, "multiobj: file order is kept");
    __CPROVER_assert(kept == n, "multiobj: all n objectives are allocated");
  } else {
    /* (b) exactly the k-th objective, none when k == 0 */
    __CPROVER_assert(need_i == (i == k - 1), "single: objective i is needed iff it is the k-th");
    __CPROVER_assert(!(need_i && need_j) || i == j, "single: at most one objective is needed");
    __CPROVER_assert(kept == ((1 <= k && k <= n) ? 1 : 0), "single: kept count is 1 iff the k-th objective exists");
    if (1 <= k && k <= n) __CPROVER_assert(NeedObj(k - 1), "single: the k-th objective is needed");
    if (k == 0) __CPROVER_assert(kept == 0 && !need_i, "objno 0: no objective");
  }
  /* (c) index safety of builder_.obj(index) */
  if (need_i) {
    int idx = resulting_obj_index(i);
    __CPROVER_assert(0 <= idx && idx < kept, "kept objective index is inside the allocated objectives");
  }
  /* (d) echo: once the header has been handled, objno_used() is k if an objective was added and 0 otherwise */
  bool added = nondet_bool();
  obj_added_ = 0;
  if (added) solver_notify_obj_added();
  __CPROVER_assert(solver_objno_used() == (added ? k : 0), "objno_used echoes the objective used");
  VP_REACH("end");
}
''']
    return Harness('C12.lemma.selection', 'C12', parts, replace=names,
                   inputs=['vp_in_objno', 'vp_in_multiobj', 'vp_in_n', 'vp_in_i'], replay=replay,
                   note='lemma over the contracts of the eight functions (no bodies): clauses (a)-(d) of the statement')


_drv = [None]


def replay(lead, inputs, obs):
    import subprocess
    from vp import native
    if 'vp_in_objno' not in inputs:
        return False, 'no concrete option state in the verifier trace', ''
    if _drv[0] is None:
        _drv[0] = native.build_driver('c12_replay.cc', 'c12_replay', native.MP_SOURCES, ['-O0'])[0]
    n = inputs.get('vp_in_n', '1')

    def norm(v):
        return str(v).replace('TRUE', '1').replace('FALSE', '0')
    tried = []
    first = (norm(inputs['vp_in_objno']), norm(inputs.get('vp_in_multiobj', '0')), str(min(max(int(n), 0), 40)))
    # the verifier's state first, then its neighbourhood (the failed obligation may not depend on every input)
    cands = [first] + [(str(o), str(m), str(k)) for k in (0, 1, 3) for m in (0, 1) for o in (-1, 0, 1, 2, 3, 4)]
    out = ''
    for c in cands:
        args = [_drv[0]] + list(c)
        p = subprocess.run(args, capture_output=True, text=True)
        tried.append(' '.join(args))
        if p.returncode == 1:
            return True, (p.stdout + p.stderr)[-2000:], ' '.join(args)
        out = (p.stdout + p.stderr)[-500:]
    # second driver: what is delivered (sense, linear and nonlinear part) for six selections over a two-objective model
    try:
        drv2 = native.build_driver('c12_delivery_replay.cc', 'c12_delivery_replay', native.MP_SOURCES, ['-O0', '-DNDEBUG'])[0]
        p = subprocess.run([drv2], capture_output=True, text=True, timeout=300)
        if p.returncode == 1:
            return True, (p.stdout + p.stderr)[-2000:], drv2
    except RuntimeError as e:
        out += ' | c12_delivery_replay does not build: ' + str(e)[-300:]
    return False, 'not reproduced by %d native runs (verifier state and neighbourhood); last: %s' % (len(tried), out), tried[0]


def harnesses(tier, seed):
    hs = [fn_harness(n) for n in ALL]
    hs += [setobjno_harness(), onheader_harness(), osegment_harness(), gsegment_harness(), lemma_harness(), flatten_objective_harness(), builder_onheader_harness()]
    # the objective number echoed in every .sol file (final and intermediate) is objno_used(): the SolutionAdapter construction of both writers
    from specs import C10
    hs += [C10.passthrough_writer(0, 'HandleFeasibleSolution', prop='C12'), C10.passthrough_writer(1, 'HandleSolution', prop='C12')]
    return hs
