"""C05 (continued) - the SOL writer mp::WriteSolFile, internal::WriteSuffixes (one suffix), SuffixValueWriter::Visit,
SuffixValueCounter::Visit and BasicSuffix<T>::VisitValues (include/mp/sol.h, include/mp/suffix.h).

Every `file.print("<format>", args...)` of the real code is translated mechanically (rule R22, this file) into the token
sequence the fmt format string denotes: VP_LIT("text"), VP_NL(), VP_INT(e), VP_REAL16(e) ({:.16}), VP_ANY(e) ({} of a template
type), VP_STR(e).  The tokens of one output line are collected and handed to a ghost acceptor that is the grammar of the text .sol
format as the library's own reader (nl-writer2 sol-reader2.hpp, SOLReader2::ReadSOLFile, text branch) parses it:

   message (WriteMessage, C05.WriteMessage)  "Options"  <count 3..9, +2 in the vbtol form>  <count options>  [vbtol]
   <ncons> <nduals> <nvars> <nprimals>   nduals reals   nprimals reals   "objno <objno-1> <solve code>"
   per suffix: "suffix <kind&mask> <n> <namelen+1> <tablen> <tablines>"  <name>  [<table>]  n lines "<index> <value>"

Each expectation is asserted and then assumed, so that a path reports its first deviation only.
"""
import re

from vp import extract
from vp.extract import Fn
from vp.run import Harness

SOLH = 'include/mp/sol.h'
SUFH = 'include/mp/suffix.h'


def parse_format(fmt, nargs, where):
    """fmt format string -> list of ('lit', text) | ('nl',) | ('arg', index, spec)"""
    out, i, auto, lit = [], 0, 0, ''

    def flush():
        nonlocal lit
        if lit:
            out.append(('lit', lit))
            lit = ''
    while i < len(fmt):
        c = fmt[i]
        if c == '\\':
            e = fmt[i + 1]
            if e == 'n':
                flush()
                out.append(('nl',))
            else:
                raise extract.ExtractionError('R22: escape \\%s in format %r (%s)' % (e, fmt, where))
            i += 2
            continue
        if c == '{':
            if fmt[i + 1] == '{':
                lit += '{'
                i += 2
                continue
            j = fmt.index('}', i)
            field = fmt[i + 1:j]
            m = re.fullmatch(r'(\d*)(?::(.*))?', field)
            if not m:
                raise extract.ExtractionError('R22: replacement field {%s} (%s)' % (field, where))
            idx = int(m.group(1)) if m.group(1) else auto
            if not m.group(1):
                auto += 1
            spec = m.group(2) or ''
            if idx >= nargs:
                raise extract.ExtractionError('R22: format %r uses argument %d of %d (%s)' % (fmt, idx, nargs, where))
            flush()
            out.append(('arg', idx, spec))
            i = j + 1
            continue
        if c == '}':
            if fmt[i + 1:i + 2] == '}':
                lit += '}'
                i += 2
                continue
            raise extract.ExtractionError('R22: stray } in %r (%s)' % (fmt, where))
        lit += c
        i += 1
    flush()
    return out


def translate_prints(body, kinds, where, pattern=r'\b(?:file_?)\.print\('):
    """R22: <obj>.print("fmt", a, b, ...) -> token emits.  `kinds` maps an argument expression (regex) to its token macro."""
    n = 0
    while True:
        m = re.search(pattern, body)
        if not m:
            break
        j = extract.match_close(body, m.end() - 1, '(', ')')
        args = [a.strip() for a in extract.split_top(body[m.end():j], ',')]
        if not (args[0].startswith('"') and args[0].endswith('"')):
            raise extract.ExtractionError('R22: format is not a string literal: %r (%s)' % (args[0], where))
        toks = parse_format(args[0][1:-1], len(args) - 1, where)
        emits = []
        for t in toks:
            if t[0] == 'lit':
                emits.append('VP_LIT("%s");' % t[1])
            elif t[0] == 'nl':
                emits.append('VP_NL();')
            else:
                e, spec = args[1 + t[1]], t[2]
                macro = None
                for pat, mac in kinds:
                    if re.fullmatch(pat, e):
                        macro = mac
                        break
                if macro is None:
                    raise extract.ExtractionError('R22: no token kind known for printed expression %r (%s)' % (e, where))
                mp_ = re.fullmatch(r'\.(\d+)', spec)
                if spec != '' and not mp_:
                    raise extract.ExtractionError('R22: format spec %r (%s)' % (spec, where))
                if mp_ and int(mp_.group(1)) >= 16:      # "{:.16}" (or more digits): a token that carries at least 16 significant digits
                    macro = {'VP_REAL': 'VP_REAL16', 'VP_ANY': 'VP_ANY16'}.get(macro, macro + '_16')
                # a smaller precision stays the plain token: acceptors that need 16 digits reject it
                emits.append('%s(%s);' % (macro, e))
        end = j + 1
        if body[end:end + 1] == ';':
            end += 1
        body = body[:m.start()] + '{ ' + ' '.join(emits) + ' }' + body[end:]
        n += 1
    return body, n


class PrintFn(Fn):
    """Fn whose body additionally goes through R22 before the generic rules"""

    def __init__(self, *a, kinds=(), min_prints=1, **kw):
        super().__init__(*a, **kw)
        self.kinds = list(kinds)
        self.min_prints = min_prints
        self.subst = self.subst + [(r'.*', self._r22, -1)]      # last "substitution": the whole body through R22 (before the generic rules)

    def _r22(self, m):
        if not m.group(0):
            return ''
        body, n = translate_prints(m.group(0), self.kinds, self.cname())
        self._nprints = getattr(self, '_nprints', 0) + n
        return body

    def render(self):
        self._nprints = 0
        text = super().render()
        if self._nprints < self.min_prints:
            raise extract.ExtractionError('%s: R22 translated %d print calls, spec expects at least %d' % (self.cname(), self._nprints, self.min_prints))
        self.info['rules_fired']['R22'] = self._nprints
        return text


PRE = '''
#include "mp_shim.h"
int vp_one;
#define EXPECT(c, msg) do { __CPROVER_assert(c, msg); __CPROVER_assume(c); } while (0)
/* ---------- the solution being written (arbitrary but fixed) ---------- */
int g_nopt, g_nvalues, g_nduals, g_nvars, g_ncons, g_objno, g_status;
long g_opt1;                       /* second option: 3 = "vbtol follows" */
int g_w; long g_optw; double g_dualw, g_valuew;     /* arbitrary witness index and the option / dual / primal value stored there */
static int sol_num_options(void) { return g_nopt; }
static long sol_option(int i) { __CPROVER_assert(0 <= i && i < g_nopt, "option index inside the options array"); return i == 1 ? g_opt1 : (i == g_w ? g_optw : nondet_long()); }
static int sol_num_values(void) { return g_nvalues; }
static int sol_num_dual_values(void) { return g_nduals; }
static int sol_num_vars(void) { return g_nvars; }
static int sol_num_algebraic_cons(void) { return g_ncons; }
static double sol_value(int i) { __CPROVER_assert(0 <= i && i < g_nvalues, "value index inside the primal vector"); return i == g_w ? g_valuew : nondet_double(); }
static double sol_dual_value(int i) { __CPROVER_assert(0 <= i && i < g_nduals, "value index inside the dual vector"); return i == g_w ? g_dualw : nondet_double(); }
static int sol_objno(void) { return g_objno; }
static int sol_status(void) { return g_status; }
static const char *sol_message(void) { return "m"; }
/* ---------- one output line = up to 10 tokens ---------- */
enum { T_LIT, T_INT, T_REAL16, T_REAL, T_STR };
enum { L_OPTIONS = 1, L_OBJNO, L_SP, L_SUFFIX };           /* literal runs of the format */
struct tok { int kind; long i; double r; int lit; const char *s; };
struct tok g_line[10]; int g_ntok;
static int vp_lit_id(const char *s) {
  if (s[0] == 'O' && s[1] == 'p' && s[2] == 't' && s[3] == 'i' && s[4] == 'o' && s[5] == 'n' && s[6] == 's' && s[7] == 0) return L_OPTIONS;
  if (s[0] == 'o' && s[1] == 'b' && s[2] == 'j' && s[3] == 'n' && s[4] == 'o' && s[5] == ' ' && s[6] == 0) return L_OBJNO;
  if (s[0] == 's' && s[1] == 'u' && s[2] == 'f' && s[3] == 'f' && s[4] == 'i' && s[5] == 'x' && s[6] == ' ' && s[7] == 0) return L_SUFFIX;
  if (s[0] == ' ' && s[1] == 0) return L_SP;
  return 0; }
static void vp_push(int kind, long i, double r, int lit, const char *s) {
  EXPECT(g_ntok < 10, "an output line has at most 10 tokens");
  g_line[g_ntok].kind = kind; g_line[g_ntok].i = i; g_line[g_ntok].r = r; g_line[g_ntok].lit = lit; g_line[g_ntok].s = s; g_ntok++; }
#define VP_LIT(s) vp_push(T_LIT, 0, 0, vp_lit_id(s), 0)
#define VP_INT(e) vp_push(T_INT, (long)(e), 0, 0, 0)
#define VP_REAL16(e) vp_push(T_REAL16, 0, (e), 0, 0)
#define VP_REAL(e) vp_push(T_REAL, 0, (e), 0, 0)
#define VP_STR(e) vp_push(T_STR, 0, 0, 0, (e))
static void vp_line(void);
#define VP_NL() do { vp_line(); g_ntok = 0; } while (0)
#define IS_INT(k, v) (g_line[k].kind == T_INT && g_line[k].i == (long)(v))
#define IS_LIT(k, id) (g_line[k].kind == T_LIT && g_line[k].lit == (id))
'''

# ---------------------------------------------------------------- WriteSolFile
MAIN_ACCEPTOR = '''
enum { S_MSG, S_OPTIONS_KW, S_NOPT, S_OPT, S_VBTOL, S_COUNTS, S_DUALS, S_PRIMALS, S_OBJNO, S_SUFFIXES, S_DONE };
int g_sec, g_idx, g_nsuf_calls;
#define VBTOL_FORM (g_nopt >= 2 && g_opt1 == 3)
#define COUNT_TO_WRITE ((long)g_nopt + (VBTOL_FORM ? 2 : 0))
static void vp_line(void) {
  switch (g_sec) {
  case S_OPTIONS_KW:
    EXPECT(g_ntok == 1 && IS_LIT(0, L_OPTIONS), "after the message the line 'Options' is written");
    /* grammar of the reader: the Options line is followed by a count in 3..9 (count + 2 in the vbtol form), the options, [vbtol] */
    EXPECT(3 <= COUNT_TO_WRITE && COUNT_TO_WRITE <= 9,
           "the number of options to be written is one the .sol format can carry: the reader accepts a count between 3 and 9 only");
    g_sec = S_NOPT; break;
  case S_NOPT:
    EXPECT(g_ntok == 1 && g_line[0].kind == T_INT, "the line after 'Options' is one integer: the option count");
    EXPECT(VBTOL_FORM ? g_line[0].i == COUNT_TO_WRITE : 1, "in the vbtol form (second option is 3) the count written is the number of options + 2, as the reader subtracts 2");
    EXPECT(VBTOL_FORM || g_line[0].i == g_nopt, "the count written is the number of options");
    g_sec = S_OPT; g_idx = 0;
    if (g_nopt == 0) g_sec = S_COUNTS;
    break;
  case S_OPT:
    EXPECT(g_ntok == 1 && g_line[0].kind == T_INT, "an option is written as one integer line");
    EXPECT(g_idx < g_nopt, "not more option lines than announced");
    if (g_idx == 1) EXPECT(g_line[0].i == g_opt1, "options are written in order (second option)");
    if (g_idx == g_w) EXPECT(g_line[0].i == (g_w == 1 ? g_opt1 : g_optw), "options are written in order with their values");
    g_idx++;
    if (g_idx == g_nopt) { g_sec = VBTOL_FORM ? S_VBTOL : S_COUNTS; g_idx = 0; }
    break;
  case S_VBTOL:
    EXPECT(g_ntok == 1 && (g_line[0].kind == T_REAL16 || g_line[0].kind == T_REAL), "in the vbtol form a line with the vbtol value follows the options");
    g_sec = S_COUNTS; g_idx = 0; break;
  case S_COUNTS:
    EXPECT(g_ntok == 1 && g_line[0].kind == T_INT, "each of the four counts is one integer line");
    EXPECT(g_line[0].i == (g_idx == 0 ? g_ncons : g_idx == 1 ? g_nduals : g_idx == 2 ? g_nvars : g_nvalues),
           "the counts block is: constraints, dual values, variables, primal values - in this order");
    g_idx++;
    if (g_idx == 4) { g_idx = 0; g_sec = g_nduals > 0 ? S_DUALS : (g_nvalues > 0 ? S_PRIMALS : S_OBJNO); }
    break;
  case S_DUALS:
    EXPECT(g_ntok == 1 && g_line[0].kind == T_REAL16, "a dual value is one line with 16 significant digits");
    if (g_idx == g_w) EXPECT(g_line[0].r == g_dualw || (g_dualw != g_dualw && g_line[0].r != g_line[0].r), "dual values are written in order: line k carries dual value k");
    g_idx++;
    if (g_idx == g_nduals) { g_idx = 0; g_sec = g_nvalues > 0 ? S_PRIMALS : S_OBJNO; }
    break;
  case S_PRIMALS:
    EXPECT(g_ntok == 1 && g_line[0].kind == T_REAL16, "a primal value is one line with 16 significant digits");
    if (g_idx == g_w) EXPECT(g_line[0].r == g_valuew || (g_valuew != g_valuew && g_line[0].r != g_line[0].r), "primal values are written in order: line k carries value k");
    g_idx++;
    if (g_idx == g_nvalues) { g_idx = 0; g_sec = S_OBJNO; }
    break;
  case S_OBJNO:
    EXPECT(g_ntok == 4 && IS_LIT(0, L_OBJNO) && g_line[1].kind == T_INT && IS_LIT(2, L_SP) && g_line[3].kind == T_INT, "the line 'objno <n> <code>' follows the vectors");
    EXPECT(g_line[1].i == (long)g_objno - 1, "the objective number is written 0-based (objno - 1)");
    EXPECT(g_line[3].i == g_status, "the solve-result code written is the solution's status");
    g_sec = S_SUFFIXES; break;
  default:
    EXPECT(0, "no line is written in this section of the file");
  }
}
/* WriteMessage: contract proved by C05.WriteMessage (message, then the empty terminator line) */
static void WriteMessage(int file, const char *m) { EXPECT(g_sec == S_MSG && g_ntok == 0, "the message is written first"); g_sec = S_OPTIONS_KW; }
/* internal::WriteSuffixes(file, set): checked per suffix by C05.WriteSuffixes.* */
static void WriteSuffixes(int file, int kind) {
  EXPECT(g_sec == S_SUFFIXES && g_ntok == 0, "suffixes are written after the objno line");
  EXPECT(kind == g_nsuf_calls, "suffix sets are written in the order variables, constraints, objectives, problem");
  g_nsuf_calls++; }
static int sol_suffixes(int kind) { return kind; }
'''

MAIN_KINDS = [(r'num_options', 'VP_INT'), (r'sol_option\(i\)', 'VP_INT'), (r'num_constraints|num_dual_values|num_vars|num_values', 'VP_INT'),
              (r'sol_dual_value\(i\)|sol_value\(i\)', 'VP_REAL'), (r'sol_objno\(\)\s*-\s*1|sol_objno\(\)|sol_status\(\)', 'VP_INT'),
              (r'[\w\s+\-*()]*', 'VP_INT')]     # any other arithmetic over the integer accessors

MAIN_INV = 'g_ntok == 0 && g_nopt == __CPROVER_loop_entry(g_nopt)'


def main_fn():
    return PrintFn(SOLH, r'void WriteSolFile\(fmt::CStringRef filename, const Solution &sol\)', 'void WriteSolFile(void)',
                   contract='__CPROVER_requires(g_sec == S_MSG && g_ntok == 0 && g_nopt >= 0 && g_nvalues >= 0 && g_nduals >= 0 && g_nsuf_calls == 0 && '
                            'g_objno > INT_MIN) '
                            '__CPROVER_ensures(g_sec == S_SUFFIXES && g_ntok == 0 && g_nsuf_calls == 4) '
                            '__CPROVER_assigns(g_sec, g_idx, g_ntok, g_nsuf_calls, __CPROVER_object_whole(g_line))',
                   subst=[(r'fmt::BufferedFile file\(filename, "wb"\);', 'int file = 0;', 1), (r'\bsol\.', 'sol_', -1), (r'internal::Write', 'Write', -1),
                          (r'suf::Kind kinds\[\]', 'int kinds[]', 1)],
                   kinds=MAIN_KINDS, min_prints=6,
                   loops={0: '__CPROVER_assigns(i, g_sec, g_idx, g_ntok, __CPROVER_object_whole(g_line)) '
                             '__CPROVER_loop_invariant(0 <= i && i <= num_options && g_ntok == 0 && num_options == g_nopt && g_nopt >= 1 && '
                             '((i < num_options && g_sec == S_OPT && g_idx == i) || (i == num_options && g_idx == 0 && g_sec == (VBTOL_FORM ? S_VBTOL : S_COUNTS)))) '
                             '__CPROVER_decreases(num_options - i)',
                          1: '__CPROVER_assigns(i, g_sec, g_idx, g_ntok, __CPROVER_object_whole(g_line)) '
                             '__CPROVER_loop_invariant(0 <= i && i <= n && n == g_nduals && g_ntok == 0 && '
                             '((i < n && g_sec == S_DUALS && g_idx == i) || (i == n && g_idx == 0 && g_sec == (n == 0 ? (g_nvalues > 0 ? S_PRIMALS : S_OBJNO) : (g_nvalues > 0 ? S_PRIMALS : S_OBJNO))))) '
                             '__CPROVER_decreases(n - i)',
                          2: '__CPROVER_assigns(i, g_sec, g_idx, g_ntok, __CPROVER_object_whole(g_line)) '
                             '__CPROVER_loop_invariant(0 <= i && i <= num_values && num_values == g_nvalues && g_ntok == 0 && '
                             '((i < num_values && g_sec == S_PRIMALS && g_idx == i) || (i == num_values && g_idx == 0 && g_sec == S_OBJNO))) '
                             '__CPROVER_decreases(num_values - i)',
                          3: '__CPROVER_assigns(i, g_nsuf_calls, g_sec, g_ntok) '
                             '__CPROVER_loop_invariant(i <= n && g_nsuf_calls == (int)i && g_sec == S_SUFFIXES && g_ntok == 0) __CPROVER_decreases(n - i)'},
                   label='mp::WriteSolFile<Solution>', nmatches=1)


def consts():
    from specs.C02_read import const
    C = 'include/mp/common.h'
    return 'enum { SUFFIX_KIND_MASK = %s, suf_FLOAT = %s, suf_IODECL = %s, suf_OUTPUT = %s, suf_VAR = %s, suf_CON = %s, suf_OBJ = %s, suf_PROBLEM = %s };\n' % (
        const(C, r'SUFFIX_KIND_MASK\s*=\s*(\d+)', 'SUFFIX_KIND_MASK'), const(C, r'\bFLOAT\s*=\s*(\d+)', 'suf::FLOAT'),
        const(C, r'\bIODECL\s*=\s*(\d+)', 'suf::IODECL'), const(C, r'\bOUTPUT\s*=\s*(0x[0-9a-fA-F]+|\d+)', 'suf::OUTPUT'),
        const(C, r'namespace suf \{.*?\bVAR\s*=\s*(\d+)', 'suf::VAR'), const(C, r'namespace suf \{.*?\bCON\s*=\s*(\d+)', 'suf::CON'),
        const(C, r'namespace suf \{.*?\bOBJ\s*=\s*(\d+)', 'suf::OBJ'), const(C, r'namespace suf \{.*?\bPROBLEM\s*=\s*(\d+)', 'suf::PROBLEM'))


def h_main():
    parts = [PRE, consts(), MAIN_ACCEPTOR, main_fn(), '''
void harness(void) {
  vp_one = 1;
  g_nopt = nondet_int(); g_nvalues = nondet_int(); g_nduals = nondet_int(); g_nvars = nondet_int(); g_ncons = nondet_int(); g_objno = nondet_int(); g_status = nondet_int();
  g_opt1 = nondet_long(); g_w = nondet_int(); g_optw = nondet_long(); g_dualw = nondet_double(); g_valuew = nondet_double();
  g_sec = S_MSG; g_ntok = 0; g_nsuf_calls = 0; g_idx = 0;
  WriteSolFile();
  VP_REACH("normal return");
}
''']
    return Harness('C05.WriteSolFile', 'C05', parts, enforce='WriteSolFile', loop_contracts=True, expect_loop_obligations=4, timeout=600,
                   stubs=['Solution accessors (arbitrary but fixed solution, witness index for the vectors)', 'WriteMessage (contract proved by C05.WriteMessage)',
                          'WriteSuffixes (per suffix: C05.WriteSuffixes.*)', 'fmt::BufferedFile::print (R22: the format string is expanded into tokens)'],
                   assumptions=['fmt prints "{}" of an integer as its decimal digits and "{:.16}" of a double with 16 significant digits (number formatting itself is not decided)'],
                   replay=replay_writer)


_drv = [None]


def replay_writer(lead, inputs, obs):
    """native round trip: real mp::WriteSolFile -> real mp::ReadSOLFile over a grid of option counts / vbtol form / vector lengths"""
    import os
    import subprocess
    from vp.run import BUILD, VERIF
    from vp import native
    if _drv[0] is None:
        _drv[0] = native.build_driver('c05_roundtrip.cc', 'c05_roundtrip', native.MP_SOURCES + ['nl-writer2/src/nl-utils.cc'], ['-O0'])[0]
    # the two recorded findings (fewer than 3 options, vbtol form) are left out: a new violation must show on the other solutions
    p = subprocess.run([_drv[0], '--skip-known'], capture_output=True, text=True, timeout=300)
    return p.returncode == 10, (p.stdout + p.stderr)[-2500:], _drv[0] + ' --skip-known'


# ---------------------------------------------------------------- WriteSuffixes (one suffix) and the value visitors
SUF_ACCEPTOR = '''
/* the suffix being written (arbitrary but fixed) */
int g_skind; long g_namelen, g_tabsize, g_tabnl; int g_nnz; _Bool g_isreal;
int g_w; long g_wi; double g_wr;            /* witness: the g_w-th non-zero value is (index g_wi, value g_wr) */
static const char g_name[4], g_table[4];
static int suf_kind(void) { return g_skind; }
static const char *suf_name(void) { return g_name; }
static const char *suf_table(void) { return g_table; }
#define strlen(p) ((size_t)g_namelen)                 /* std::strlen(name): the name is g_namelen characters long */
static size_t vp_table_size(void) { return (size_t)g_tabsize; }
static long vp_table_newlines(void) { return g_tabnl; }   /* std::count(table.begin(), table.end(), newline) */
enum { U_HEADER, U_NAME, U_TABLE, U_VALUES, U_DONE };
int g_sec, g_idx, g_written;
static void vp_line(void) {
  switch (g_sec) {
  case U_HEADER:
    EXPECT(g_ntok == 10 && IS_LIT(0, L_SUFFIX) && IS_LIT(2, L_SP) && IS_LIT(4, L_SP) && IS_LIT(6, L_SP) && IS_LIT(8, L_SP) &&
           g_line[1].kind == T_INT && g_line[3].kind == T_INT && g_line[5].kind == T_INT && g_line[7].kind == T_INT && g_line[9].kind == T_INT,
           "a suffix starts with the line 'suffix <kind> <n> <namelen> <tablen> <tablines>'");
    EXPECT(g_line[1].i == (g_skind & (SUFFIX_KIND_MASK | suf_FLOAT | suf_IODECL)), "the kind written is kind & (kind mask | FLOAT | IODECL): item class and value type survive, 0..15");
    EXPECT(g_line[3].i == g_nnz, "the count written is the number of non-zero values, which is the number of value lines that follow");
    EXPECT(g_line[5].i == g_namelen + 1, "namelen counts the name and its terminator");
    EXPECT(g_line[7].i == (g_tabsize ? g_tabsize + 1 : 0), "tablen is 0 without a table, else the table length and its terminator");
    EXPECT(g_line[9].i == (g_tabsize ? g_tabnl + 1 : 0), "tablines is 0 without a table, else the number of lines of the table");
    g_sec = U_NAME; break;
  case U_NAME:
    EXPECT(g_ntok == 1 && g_line[0].kind == T_STR && g_line[0].s == g_name, "the suffix name follows on its own line");
    g_sec = g_tabsize ? U_TABLE : U_VALUES; g_idx = 0; break;
  case U_TABLE:
    EXPECT(g_ntok == 1 && g_line[0].kind == T_STR && g_line[0].s == g_table, "the table follows the name");
    g_sec = U_VALUES; g_idx = 0; break;
  case U_VALUES:
    EXPECT(g_ntok == 3 && g_line[0].kind == T_INT && IS_LIT(1, L_SP) && (g_isreal ? g_line[2].kind == T_REAL16 : g_line[2].kind == T_INT),
           "a value line is '<index> <value>'; a real value is written with 16 significant digits");
    EXPECT(g_idx < g_nnz, "not more value lines than announced");
    if (g_idx == g_w) { EXPECT(g_line[0].i == g_wi, "value lines carry the item index of the value");
      if (g_isreal) EXPECT(g_line[2].r == g_wr, "value lines carry the value"); else EXPECT(g_line[2].i == (long)g_wr, "value lines carry the value"); }
    g_idx++; break;
  default: EXPECT(0, "no line is written here");
  }
}
/* Suffix::VisitValues(visitor): calls visitor.Visit(i, value) for the non-zero values in index order (C05.VisitValues.* prove this for the
   real BasicSuffix<T>::VisitValues); here: g_nnz visits, the g_w-th being (g_wi, g_wr) */
static void VisitValues_counter(int *counter) { *counter = g_nnz; }        /* SuffixValueCounter::Visit: ++num_values_ per visit (C05.SuffixValueCounter) */
'''

SUF_KINDS = [(r'i->kind\(\) & mask', 'VP_INT'), (r'num_values|tablen|tabNlines', 'VP_INT'), (r'strlen\(name\) \+ 1', 'VP_INT'), (r'name|table', 'VP_STR'),
             (r'index', 'VP_INT'), (r'value', 'VP_VALUE')]


def suffix_block_fn():
    return PrintFn(SOLH, r'if \(\(i->kind\(\) & suf::OUTPUT\) == 0\)\s*continue;', 'void WriteOneSuffix(void)', block_end=r'i->VisitValues\(writer\);',
                   contract='__CPROVER_requires(g_sec == U_HEADER && g_ntok == 0 && g_nnz >= 0 && g_namelen >= 1 && g_namelen < (1 << 20) && g_tabsize >= 0 && g_tabsize < (1 << 24) && '
                            'g_tabnl >= 0 && g_tabnl <= g_tabsize && g_written == 0) '
                            '__CPROVER_ensures((g_skind & suf_OUTPUT) == 0 ? (g_sec == U_HEADER && g_written == 0) : (g_sec == U_VALUES && g_written == 1)) '
                            '__CPROVER_ensures(g_ntok == 0) '
                            '__CPROVER_assigns(g_sec, g_idx, g_ntok, g_written, __CPROVER_object_whole(g_line))',
                   subst=[(r'continue;', 'return;', 1), (r'SuffixValueCounter counter;', 'int counter = 0;', 1), (r'i->VisitValues\(counter\)', 'VisitValues_counter(&counter)', 1),
                          (r'counter\.num_values\(\)', 'counter', 1), (r'i->name\(\)', 'suf_name()', 1), (r'const auto& table = i->table\(\);', 'const char *table = suf_table();', 1),
                          (r'table\.size\(\)', 'vp_table_size()', -1), (r'table\.empty\(\)', '(vp_table_size() == 0)', 1),
                          (r'std::count\(table\.begin\(\), table\.end\(\), \'\\n\'\)', 'vp_table_newlines()', 1),
                          (r'i->kind\(\)', 'suf_kind()', -1), (r'SuffixValueWriter writer\(file\);', '', 1), (r'i->VisitValues\(writer\)', 'VisitValues_writer()', 1),
                          (r'internal::SUFFIX_KIND_MASK', 'SUFFIX_KIND_MASK', 1)],
                   kinds=[(r'suf_kind\(\) & mask', 'VP_INT'), (r'num_values|tablen|tabNlines', 'VP_INT'), (r'name|table', 'VP_STR'), (r'[\w\s:+\-*()]*', 'VP_INT')],
                   min_prints=2, label='mp::internal::WriteSuffixes [body of the loop over the suffixes of one kind]')


def h_suffix_block():
    parts = [PRE, consts(), SUF_ACCEPTOR, '''
static void VisitValues_writer(void) { EXPECT(g_sec == U_VALUES && g_idx == 0 && g_ntok == 0, "the value lines follow the header, the name and the table"); g_written++; g_idx = g_nnz; }
''', suffix_block_fn(), '''
void harness(void) {
  vp_one = 1;
  g_skind = nondet_int(); g_namelen = nondet_long(); g_tabsize = nondet_long(); g_tabnl = nondet_long(); g_nnz = nondet_int(); g_isreal = nondet_bool();
  g_sec = U_HEADER; g_ntok = 0; g_idx = 0; g_written = 0;
  WriteOneSuffix();
  VP_REACH("normal return");
}
''']
    return Harness('C05.WriteSuffixes.block', 'C05', parts, enforce='WriteOneSuffix', timeout=300, replay=replay_writer,
                   stubs=['Suffix accessors kind()/name()/table() (arbitrary but fixed suffix)', 'Suffix::VisitValues (visits the non-zero values in order: C05.VisitValues.*)',
                          'std::strlen / std::string::size / std::count on the name and the table (ghost lengths)'],
                   assumptions=['the iteration over the suffix set (SuffixMap iterator) is not modelled: every suffix is written by this same block'],
                   note='block extracted from the loop body of internal::WriteSuffixes; `continue` becomes `return`')


def h_value_writer(real):
    T = 'double' if real else 'int'
    anchor = r'void Visit\(int index, double value\)' if real else r'void Visit\(int index, T value\) \{ file_\.print'
    parts = [PRE, consts(), SUF_ACCEPTOR, '#define VP_VALUE(e) %s\n#define VP_VALUE_16(e) VP_REAL16(e)\n' % ('VP_REAL(e)' if real else 'VP_INT(e)'),
             PrintFn(SOLH, anchor, 'void SuffixValueWriter_Visit(int index, %s value)' % T,
                     contract='__CPROVER_requires(g_sec == U_VALUES && g_ntok == 0 && g_idx >= 0 && g_idx < g_nnz && g_idx == g_w && g_wi == index && g_wr == value && g_isreal == %d) '
                              '__CPROVER_ensures(g_sec == U_VALUES && g_ntok == 0 && g_idx == __CPROVER_old(g_idx) + 1) '
                              '__CPROVER_assigns(g_idx, g_ntok, __CPROVER_object_whole(g_line))' % (1 if real else 0),
                     kinds=[(r'index', 'VP_INT'), (r'value', 'VP_VALUE')], min_prints=1,
                     label='mp::internal::SuffixValueWriter::Visit(int, %s)' % ('double' if real else 'T'), inst='T=%s' % T, nmatches=1), '''
void harness(void) {
  vp_one = 1; g_nnz = nondet_int(); g_isreal = nondet_bool(); g_idx = nondet_int(); g_w = nondet_int(); g_wi = nondet_int(); %s v = %s; g_wr = v;
  g_sec = U_VALUES; g_ntok = 0;
  SuffixValueWriter_Visit((int)g_wi, v);
  VP_REACH("normal return");
}
''' % (T, 'nondet_double()' if real else 'nondet_int()')]
    return Harness('C05.SuffixValueWriter.Visit.' + T, 'C05', parts, enforce='SuffixValueWriter_Visit', timeout=300, replay=replay_writer,
                   stubs=['fmt::BufferedFile::print (R22)'], note='one value line: "<index> <value>", a real value with {:.16}')


VISIT = '''
#include "mp_shim.h"
int vp_one;
int g_n; int g_w; %(T)s g_vw;            /* arbitrary witness index and the value stored there */
static int num_values(void) { return g_n; }
static %(T)s suf_value(int i) { __CPROVER_assert(0 <= i && i < g_n, "value index inside the suffix"); return i == g_w ? g_vw : %(nondet)s(); }
int g_last, g_visits; _Bool g_seen_w;
static void v_Visit(int i, %(T)s val) {
  __CPROVER_assert(i > g_last && i < g_n, "values are visited in increasing index order, inside the suffix");
  __CPROVER_assert(val != 0, "only non-zero values are visited");
  if (i == g_w) { __CPROVER_assert(val == g_vw || (val != val && g_vw != g_vw), "the value visited is the stored value"); g_seen_w = 1; }
  g_last = i; g_visits++; }
'''


def h_visit_values(T):
    parts = [VISIT % dict(T=T, nondet='nondet_' + T),
             Fn(SUFH, r'void VisitValues\(Visitor &v\) const \{\s*for \(int i = 0, n = num_values\(\)', 'void VisitValues(void)',
                contract='__CPROVER_requires(g_last == -1 && g_visits == 0 && !g_seen_w && g_n >= 0) '
                         '__CPROVER_ensures((0 <= g_w && g_w < g_n && g_vw != 0) ==> g_seen_w) __CPROVER_ensures(g_visits <= g_n) '
                         '__CPROVER_assigns(g_last, g_visits, g_seen_w)',
                subst=[(r'this->value\(', 'suf_value(', 1), (r'\bT value\b', '%s value' % T, 1), (r'\bv\.Visit\(', 'v_Visit(', 1)],
                loops={0: '__CPROVER_assigns(i, g_last, g_visits, g_seen_w) __CPROVER_loop_invariant(0 <= i && i <= n && n == g_n && g_last < i && g_visits <= i && '
                          '((0 <= g_w && g_w < i && g_vw != 0) ==> g_seen_w)) __CPROVER_decreases(n - i)'},
                label='mp::BasicSuffix<T>::VisitValues', inst='T=%s' % T, nmatches=1), '''
void harness(void) { vp_one = 1; g_n = nondet_int(); g_w = nondet_int(); g_vw = %s(); g_last = -1; g_visits = 0; g_seen_w = 0; VisitValues(); VP_REACH("normal return"); }
''' % ('nondet_' + T)]
    return Harness('C05.VisitValues.' + T, 'C05', parts, enforce='VisitValues', loop_contracts=True, expect_loop_obligations=1, timeout=300,
                   stubs=['Visitor::Visit (asserts order, non-zero, value)', 'BasicSuffix::value / num_values (arbitrary but fixed array via a witness index)'],
                   note='every non-zero value is visited exactly in index order: the count (SuffixValueCounter) and the lines (SuffixValueWriter) agree')


def h_counter():
    parts = ['#include "mp_shim.h"\nint vp_one;\nint num_values_;\n',
             Fn(SOLH, r'void Visit\(int, T\) \{ \+\+num_values_; \}', 'void SuffixValueCounter_Visit(int vp_i, double vp_v)',
                contract='__CPROVER_requires(num_values_ < INT_MAX) __CPROVER_ensures(num_values_ == __CPROVER_old(num_values_) + 1) __CPROVER_assigns(num_values_)',
                label='mp::internal::SuffixValueCounter::Visit', nmatches=1),
             'void harness(void) { vp_one = 1; num_values_ = nondet_int(); SuffixValueCounter_Visit(nondet_int(), nondet_double()); VP_REACH("normal return"); }\n']
    return Harness('C05.SuffixValueCounter.Visit', 'C05', parts, enforce='SuffixValueCounter_Visit')


WRITABLE_HEADER = ('(0 <= sr->h.kind && sr->h.kind <= 15 && sr->h.n >= 0 && 2 <= sr->h.namelen && sr->h.namelen <= (1 << 20) && 0 <= sr->h.tablen && sr->h.tablen <= (1 << 24) && '
                   '(sr->h.tablen == 0 || (1 <= sr->tablines && sr->tablines <= sr->h.tablen + 1)))')


def h_sufhead_accepts():
    """the reader accepts every suffix header the writer can produce (the converse of C14.sufheadcheck, which proves that an
    accepted header is valid): kind & mask in 0..15, any count, a name of 1 .. 2^20 - 1 characters (namelen counts the NUL), a table of up
    to 2^24 bytes whose line count is consistent with its length"""
    from specs import C14
    fn = Fn(C14.HPP, r'int SOLReader2<SOLHandler>::sufheadcheck\(SufRead\* sr\)', 'int sufheadcheck(SufRead *sr)',
            contract='__CPROVER_requires(__CPROVER_w_ok(sr, sizeof(*sr))) '
                     '__CPROVER_ensures(%s ==> __CPROVER_return_value == 0) '   # the header fields are outside the assigns clause: their values are the entry values
                    
                     '__CPROVER_assigns(i, sr->name, sr->table, sr->tabname, sr->xp_data, sr->xp_size, g_big_hi, __CPROVER_object_whole(g_big))' % WRITABLE_HEADER,
            subst=C14.XP_SUBST, label='mp::SOLReader2::sufheadcheck', nmatches=1)
    parts = [C14.PRE, C14.ENUM] + C14.structs() + [fn, '''
void harness(void) { VP_INIT; vp_mkpool(); SufRead SR;
  SR.h.kind = nondet_int(); SR.h.n = nondet_int(); SR.h.namelen = nondet_int(); SR.h.tablen = nondet_int(); SR.tablines = nondet_int();
  sufheadcheck(&SR); VP_REACH("normal return"); }
''']
    return Harness('C05.reader.sufheadcheck.accepts', 'C05', parts, enforce='sufheadcheck', stubs=['std::vector<char>::resize (zero-filled block)'],
                   replay=replay_writer, note='bounds of the lemma: name up to 2^20 - 1 characters, table up to 2^24 bytes')


def h_options_count_accepts(binary):
    """the reader accepts every option count the writer can write (3..9), text and binary branch of SOLReader2::ReadSOLFile"""
    from specs import C14
    fn = Fn(C14.HPP, r'nOpts = Options\[0\];', 'void vp_check_option_count(void)', ordinal=0 if binary else 1,
            block_end=r'\)\s*(?=\{\s*bad_nOpts:)' if binary else r'goto bad_nOpts;',
            post='VP_REJECT;' if binary else '', subst=[] if binary else [(r'goto bad_nOpts;', 'VP_REJECT;', 1)],
            contract='__CPROVER_requires(g_rejected == 0) '
                     '__CPROVER_ensures((3 <= Options[0] && Options[0] <= 9) ==> !g_rejected) '
                     '__CPROVER_ensures((Options[0] < 3 || Options[0] > 9) ==> g_rejected) '
                     '__CPROVER_ensures(nOpts == Options[0]) __CPROVER_assigns(nOpts, g_rejected)',
            label='mp::SOLReader2::ReadSOLFile [option count check, %s branch]' % ('binary' if binary else 'text'))
    parts = ['#include "mp_shim.h"\nint vp_one;\ntypedef int Long;\nlong Options[14]; long nOpts; int g_rejected;\n#define VP_REJECT do { g_rejected = 1; } while (0)\n', fn,
             'void harness(void) { vp_one = 1; Options[0] = nondet_long(); g_rejected = 0; vp_check_option_count(); VP_REACH("normal return"); }\n']
    return Harness('C05.reader.option_count.accepts.' + ('binary' if binary else 'text'), 'C05', parts, enforce='vp_check_option_count', replay=replay_writer,
                   note='block of two statements extracted from the options section of the reader')


def h_size_check_accepts(which):
    """the reader accepts the counts the writer writes: 0 <= nprimals <= NumVars, 0 <= nduals <= NumAlgCons (blocks 'Some checks' of ReadSOLFile)"""
    from specs import C14
    zi, fnname = (3, 'NumVars') if which == 'vars' else (1, 'NumAlgCons')
    fn = Fn(C14.HPP, r'j = \(int\)z\[\d\];(?=\s*internal_rv_ = 997;)' if which == 'vars' else r'j = \(int\)z\[\d\];(?=\s*if \(j [<>]=? NumAlgCons)', 'void vp_size_check(void)', block_end=r'return ReportBadFormat\(\);\s*\}',
            subst=[(r'serror\([^;]*\);', '', 1), (r'return ReportBadFormat\(\);', '{ VP_REJECT; return; }', 1)],
            contract='__CPROVER_requires(g_rejected == 0 && g_n >= 0) '
                     '__CPROVER_ensures((0 <= z[%d] && z[%d] <= g_n) ==> !g_rejected) '
                     '__CPROVER_ensures((z[%d] < 0 || z[%d] > g_n) && z[%d] >= INT_MIN && z[%d] <= INT_MAX ==> g_rejected) '
                     '__CPROVER_assigns(j, internal_rv_, g_rejected)' % (zi, zi, zi, zi, zi, zi),
            label='mp::SOLReader2::ReadSOLFile [%s count check]' % fnname)
    parts = ['#include "mp_shim.h"\nint vp_one;\nlong z[4]; int j, internal_rv_, g_rejected, g_n;\nstatic int %s(void) { return g_n; }\n'
             '#define VP_REJECT do { g_rejected = 1; } while (0)\n' % fnname, fn,
             'void harness(void) { vp_one = 1; z[0] = nondet_long(); z[1] = nondet_long(); z[2] = nondet_long(); z[3] = nondet_long(); g_n = nondet_int(); g_rejected = 0; '
             '__CPROVER_assume(z[%d] >= INT_MIN && z[%d] <= INT_MAX); vp_size_check(); VP_REACH("normal return"); }\n' % (zi, zi)]
    return Harness('C05.reader.size_check.accepts.' + which, 'C05', parts, enforce='vp_size_check', replay=replay_writer,
                   note='the counts block holds values read with strtol into int-sized slots (assumed inside int here)')


def h_objno_accepts():
    """the reader accepts the objno line the writer writes: 'objno <int> <int>' (both numbers inside int) and hands on exactly these numbers"""
    from specs import C14
    fn = Fn(C14.HPP, r'x = strtod\(s = buf\s*\+\s*\d+, &se\);', 'void vp_parse_objno(void)', block_end=r'Objno\[1\] = \(Long\)x;',
            subst=[(r'goto bad_objno;', '{ VP_REJECT; return; }', -1), (r'goto f_done;', '{ g_done = 1; return; }', -1)],
            contract='__CPROVER_requires(g_rejected == 0 && g_done == 0 && g_calls == 0) '
                     '__CPROVER_ensures((g_ok1 && g_ok2 && g_v1 >= INT_MIN && g_v1 <= INT_MAX && g_v2 >= INT_MIN && g_v2 <= INT_MAX) ==> '
                     '(!g_rejected && !g_done && objno == (int)g_v1 && Objno[1] == (long)g_v2)) '
                     '__CPROVER_assigns(x, s, se, objno, Objno[1], g_rejected, g_done, g_calls)',
            label='mp::SOLReader2::ReadSOLFile [objno line parse]')
    parts = ['''#include "mp_shim.h"
int vp_one;
typedef long Long;
char buf[512]; char *s, *se; double x; int objno; long Objno[2]; int g_rejected, g_done, g_calls;
_Bool g_ok1, g_ok2; double g_v1, g_v2;         /* what the two strtod calls find: a number was parsed (ok) and its value */
#define VP_REJECT do { g_rejected = 1; } while (0)
static double vp_strtod(char *p, char **end) { g_calls++; _Bool ok = g_calls == 1 ? g_ok1 : g_ok2; double v = g_calls == 1 ? g_v1 : g_v2;
  *end = ok ? p + 1 : p; return ok ? v : 0.0; }
#define strtod vp_strtod
''', fn, 'void harness(void) { vp_one = 1; g_ok1 = nondet_bool(); g_ok2 = nondet_bool(); g_v1 = nondet_double(); g_v2 = nondet_double(); g_rejected = 0; g_done = 0; g_calls = 0; '
            'vp_parse_objno(); VP_REACH("normal return"); }\n']
    return Harness('C05.reader.objno.accepts', 'C05', parts, enforce='vp_parse_objno', replay=replay_writer,
                   stubs=['strtod (arbitrary: parses a number or not; arbitrary value)'])


def h_valueline_accepts():
    """the reader accepts every primal / dual value line the writer writes: the line is the text of a finite double ("{:.16}": digits,
    possibly a point and an exponent, ending in a digit) followed by a newline.  strtod consumes the whole number; the C standard lets it
    report ERANGE for a correctly parsed subnormal (glibc does): the value is still the value written and must be accepted."""
    from specs import C14
    parts = ['''#include "mp_shim.h"
int vp_one;
char g_line[64]; size_t g_len;      /* the number text: g_len >= 1 characters, the last one a digit, then a newline */
double g_value; int vp_errno;
#define errno vp_errno
#ifndef ERANGE
#define ERANGE 34
#endif
/* strtod on a line the writer wrote: consumes exactly the number text, yields its value; errno may be set to ERANGE (underflow) or left alone */
static double vp_strtod(const char *p, char **end) { __CPROVER_assert(p == g_line, "the value line is parsed from its beginning"); *end = (char *)p + g_len;
  if (nondet_bool()) vp_errno = ERANGE; return g_value; }
#define strtod vp_strtod
''',
             Fn(C14.HPP, r'inline int decstring\(const char \*buf, double \*val\)', 'int decstring(const char *buf, double *val)',
                contract='__CPROVER_requires(g_len >= 1 && g_len <= 40 && g_line[g_len - 1] >= \'0\' && g_line[g_len - 1] <= \'9\' && buf == g_line && __CPROVER_w_ok(val, sizeof(double)) && g_value == g_value) '
                         '__CPROVER_ensures(__CPROVER_return_value == 0 && *val == g_value) __CPROVER_assigns(*val, vp_errno)',
                label='mp::decstring', nmatches=1),
             'void harness(void) { vp_one = 1; g_len = nondet_size_t(); g_value = nondet_double(); double v; decstring(g_line, &v); VP_REACH("normal return"); }\n']
    return Harness('C05.reader.valueline.accepts', 'C05', parts, enforce='decstring', replay=replay_writer,
                   stubs=['strtod (consumes the number the writer wrote; may set errno to ERANGE as the C standard allows for subnormal results)'])


def h_suffixvalue_accepts(real):
    """the reader accepts every suffix value line the writer writes ("<index> <value>", SuffixValueWriter::Visit): for an integer suffix EVERY
    int value (INT_MIN and INT_MAX included) is accepted and comes back exactly; for a real suffix the value strtod returns is handed on."""
    from specs import C14
    El = 'double' if real else 'int'
    parts = ['''#include "mp_shim.h"
#include <limits.h>
#include <float.h>
int vp_one;
typedef struct FILE FILE;
''', C14.ENUM, 'typedef enum NLW2_SOLReadResultCode NLW2_SOLReadResultCode;\n', C14.PAIRS, '''
int g_idx; %s g_val; int g_calls;
/* the line holds "<index> <value>" as the writer printed them: strtol finds the index, strtod the value (an int value is exact in a double) */
#define fgets(buf, n, f) (buf)
static long vp_strtol(const char *p, char **end, int base) { *end = (char *)p + 1; return g_idx; }
static double vp_strtod(const char *p, char **end) { *end = (char *)p + 1; return (double)g_val; }
#define strtol vp_strtol
#define strtod vp_strtod
''' % El,
             Fn(C14.HPP, r'inline NLW2_SOLReadResultCode Read\(\s*FILE\* f, int binary,\s*std::pair<int, El>\s*&?\s*v, std::string\s*&?\s*err\)',
                'NLW2_SOLReadResultCode Read_pair(FILE *f, int binary, struct pair_int_%s *v_p, char *err)' % El,
                contract='__CPROVER_requires(!binary && __CPROVER_w_ok(err, 512) && __CPROVER_w_ok(v_p, sizeof(*v_p)) && g_idx >= 0 && g_val == g_val) '
                         '__CPROVER_ensures(__CPROVER_return_value == NLW2_SOLRead_OK && v_p->first == g_idx && v_p->second == g_val) __CPROVER_assigns(*v_p)',
                subst=C14.ERR_SUBST, refs={'v': 'v_p'}, defines={'El': El, 'VP_IS_INTEGER_El': '0' if real else '1',
                       'VP_MIN_El': 'DBL_MIN' if real else 'INT_MIN', 'VP_MAX_El': 'DBL_MAX' if real else 'INT_MAX'},
                label='mp::Read(FILE*,int,std::pair<int,El>&,std::string&)', inst='El=%s' % El, nmatches=1),
             'void harness(void) { vp_one = 1; char err[512]; struct pair_int_%s v; g_idx = nondet_int(); g_val = %s; Read_pair((FILE *)0, 0, &v, err); VP_REACH("normal return"); }\n' % (El, 'nondet_double()' if real else 'nondet_int()')]
    return Harness('C05.reader.suffixvalue.accepts.' + El, 'C05', parts, enforce='Read_pair', replay=replay_writer,
                   stubs=['fgets / strtol / strtod (the line holds the index and the value the writer printed)'])


def h_table_accepts():
    """gsufread reads a table the writer wrote completely: the writer emits the table text T (tablen = |T| + 1, tablines = 1 + number of
    newlines in T) followed by a newline; for every line but the last the reader must offer fgets room for the whole line, and it must
    accept the last line.  The file is a ghost stream of tablines lines whose lengths (with their newline) sum to tablen."""
    from specs import C14
    fn = Fn(C14.HPP, r's = SR\.table;', 'void vp_read_table(void)', block_end=r'return ReportBadLine\(buf\);',
            contract='__CPROVER_requires(g_rejected == 0 && g_i == 1 && g_c == 0 && SR.h.tablen >= 1 && SR.h.tablen <= (1 << 24) && SR.tablines >= 1 && SR.tablines <= SR.h.tablen && '
                     'SR.table == g_table) '
                     '__CPROVER_ensures(!g_rejected) '
                     '__CPROVER_assigns(s, se, L, g_i, g_c, g_last_p, g_last_m, g_rejected, __CPROVER_object_whole(buf))',
            subst=[(r'fgets\(s, ([^;]*?), f\)', r'vp_fgets_line(s, \1)', 1), (r'fgets\(buf, ([^;]*?), f\)', r'vp_fgets_line(buf, \1)', 1),
                   (r'\bstrlen\(', 'vp_strlen_last(', -1), (r'return ReportEarlyEof\(\);', '{ VP_REJECT; return; }', -1), (r'return ReportBadLine\(buf\);', '{ VP_REJECT; return; }', 1)],
            loops={0: '__CPROVER_assigns(i, s, g_i, g_c, g_last_p, g_last_m, g_rejected) '
                      '__CPROVER_loop_invariant(1 <= i && i <= SR.tablines && g_i == i && 0 <= g_c && g_c <= SR.h.tablen && !g_rejected && se == g_table + SR.h.tablen && '
                      '__CPROVER_same_object(s, g_table) && s == g_table + g_c && g_c + (SR.tablines - g_i + 1) <= SR.h.tablen) '
                      '__CPROVER_decreases(SR.tablines - i)'},
            label='mp::SOLReader2::gsufread [table lines]')
    parts = ['''#include "mp_shim.h"
int vp_one;
struct { struct { long tablen; } h; long tablines; char *table; } SR;
char *g_table; char *s, *se; size_t L; char buf[512]; int g_rejected;
#define VP_REJECT do { g_rejected = 1; } while (0)
/* ghost file: tablines lines, each at least its newline long, lengths summing to tablen (what the writer wrote for this header) */
long g_i, g_c; const char *g_last_p; long g_last_m;
static char *vp_fgets_line(char *dst, long n) {
  long m = nondet_long();                                   /* length of the next line of the file, with its newline */
  __CPROVER_assume(1 <= m && m <= (1 << 24) && 0 <= g_c && g_c <= (1 << 24) && 1 <= g_i && g_i <= (1 << 24));
  if (g_i < SR.tablines) __CPROVER_assume(1 <= m && g_c + m + (SR.tablines - g_i) <= SR.h.tablen);
  else __CPROVER_assume(m == SR.h.tablen - g_c && m >= 1 && m <= 510);     /* lemma bound: last table line of at most 509 characters */
  __CPROVER_assert(n - 1 >= m, "the reader offers fgets room for the whole next line of a table the writer wrote");
  g_last_p = dst; g_last_m = m; g_c += m; g_i++;
  if (dst == buf) buf[m - 1] = 10;     /* the line ends in its newline */
  return dst; }
static size_t vp_strlen_last(const char *p) { __CPROVER_assert(p == g_last_p, "strlen of the line just read"); return (size_t)g_last_m; }
''', fn, '''
void harness(void) { vp_one = 1; SR.h.tablen = nondet_long(); SR.tablines = nondet_long(); __CPROVER_assume(SR.h.tablen >= 1 && SR.h.tablen <= (1 << 24));
  g_table = vp_malloc((size_t)SR.h.tablen); SR.table = g_table; g_i = 1; g_c = 0; g_rejected = 0;
  vp_read_table(); VP_REACH("normal return"); }
''']
    return Harness('C05.reader.table.accepts', 'C05', parts, enforce='vp_read_table', loop_contracts=True, expect_loop_obligations=1, replay=replay_writer,
                   stubs=['fgets (ghost stream of the table lines the writer wrote)', 'strlen (length of the line just read)'],
                   note='bound of the lemma: the last table line has at most 509 characters (the reader takes it through a 512-byte line buffer)')


def harnesses():
    return [h_main(), h_table_accepts(), h_options_count_accepts(False), h_options_count_accepts(True), h_size_check_accepts('vars'), h_size_check_accepts('cons'), h_objno_accepts(), h_valueline_accepts(), h_suffixvalue_accepts(False), h_suffixvalue_accepts(True), h_suffix_block(), h_value_writer(False), h_value_writer(True), h_visit_values('int'), h_visit_values('double'), h_counter(), h_sufhead_accepts()]
