"""C06 (continued) - bounds and type of affine / quadratic expressions (include/mp/flat/expr_bounds.h, BoundComputations).

The double products and sums are beyond every installed back end (DESIGN.md 2): they are taken out of the extracted text mechanically and
replaced by call-site obligations that state the interval-arithmetic rule itself:
  * ComputeBoundsAndType(LinTerms): every term c*x contributes exactly once to the lower and once to the upper bound; to the lower bound with
    the LOWER bound of x when c >= 0 and with the UPPER bound when c < 0, and the other way round for the upper bound; the result is INTEGER
    only if every variable is integer and every coefficient integer-valued (witness term, loop contract); an empty sum is [0,0], INTEGER.
  * ComputeBoundsAndType(QuadTerms): the same per term with the product box of ProductBounds(v1, v2) of the term's own two variables.
  * ProductBounds(x, y): for different variables the box is the hull of the four corner products (opaque ghost values), for x*x it is
    [0 or min(l^2,u^2), max(l^2,u^2)] with 0 exactly when the domain contains 0.
  * ComputeBoundsAndType(AlgebraicExpression) and AddBoundsAndType: type INTEGER only when every part is.
Not decided: the arithmetic (that the hull of the corners contains every product, rounding of the sums), NaN from 0 * infinity.
"""
from vp.extract import Fn
from vp.run import Harness

EB = 'include/mp/flat/expr_bounds.h'
PP = 'include/mp/flat/preprocess.h'

PRE = '''
#include "mp_shim.h"
#include <math.h>
int vp_one;
enum { var_CONTINUOUS = 0, var_INTEGER = 1 };
typedef struct { double lb_, ub_; int type_; } PreprocessInfoStd;
enum { VP_lb = 0, VP_ub = 1 };
/* the terms and the model, seen through an arbitrary witness term g_w: its variables, coefficient and the types of its variables are fixed
   ghost values, every other term / variable is arbitrary at each access */
size_t g_n, g_w; int g_wvar, g_wvar2; double g_wcoef; int g_wtype, g_wtype2;
size_t g_cur; int g_cur_var, g_cur_var2; double g_cur_coef;
static int t_var(size_t i) { g_cur = i; g_cur_var = i == g_w ? g_wvar : nondet_int(); return g_cur_var; }
static int t_var2(size_t i) { g_cur_var2 = i == g_w ? g_wvar2 : nondet_int(); return g_cur_var2; }
static double t_coef(size_t i) { g_cur_coef = i == g_w ? g_wcoef : nondet_double(); __CPROVER_assume(g_cur_coef == g_cur_coef); return g_cur_coef; }
static int model_var_type(int v) { int t = nondet_int(); __CPROVER_assume(t == 0 || t == 1); return v == g_wvar ? g_wtype : v == g_wvar2 ? g_wtype2 : t; }
int g_seen_lb, g_seen_ub;
'''
IS_INT = Fn(PP, r'bool is_integer\(Num n\)', '_Bool is_integer(double n)', label='mp::is_integer', nmatches=1)
FRESH = ('g_n <= 1000000 && g_wcoef == g_wcoef && (g_wtype == 0 || g_wtype == 1) && (g_wtype2 == 0 || g_wtype2 == 1) && (g_wvar != g_wvar2 || g_wtype == g_wtype2) && g_seen_lb == 0 && g_seen_ub == 0')
INTW = '(g_wtype == var_INTEGER && VP_ISINT(g_wcoef))'
INTW2 = '(g_wtype == var_INTEGER && g_wtype2 == var_INTEGER && VP_ISINT(g_wcoef))'
HARNESS = '''
void harness(void) { vp_one = 1; g_n = nondet_size_t(); g_w = nondet_size_t(); g_wvar = nondet_int(); g_wvar2 = nondet_int(); g_wcoef = nondet_double(); g_wtype = nondet_int(); g_wtype2 = nondet_int(); g_seen_lb = 0; g_seen_ub = 0;
  %s(); VP_REACH("normal return"); }
'''


def h_lin():
    acc = '''
/* result.lb_ += c * model.<bound>(v)  /  result.ub_ += ...: which bound of which variable enters which side (the product and the sum are not decided) */
static void vp_acc_lb_(double c, int which, int v) {
  __CPROVER_assert(v == g_cur_var && c == g_cur_coef, "the term's own coefficient and variable");
  __CPROVER_assert((c > 0.0 ==> which == VP_lb) && (c < 0.0 ==> which == VP_ub), "lower bound of c*x: c*lb(x) for c > 0, c*ub(x) for c < 0 (either for c = 0)");
  if (g_cur == g_w) g_seen_lb++; }
static void vp_acc_ub_(double c, int which, int v) {
  __CPROVER_assert(v == g_cur_var && c == g_cur_coef, "the term's own coefficient and variable");
  __CPROVER_assert((c > 0.0 ==> which == VP_ub) && (c < 0.0 ==> which == VP_lb), "upper bound of c*x: c*ub(x) for c > 0, c*lb(x) for c < 0 (either for c = 0)");
  if (g_cur == g_w) g_seen_ub++; }
'''
    done = '(g_w >= i && g_w < g_n)'
    parts = [PRE, acc, IS_INT,
             Fn(EB, r'PreprocessInfoStd ComputeBoundsAndType\(const LinTerms& lt\)', 'PreprocessInfoStd Bounds_LinTerms(void)',
                contract='__CPROVER_requires(%s) ' % FRESH +
                         '__CPROVER_ensures(g_w < g_n ==> (g_seen_lb == 1 && g_seen_ub == 1 && (__CPROVER_return_value.type_ == var_INTEGER ==> %s))) ' % INTW +
                         '__CPROVER_ensures(g_n == 0 ==> (__CPROVER_return_value.lb_ == 0.0 && __CPROVER_return_value.ub_ == 0.0 && __CPROVER_return_value.type_ == var_INTEGER)) '
                         '__CPROVER_ensures(__CPROVER_return_value.type_ == var_INTEGER || __CPROVER_return_value.type_ == var_CONTINUOUS) __CPROVER_assigns(g_cur, g_cur_var, g_cur_var2, g_cur_coef, g_seen_lb, g_seen_ub)',
                subst=[(r'auto& model = MP_DISPATCH\(\s*GetModel\(\)\s*\);', '', 1), (r'lt\.size\(\)', 'g_n', 1), (r'lt\.var\(i\)', 't_var(i)', 1), (r'lt\.coef\(i\)', 't_coef(i)', 1),
                       (r'result\.(lb_|ub_) \+= (\w+) \* model\.(lb|ub)\((\w+)\);', r'vp_acc_\1(\2, VP_\3, \4);', 4),
                       (r'model\.var_type\(', 'model_var_type(', 1), (r'var::INTEGER', 'var_INTEGER', -1), (r'var::CONTINUOUS', 'var_CONTINUOUS', -1)],
                loops={0: '__CPROVER_assigns(i, g_cur, g_cur_var, g_cur_var2, g_cur_coef, g_seen_lb, g_seen_ub, result.type_) __CPROVER_loop_invariant(i <= g_n && (result.type_ == var_INTEGER || result.type_ == var_CONTINUOUS) && '
                          '(%s ==> (g_seen_lb == 1 && g_seen_ub == 1 && (result.type_ == var_INTEGER ==> %s))) && (!%s ==> (g_seen_lb == 0 && g_seen_ub == 0)) && '
                          '(i == g_n ==> result.type_ == var_INTEGER)) __CPROVER_decreases(i)' % (done, INTW, done)},
                label='mp::BoundComputations::ComputeBoundsAndType(LinTerms)', nmatches=1), HARNESS % 'Bounds_LinTerms']
    return Harness('C06.ComputeBoundsAndType.LinTerms', 'C06', parts, enforce='Bounds_LinTerms', loop_contracts=True, expect_loop_obligations=1,
                   stubs=['the products c * bound and their sums (taken out: call-site obligations on the operands)', 'model / term accessors (valid entries assumed)'])


def h_quad():
    acc = '''
typedef struct { double first, second; } Pair;
int g_pb_v1, g_pb_v2;
static Pair ProductBounds(int v1, int v2) { g_pb_v1 = v1; g_pb_v2 = v2; Pair p; p.first = nondet_double(); p.second = nondet_double(); return p; }   /* C06.ProductBounds */
enum { VP_first = 0, VP_second = 1 };
static void vp_qacc_lb_(double c, int which) {
  __CPROVER_assert(c == g_cur_coef && g_pb_v1 == g_cur_var && g_pb_v2 == g_cur_var2, "the term's own coefficient and the product box of its own two variables");
  __CPROVER_assert((c > 0.0 ==> which == VP_first) && (c < 0.0 ==> which == VP_second), "lower bound of c*x*y: c*(lower end of the product box) for c > 0, c*(upper end) for c < 0");
  if (g_cur == g_w) g_seen_lb++; }
static void vp_qacc_ub_(double c, int which) {
  __CPROVER_assert(c == g_cur_coef && g_pb_v1 == g_cur_var && g_pb_v2 == g_cur_var2, "the term's own coefficient and the product box of its own two variables");
  __CPROVER_assert((c > 0.0 ==> which == VP_second) && (c < 0.0 ==> which == VP_first), "upper bound of c*x*y: c*(upper end of the product box) for c > 0, c*(lower end) for c < 0");
  if (g_cur == g_w) g_seen_ub++; }
'''
    done = '(g_w >= i && g_w < g_n)'
    parts = [PRE, acc, IS_INT,
             Fn(EB, r'PreprocessInfoStd ComputeBoundsAndType\(const QuadTerms& qt\)', 'PreprocessInfoStd Bounds_QuadTerms(void)',
                contract='__CPROVER_requires(%s) ' % FRESH +
                         '__CPROVER_ensures(g_w < g_n ==> (g_seen_lb == 1 && g_seen_ub == 1 && (__CPROVER_return_value.type_ == var_INTEGER ==> %s))) ' % INTW2 +
                         '__CPROVER_ensures(g_n == 0 ==> (__CPROVER_return_value.lb_ == 0.0 && __CPROVER_return_value.ub_ == 0.0 && __CPROVER_return_value.type_ == var_INTEGER)) '
                         '__CPROVER_assigns(g_cur, g_cur_var, g_cur_var2, g_cur_coef, g_seen_lb, g_seen_ub, g_pb_v1, g_pb_v2)',
                subst=[(r'auto& model = MP_DISPATCH\(\s*GetModel\(\)\s*\);', '', 1), (r'qt\.size\(\)', 'g_n', 1), (r'qt\.var1\(i\)', 't_var(i)', 1), (r'qt\.var2\(i\)', 't_var2(i)', 1),
                       (r'qt\.coef\(i\)', 't_coef(i)', 1),
                       (r'result\.(lb_|ub_) \+= (\w+) \* prodBnd\.(first|second);', r'vp_qacc_\1(\2, VP_\3);', 4),
                       (r'model\.var_type\(', 'model_var_type(', 2), (r'var::INTEGER', 'var_INTEGER', -1), (r'var::CONTINUOUS', 'var_CONTINUOUS', -1)],
                loops={0: '__CPROVER_assigns(i, g_cur, g_cur_var, g_cur_var2, g_cur_coef, g_seen_lb, g_seen_ub, g_pb_v1, g_pb_v2, result.type_) __CPROVER_loop_invariant(i <= g_n && (result.type_ == var_INTEGER || result.type_ == var_CONTINUOUS) && '
                          '(%s ==> (g_seen_lb == 1 && g_seen_ub == 1 && (result.type_ == var_INTEGER ==> %s))) && (!%s ==> (g_seen_lb == 0 && g_seen_ub == 0)) && '
                          '(i == g_n ==> result.type_ == var_INTEGER)) __CPROVER_decreases(i)' % (done, INTW2, done)},
                label='mp::BoundComputations::ComputeBoundsAndType(QuadTerms)', nmatches=1), HARNESS % 'Bounds_QuadTerms']
    return Harness('C06.ComputeBoundsAndType.QuadTerms', 'C06', parts, enforce='Bounds_QuadTerms', loop_contracts=True, expect_loop_obligations=1,
                   stubs=['the products coef * product-box end and their sums (taken out: call-site obligations)', 'ProductBounds (arbitrary box; C06.ProductBounds)'])


def h_product():
    parts = ['''
#include "mp_shim.h"
#include <math.h>
int vp_one;
typedef struct { double first, second; } Pair;
double g_lx, g_ly, g_ux, g_uy; int g_x, g_y;
static double m_lb(int v) { return v == g_x ? g_lx : g_ly; }
static double m_ub(int v) { return v == g_x ? g_ux : g_uy; }
double P_ll, P_lu, P_ul, P_uu, S_l, S_u;     /* the corner products lx*ly, lx*uy, ux*ly, ux*uy and the squares lx*lx, ux*ux as opaque values */
static double vp_min4(const double *p) { double r = p[0]; for (int k = 1; k < 4; ++k) if (p[k] < r) r = p[k]; return r; }
static double vp_max4(const double *p) { double r = p[0]; for (int k = 1; k < 4; ++k) if (r < p[k]) r = p[k]; return r; }
static double min(double a, double b) { return b < a ? b : a; }
static double max(double a, double b) { return a < b ? b : a; }
#define R __CPROVER_return_value
''',
             Fn(EB, r'std::pair<double, double> ProductBounds\(Var x, Var y\) const', 'Pair ProductBounds(int x, int y)',
                contract='__CPROVER_requires(x == g_x && y == g_y && g_lx == g_lx && g_ux == g_ux && g_ly == g_ly && g_uy == g_uy && g_lx <= g_ux && g_ly <= g_uy && (x != y || (g_lx == g_ly && g_ux == g_uy)) && '
                         'P_ll == P_ll && P_lu == P_lu && P_ul == P_ul && P_uu == P_uu && S_l == S_l && S_u == S_u) '
                         '__CPROVER_ensures(x != y ==> (R.first <= P_ll && R.first <= P_lu && R.first <= P_ul && R.first <= P_uu && R.second >= P_ll && R.second >= P_lu && R.second >= P_ul && R.second >= P_uu && '
                         '(R.first == P_ll || R.first == P_lu || R.first == P_ul || R.first == P_uu) && (R.second == P_ll || R.second == P_lu || R.second == P_ul || R.second == P_uu))) '
                         '__CPROVER_ensures(x == y ==> (((g_lx < 0.0 && g_ux > 0.0) ==> R.first == 0.0) && ((g_lx > 0.0 || g_ux < 0.0) ==> R.first == (S_u < S_l ? S_u : S_l)) && '
                         '(R.first == 0.0 || R.first == (S_u < S_l ? S_u : S_l)) && R.second == (S_l < S_u ? S_u : S_l))) __CPROVER_assigns()',
                subst=[(r'const auto& m = MPCD\(GetModel\(\)\);', '', 1), (r'\bm\.(lb|ub)\(', r'm_\1(', 4),
                       (r'std::array<double, 4> pb\{lx\*ly, lx\*uy, ux\*ly, ux\*uy\};', 'double pb[4] = {P_ll, P_lu, P_ul, P_uu};', 1),
                       (r'\*std::min_element\(pb\.begin\(\), pb\.end\(\)\)', 'vp_min4(pb)', 1), (r'\*std::max_element\(pb\.begin\(\), pb\.end\(\)\)', 'vp_max4(pb)', 1),
                       (r'lx\*lx', 'S_l', 2), (r'ux\*ux', 'S_u', 2), (r'return \{', 'return (Pair){', 2)],
                label='mp::BoundComputations::ProductBounds', nmatches=1), '''
void harness(void) { vp_one = 1; g_x = nondet_int(); g_y = nondet_int(); g_lx = nondet_double(); g_ux = nondet_double(); g_ly = nondet_double(); g_uy = nondet_double();
  P_ll = nondet_double(); P_lu = nondet_double(); P_ul = nondet_double(); P_uu = nondet_double(); S_l = nondet_double(); S_u = nondet_double();
  ProductBounds(g_x, g_y); VP_REACH("normal return"); }
''']
    return Harness('C06.ProductBounds', 'C06', parts, enforce='ProductBounds', flags=['--unwind', '5'],
                   stubs=['the four corner products and the two squares as opaque values', 'std::array / min_element / max_element (array + linear scan)'])


def h_add():
    parts = ['#include "mp_shim.h"\nint vp_one;\nenum { var_CONTINUOUS = 0, var_INTEGER = 1 };\ntypedef struct { double lb_, ub_; int type_; } PreprocessInfoStd;\n#define R __CPROVER_return_value\n',
             Fn(EB, r'PreprocessInfoStd AddBoundsAndType\(const PreprocessInfoStd& bnt1,\s*const PreprocessInfoStd& bnt2\)', 'PreprocessInfoStd AddBoundsAndType(PreprocessInfoStd bnt1, PreprocessInfoStd bnt2)',
                contract='__CPROVER_ensures(R.type_ == ((bnt1.type_ == var_INTEGER && bnt2.type_ == var_INTEGER) ? var_INTEGER : var_CONTINUOUS)) __CPROVER_assigns()',
                subst=[(r'bnt(\d)\.(lb|ub|type)\(\)', r'bnt\1.\2_', 6), (r'var::INTEGER', 'var_INTEGER', -1), (r'var::CONTINUOUS', 'var_CONTINUOUS', -1),
                       (r'return \{\s*([^,]+),\s*([^,]+),', r'return (PreprocessInfoStd){ vp_sum(\1), vp_sum(\2),', 1)],
                label='mp::BoundComputations::AddBoundsAndType', nmatches=1),
             ]
    parts.insert(1, '#define vp_sum(e) nondet_double()     /* the sums of the bounds: not decided */\n')
    parts.append('void harness(void) { vp_one = 1; PreprocessInfoStd a, b; AddBoundsAndType(a, b); VP_REACH("normal return"); }\n')
    return Harness('C06.AddBoundsAndType', 'C06', parts, enforce='AddBoundsAndType', stubs=['the sums of the bounds (arbitrary)'])


def harnesses():
    return [h_lin(), h_quad(), h_product(), h_add()]
