"""C03 (continued) - the header written by the NL WRITER is the header the NL READER reports (NLWriter2::WriteNLHeader vs TextReader::ReadHeader).

`void NLWriter2<Params>::WriteNLHeader()` (nl-writer2/include/mp/nl-writer2.hpp) is extracted with every `nm.Printf(<format>, args...)`
expanded mechanically (R22p, the printf dialect of R22) into the token sequence the format denotes:

  * the format is a string literal, one of the `gl_*` constants of the same file (their text is taken from the file on every run: the
    branch compiled by default, NL_LIB2_ORIG_HDR undefined), a conditional expression over those, or the local `fmt` (its initialiser is a
    conditional expression over the constants: the constants become enumerators and the call a switch over them);
  * %d / %ld / %zd / %c: one token carrying the argument, with the obligation that the argument has the size the conversion takes;
  * %g with a precision: one token carrying the argument, with the obligation that the precision is enough to read the double back
    identically (>= 17 significant digits; libc printf has no shortest-round-trip conversion);
  * everything from '#' to the end of the line is a comment (the reader skips to the end of the line): %s there consumes its argument
    and writes no token; blanks and tabs separate tokens; "\n" ends the line.  Anything else in a format aborts the extraction.

The real ReadHeader is run over that stream exactly as in specs/C02_header.py (same reader extraction, same leaf-reader token stubs) and every
field it reports must equal the field that was given to the writer, for EVERY valid header without random (stochastic) entities - the reader
has no fields for those, the precondition says so.  Dropped: `assert(Formatter().Mode() == Hdr().format)` (formatter choice, not the header).
"""
import re

from vp import extract
from vp.extract import Fn
from specs import C02_header

W2H = 'nl-writer2/include/mp/nl-writer2.hpp'


def gl_constants():
    src = extract.read_repo(W2H)
    m = re.search(r'#ifdef NL_LIB2_ORIG_HDR[\s\S]*?#else\s*static constexpr char([\s\S]*?);\s*#endif', src)
    if not m:
        raise extract.ExtractionError('R22p: the gl_* header formats (default branch) were not found in ' + W2H)
    out = {}
    for name, parts in re.findall(r'\b(gl_\w+)\[\]\s*=\s*((?:"(?:[^"\\]|\\.)*"\s*|EOL\s*)+)', m.group(1)):
        text = ''
        for lit, eol in re.findall(r'"((?:[^"\\]|\\.)*)"|(EOL)', parts):
            text += '\\n' if eol else lit
        out[name] = text
    if len(out) != 16:
        raise extract.ExtractionError('R22p: %d gl_* formats found, expected 16' % len(out))
    return out


def parse_printf(fmt, where, letters=False):
    """printf format -> list of ('sep',) | ('nl',) | ('conv', letter, length, precision or None, in_comment)"""
    out, i, comment = [], 0, False
    while i < len(fmt):
        c = fmt[i]
        if c == '\\':
            e = fmt[i + 1]
            if e == 'n':
                out.append(('nl',))
                comment = False
            elif e == 't':
                out.append(('sep',))
            else:
                raise extract.ExtractionError('R22p: escape \\%s in %r (%s)' % (e, fmt, where))
            i += 2
            continue
        if c == '%':
            m = re.match(r'%(\.(\d*))?(l|z|h)?([dcsgz])', fmt[i:]) if letters else re.match(r'%(\.(\d*))?(l|z|h)?([dcsg])', fmt[i:])
            if m and letters and m.group(3) == 'z' and m.group(4) != 'd':      # apr's own %z (a size_t), not %zd
                m = re.match(r'%(\.(\d*))?()(z)', fmt[i:])
            if not m:
                raise extract.ExtractionError('R22p: conversion at %r in %r (%s)' % (fmt[i:i + 6], fmt, where))
            prec = None if m.group(1) is None else int(m.group(2) or 0)
            out.append(('conv', m.group(4), m.group(3) or '', prec, comment))
            i += m.end()
            continue
        if c == '#':
            comment = True
        elif c == ' ':
            out.append(('sep',))
        elif not comment and c.isalnum() and letters:
            out.append(('chr', c))       # a segment letter written as part of the format
        elif not comment:
            raise extract.ExtractionError('R22p: literal %r outside a comment in %r (%s)' % (c, fmt, where))
        i += 1
    return out


SIZE = {('d', ''): 'sizeof(int)', ('d', 'l'): 'sizeof(long)', ('d', 'z'): 'sizeof(size_t)', ('c', ''): None, ('z', ''): 'sizeof(size_t)'}


def expand(fmt, args, where, letters=False, libc=True):
    """C statements for one Printf(fmt, args): None when the format takes more arguments than are given"""
    items = parse_printf(fmt, where, letters)
    n = sum(1 for it in items if it[0] == 'conv')
    if n > len(args):
        return None
    out, k = [], 0
    for it in items:
        if it[0] == 'nl':
            out.append('VP_EOL();')
        elif it[0] == 'chr':
            out.append("VP_TOK('%s');" % it[1])
        elif it[0] == 'conv':
            _, letter, length, prec, comment = it
            a = args[k]
            k += 1
            if comment:
                out.append('(void)(%s);' % a)
            elif letter == 's':
                if not letters:
                    raise extract.ExtractionError('R22p: %%s outside a comment in %r (%s)' % (fmt, where))
                out.append('VP_STR(%s);' % a)      # a name: one string token
            elif letter == 'g' and not libc:
                out.append('VP_TOK(%s);' % a)      # apr: every %g / %.<n>g is g_fmt's shortest round-trip form (C03.g_fmt), whatever <n> says
            elif letter == 'g':
                out.append('__CPROVER_assert(%d >= 17, "a real number of the header is written with enough digits to be read back identically (%%.%sg)"); VP_TOK(%s);'
                           % (prec if prec is not None else 6, '' if prec is None else prec, a))
            else:
                sz = SIZE.get((letter, length), 'bad')
                if sz == 'bad':
                    raise extract.ExtractionError('R22p: %%%s%s (%s)' % (length, letter, where))
                if sz:
                    out.append('__CPROVER_assert(sizeof(%s) == %s, "the argument has the size its conversion %%%s%s takes");' % (a, sz, length, letter))
                out.append('VP_TOK(%s);' % a)
    return ' '.join(out)


def split_args(s):
    out, depth, cur, q = [], 0, '', None
    for ch in s:
        if q:
            cur += ch
            if ch == q and not cur.endswith('\\' + q):
                q = None
            continue
        if ch in '"\'':
            q = ch
        if ch in '([{':
            depth += 1
        if ch in ')]}':
            depth -= 1
        if ch == ',' and depth == 0:
            out.append(cur.strip())
            cur = ''
        else:
            cur += ch
    if cur.strip():
        out.append(cur.strip())
    return out


def ternary_literals(f):
    """c1 ? "A" : c2 ? "B" : "C"  ->  [(c1, A), (c2, B), (None, C)], or None when f is not of that shape"""
    out = []
    rest = f.strip()
    while True:
        m = re.fullmatch(r'"((?:[^"\\]|\\.)*)"', rest)
        if m:
            out.append((None, m.group(1)))
            return out
        depth, q = 0, -1
        for i, ch in enumerate(rest):
            if ch in '([':
                depth += 1
            elif ch in ')]':
                depth -= 1
            elif ch == '?' and depth == 0:
                q = i
                break
        if q < 0:
            return None
        m = re.match(r'\s*"((?:[^"\\]|\\.)*)"\s*:', rest[q + 1:])
        if not m:
            return None
        out.append((rest[:q].strip(), m.group(1)))
        rest = rest[q + 1 + m.end():].strip()


def translate_printf(body, gl, where, pattern=r'\bnm\.Printf\(', skip=0, letters=False, libc=True):
    """skip: leading arguments that are not part of the format call (the File of apr(nm, fmt, ...))"""
    n, pos, out = 0, 0, ''
    for m in re.finditer(pattern, body):
        if m.start() < pos:
            continue
        i, depth = m.end(), 1
        while depth:
            ch = body[i]
            if ch == '"':
                i += 1
                while body[i] != '"':
                    i += 2 if body[i] == '\\' else 1
            elif ch == '(':
                depth += 1
            elif ch == ')':
                depth -= 1
            i += 1
        end = body.index(';', i) + 1
        args = split_args(body[m.end():i - 1])[skip:]
        f, rest = args[0], args[1:]
        lit = re.fullmatch(r'"((?:[^"\\]|\\.)*)"', f)
        if lit:
            code = expand(lit.group(1), rest, where, letters, libc)
            if code is None:
                raise extract.ExtractionError('R22p: format %s takes more arguments than given (%s)' % (f, where))
        elif ternary_literals(f):
            code, close = '', ''
            for cond, text in ternary_literals(f):
                c = expand(text, rest, where, letters, libc)
                if c is None:
                    raise extract.ExtractionError('R22p: format "%s" takes more arguments than given (%s)' % (text, where))
                if cond is None:
                    code += '{ %s }' % c
                else:
                    code += 'if (%s) { %s } else ' % (cond, c)
        else:
            # an expression over the gl_* constants (for the local `fmt`: over the constants of its initialiser): switch over the enumerators
            src = f
            if f == 'fmt':
                mi = re.search(r'const char\s*\*\s*fmt\s*=([^;]*);', body)
                if not mi:
                    raise extract.ExtractionError('R22p: initialiser of fmt not found (%s)' % where)
                src = mi.group(1)
            names = set(re.findall(r'\bgl_\w+\b', src))
            if not names or names - set(gl) or not re.fullmatch(r'(?:fmt|[\w\s().>?:|]+)', f):
                raise extract.ExtractionError('R22p: format expression %r (%s)' % (f, where))
            if re.fullmatch(r'gl_\w+', f):
                code = expand(gl[f], rest, where + ':' + f)
                if code is None:
                    raise extract.ExtractionError('R22p: format %s takes more arguments than given (%s)' % (f, where))
            else:
                cases = []
                for name in sorted(names):
                    c = expand(gl[name], rest, where + ':' + name)
                    cases.append('case VP_FMT_%s: { %s } break;' % (name, c if c is not None else '__CPROVER_assert(0, "format %s takes more arguments than the call gives");' % name))
                code = 'switch (%s) { %s default: __CPROVER_assert(0, "one of the header formats of this call"); }' % (re.sub(r'\bgl_(\w+)\b', r'VP_FMT_gl_\1', f), ' '.join(cases))
        out += body[pos:m.start()] + '{ ' + code + ' }'
        pos = end
        n += 1
    return out + body[pos:], n


def writer_fn():
    gl = gl_constants()

    def body_sub(m):
        body = m.group(0)
        if not body:
            return ''
        body, n = translate_printf(body, gl, 'WriteNLHeader')
        if n < 20:
            raise extract.ExtractionError('WriteNLHeader: R22p translated %d Printf calls, expected the header lines (>= 20 calls)' % n)
        return body
    return Fn(W2H, r'void NLWriter2<Params>::WriteNLHeader\(\)', 'void WriteNLHeader(void)',
              subst=[(r'assert\(Formatter\(\)\.Mode\(\) == Hdr\(\)\.format\);', '', 1), (r'.*', body_sub, -1), (r'\bHdr\(\)\.', 'h_in.', -1),
                     (r'const char\s*\*\s*fmt\s*=', 'int fmt =', 1), (r'\bgl_(\w+)\b', r'VP_FMT_gl_\1', -1),
                     (r'NLHeader::TEXT', 'NLHeader_TEXT', -1)],
              label='mp::NLWriter2::WriteNLHeader', nmatches=1), gl


def consts_of(cls_file, names):
    src = extract.blank_comments(extract.read_repo(cls_file))
    out = []
    for n in names:
        m = re.search(r'\b%s\s*=\s*(\d+)' % n, src)
        if not m:
            raise extract.ExtractionError('%s: constant %s not found' % (cls_file, n))
        out.append('%s = %s' % (n, m.group(1)))
    return 'enum { %s };   /* %s */\n' % (', '.join(out), cls_file)


def harnesses():
    w, gl = writer_fn()
    decl = 'enum { %s };\n' % ', '.join('VP_FMT_%s = %d' % (n, i + 1) for i, n in enumerate(sorted(gl)))
    decl += consts_of('nl-writer2/include/mp/nl-header-c.h', ['VBTOL_OPTION_INDEX', 'USE_VBTOL_FLAG'])
    pre = ('  __CPROVER_assume(h_in.num_rand_vars == 0 && h_in.num_rand_common_exprs == 0 && h_in.num_rand_cons == 0 && h_in.num_rand_objs == 0 && h_in.num_rand_calls == 0 && h_in.num_stages <= 1);'
           '  __CPROVER_assume(h_in.num_compl_conds > 0 || (h_in.num_compl_dbl_ineqs == 0 && h_in.num_compl_vars_with_nz_lb == 0));   /* no complementarity details without complementarity conditions */'
           '   /* the reader has no notion of random entities or stages */\n')
    h = C02_header.h_roundtrip(name='C03.header.roundtrip', prop='C03', writer=w, call='WriteNLHeader()', extra_pre=pre, extra_decl=decl,
                               stub='File::Printf output (R22p: expanded into a token stream; format constants read from the file)')
    h.replay = replay_header
    return [h]


def replay_header(lead, inputs, obs):
    """native: headers through the real NLWriter2 (text) and the real ReadHeader (replay/c03_header_replay.cc)"""
    import os
    import subprocess
    from vp.run import BUILD, VERIF
    repo = os.environ.get('VP_REPO', '/repo')
    out = os.path.join(BUILD, 'replay', 'c03_header_replay')
    os.makedirs(os.path.dirname(out), exist_ok=True)
    cmd = ['g++', '-std=c++17', '-w', '-O0', '-I', repo + '/include', '-I', repo + '/nl-writer2/include', '-I', repo + '/src', os.path.join(VERIF, 'replay', 'c03_header_replay.cc')] + \
          [os.path.join(repo, 'nl-writer2', 'src', x) for x in ('nl-writer2.cc', 'nl-utils.cc', 'dtoa.cc')] + \
          [os.path.join(repo, 'src', x) for x in ('nl-reader.cc', 'format.cc', 'os.cc', 'posix.cc')] + [os.path.join(extract.generated_dir(), 'expr-info.cc'), '-o', out]
    p = subprocess.run(cmd, capture_output=True, text=True)
    if p.returncode != 0:
        return False, 'replay driver build failed: ' + p.stderr[-1500:], ' '.join(cmd)
    p = subprocess.run([out, '1', '5000'], capture_output=True, text=True, timeout=300)
    return p.returncode == 10, (p.stdout + p.stderr)[-2000:], out + ' 1 5000'
