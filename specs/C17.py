"""C17 - checked integer arithmetic (include/mp/safeint.h, fmt::internal::is_negative in format.h).

Contracts are transcribed from the property statement: exact result when it is
representable in T, OverflowError otherwise, never both, no UB.  Z (the
mathematical integers) is modelled by __int128, which is exact for all sums,
differences and 32x32 products of the verified types.
"""
import os
import subprocess

from vp.extract import Fn
from vp.run import Harness, BUILD, VERIF

SAFEINT = 'include/mp/safeint.h'
FORMAT = 'include/mp/format.h'

TYPES = {
    'int': dict(c='int', min='INT_MIN', max='INT_MAX', u='unsigned', nondet='nondet_int', bits=32, signed=True),
    'unsigned': dict(c='unsigned', min='0u', max='UINT_MAX', u='unsigned', nondet='nondet_unsigned', bits=32, signed=False),
    'long': dict(c='long long', min='LLONG_MIN', max='LLONG_MAX', u='unsigned long long', nondet='nondet_longlong', bits=64, signed=True),
    'ulong': dict(c='unsigned long long', min='0ull', max='ULLONG_MAX', u='unsigned long long', nondet='nondet_ulonglong', bits=64, signed=False),
    'size_t': dict(c='size_t', min='((size_t)0)', max='SIZE_MAX', u='size_t', nondet='nondet_size_t', bits=64, signed=False),
}

META = {
    'decides': 'for every operand pair of the listed instantiations: result exact when representable, '
               'OverflowError exactly when not, no signed overflow / division by zero in the implementation',
    'not_decided': 'that every size computation in expr.h/problem.h goes through SafeInt (call-site audit only); '
                   '64-bit multiplication (not instantiated in the repository; solver cannot decide 64x64 multiplier)',
    'not_under_contract': ['operator* for 64-bit T (undecided: 64x64 multiplier + divider beyond all installed back ends)'],
    'trusted_base': ['__int128 arithmetic of CBMC as the model of mathematical integers'],
    'assumptions': ['SafeInt<T> is rendered as its single member value_ (val(x) -> x)',
                    'a throw ends the path (no try/catch inside the functions under contract)'],
}

MU_SUBST = [(r'(?:typename\s+)?MakeUnsigned<(\w+)>::Type', r'MakeUnsigned_\1', -1)]


def prelude(T, U=None):
    t = TYPES[T]
    s = ['typedef %s T;' % t['c'], 'typedef %s MakeUnsigned_T;' % t['u'], 'typedef __int128 Z;',
         '#define VP_MAX_T %s' % t['max'], '#define VP_MIN_T %s' % t['min'],
         '#define val(x) (x)', 'typedef long long LongLong;',
         '#define VP_IS_SIGNED(X) ((X)-1 < (X)0)', 'int vp_one;', '#define NONDET_T %s' % t['nondet']]
    if U:
        u = TYPES[U]
        s += ['typedef %s U;' % u['c'], 'typedef %s MakeUnsigned_U;' % u['u']]
    return '\n'.join(s) + '\n'


def is_negative_parts(vt):
    """fmt::internal::is_negative<VT> with both SignChecker branches, extracted from format.h."""
    return [
        'typedef %s VT;\n' % vt,
        Fn(FORMAT, r'static bool is_negative\(T value\)', 'bool SignChecker_true_is_negative(VT value)',
           label='fmt::internal::SignChecker<true>::is_negative', nmatches=1),
        Fn(FORMAT, r'static bool is_negative\(T\)', 'bool SignChecker_false_is_negative(VT value)',
           label='fmt::internal::SignChecker<false>::is_negative', nmatches=1),
        '#define VP_SignChecker_is_negative(v) (VP_IS_SIGNED(VT) ? SignChecker_true_is_negative(v) : SignChecker_false_is_negative(v))\n',
        Fn(FORMAT, r'inline bool is_negative\(T value\)', 'bool is_negative(VT value)',
           subst=[(r'SignChecker<std::numeric_limits<T>::is_signed>::is_negative', 'VP_SignChecker_is_negative', 1)],
           label='fmt::internal::is_negative', nmatches=1),
    ]


def safeabs_fn(contract=''):
    return Fn(SAFEINT, r'inline typename MakeUnsigned<T>::Type SafeAbs\(T value\)',
              'MakeUnsigned_T SafeAbs(T value)', contract=contract, subst=MU_SUBST, label='mp::SafeAbs', nmatches=1)


_replay_bin = [None]


def replay_driver():
    if _replay_bin[0] is None:
        out = os.path.join(BUILD, 'replay', 'c17_replay')
        os.makedirs(os.path.dirname(out), exist_ok=True)
        cmd = ['g++', '-std=c++17', '-O0', '-fsanitize=undefined', '-fno-sanitize-recover=undefined',
               '-I', os.path.join(os.environ.get('VP_REPO', '/repo'), 'include'),
               os.path.join(VERIF, 'replay', 'c17_replay.cc'), '-o', out]
        p = subprocess.run(cmd, capture_output=True, text=True)
        if p.returncode != 0:
            raise RuntimeError('replay driver build failed: ' + p.stderr[-800:])
        _replay_bin[0] = out
    return _replay_bin[0]


def make_replay(op, T, U=None, side=None):
    def replay(lead, inputs, obs):
        b = replay_driver()
        a_ = inputs.get('vp_in_a')
        b_ = inputs.get('vp_in_b', '0')
        if a_ is None:
            return False, 'no concrete operands in the verifier trace', ''
        args = [b, op, T, U or '-', str(a_), str(b_)] + ([side] if side else [])
        p = subprocess.run(args, capture_output=True, text=True)
        return p.returncode != 0, (p.stdout + p.stderr)[-2000:], ' '.join(args)
    return replay


def op_harness(op, T, tier, extra_assume='', suffix='', backend='sat', timeout=300):
    t = TYPES[T]
    sym = {'add': r'\+', 'sub': '-', 'mul': r'\*'}[op]
    csym = {'add': '+', 'sub': '-', 'mul': '*'}[op]
    exact = '((Z)a %s (Z)b)' % csym
    contract = ('__CPROVER_ensures((Z)__CPROVER_return_value == %s) __CPROVER_assigns()' % exact)
    parts = [prelude(T)]
    parts += is_negative_parts('T')
    parts += [safeabs_fn()]
    parts += ['#define VP_MAY_THROW_OverflowError (!(%s >= (Z)VP_MIN_T && %s <= (Z)VP_MAX_T))\n' % (exact, exact)]
    parts += [Fn(SAFEINT, r'inline SafeInt<T> operator%s\(SafeInt<T> a, SafeInt<T> b\)' % sym,
                 'T vp_%s(T a, T b)' % op, contract=contract, label='mp::operator%s(SafeInt<T>,SafeInt<T>)' % csym,
                 inst='T=%s' % t['c'], nmatches=1, subst=MU_SUBST)]
    parts += ['''
T vp_in_a, vp_in_b;
void harness(void) {
  vp_one = 1;
  T a = %s(), b = %s();
  %s
  vp_in_a = a; vp_in_b = b;
  vp_%s(a, b);
  VP_REACH("normal return");
}
''' % (t['nondet'], t['nondet'], extra_assume, op)]
    return Harness('C17.%s.%s%s' % (op, T, suffix), 'C17', parts, enforce='vp_%s' % op, backend=backend,
                   timeout=timeout, inputs=['vp_in_a', 'vp_in_b'], replay=make_replay(op, T),
                   group='C17.%s.%s' % (op, T))


def MIXED_SUBST(sym):
    """written as found: SafeInt<Tn>(x) is the explicit range-checked converting constructor (contract vp_ctor); `SafeInt<Tn> y = x;` is
    copy-initialisation, which can only use the implicit SafeInt(T) constructor after a plain conversion of x to T; the operator between two
    SafeInt operands is vp_op"""
    return [(r'SafeInt<T[12]>\(', 'vp_ctor(', -1), (r'SafeInt<T[12]> (\w+) = (\w+);', r'T \1 = (T)(\2);', -1),
            (r'return (\w+(?:\(\w+\))?) %s (\w+(?:\(\w+\))?);' % sym, r'return vp_op(\1, \2);', -1),      # when the body no longer has this shape it is kept as written
            (r'\bval\((\w+)\)', r'(\1)', -1)]      # val(SafeInt<T>) is the stored T


def mixed_harness(op, T, U, left):
    """SafeInt<T1> op T2  /  T1 op SafeInt<T2>: one-line wrappers = ctor + op, verified against
    the contracts of ctor and op (replaced), i.e. modularly."""
    t, u = TYPES[T], TYPES[U]
    sym = {'add': r'\+', 'sub': '-', 'mul': r'\*'}[op]
    csym = {'add': '+', 'sub': '-', 'mul': '*'}[op]
    parts = [prelude(T, U)]
    inT = '((Z)(x) >= (Z)VP_MIN_T && (Z)(x) <= (Z)VP_MAX_T)'
    parts += ['''
#define VP_IN_T(x) %s
/* converting constructor: contract proved by C17.ctor.* (a throw inside it ends the path) */
T vp_ctor(U value)
__CPROVER_requires(1)
__CPROVER_ensures(VP_IN_T(value) && (Z)__CPROVER_return_value == (Z)value)
__CPROVER_assigns();
/* operator on SafeInt<T>,SafeInt<T>: proved exact-or-throw by C17.%s.*; here only the operands it is
   handed matter, so it records them and returns an arbitrary value */
T g_op_a, g_op_b, g_op_ret; int g_op_calls;
T vp_op(T a, T b) { g_op_a = a; g_op_b = b; g_op_calls++; g_op_ret = NONDET_T(); return g_op_ret; }
''' % (inT, op)]
    post = '__CPROVER_ensures(g_op_calls == 1 && (Z)g_op_a == (Z)a && (Z)g_op_b == (Z)b && __CPROVER_return_value == g_op_ret) __CPROVER_assigns(g_op_a, g_op_b, g_op_ret, g_op_calls)'
    if left:   # SafeInt<T1> a, T2 b
        fn = Fn(SAFEINT, r'inline SafeInt<T1> operator%s\(SafeInt<T1> a, T2 b\)' % sym,
                'T vp_mixed(T a, U b)',
                contract=post,
                subst=MIXED_SUBST(sym),
                label='mp::operator%s(SafeInt<T1>,T2)' % csym, inst='T1=%s,T2=%s' % (t['c'], u['c']), nmatches=1)
        call = 'T a = %s(); U b = %s(); vp_in_a = a; vp_in_b = b; vp_mixed(a, b);' % (t['nondet'], u['nondet'])
        decl = 'T vp_in_a; U vp_in_b;'
    else:      # T1 a, SafeInt<T2> b
        fn = Fn(SAFEINT, r'inline SafeInt<T2> operator%s\(T1 a, SafeInt<T2> b\)' % sym,
                'T vp_mixed(U a, T b)',
                contract=post,
                subst=MIXED_SUBST(sym),
                label='mp::operator%s(T1,SafeInt<T2>)' % csym, inst='T2=%s,T1=%s' % (t['c'], u['c']), nmatches=1)
        call = 'U a = %s(); T b = %s(); vp_in_a = a; vp_in_b = b; vp_mixed(a, b);' % (u['nondet'], t['nondet'])
        decl = 'U vp_in_a; T vp_in_b;'
    # the unreachable call keeps vp_ctor in the program when the operator under test does not use the checked constructor (DFCC insists that a replaced function exists)
    parts += [fn, '%s\nint g_never;\nvoid harness(void) { vp_one = 1; g_op_calls = 0; g_never = 0; if (g_never) (void)vp_ctor((U)0); %s VP_REACH("normal return"); }\n' % (decl, call)]
    return Harness('C17.%s.mixed%s.%s.%s' % (op, 'L' if left else 'R', T, U), 'C17', parts, enforce='vp_mixed',
                   replace=['vp_ctor'], inputs=['vp_in_a', 'vp_in_b'], replay=make_replay(op, T, U, 'L' if left else 'R'),
                   stubs=[], note='modular: uses the contracts of the converting constructor and of operator%s' % csym)


def ctor_harness(T, U):
    t, u = TYPES[T], TYPES[U]
    parts = [prelude(T, U)]
    parts += is_negative_parts('U')
    parts += ['T value_;\n',
              '#define VP_MAY_THROW_OverflowError (!((Z)value >= (Z)VP_MIN_T && (Z)value <= (Z)VP_MAX_T))\n',
              Fn(SAFEINT, r'explicit SafeInt\(U value\)', 'void vp_ctor(U value)',
                 contract='__CPROVER_ensures((Z)value_ == (Z)value) __CPROVER_assigns(value_)',
                 subst=MU_SUBST, label='mp::SafeInt<T>::SafeInt(U)', inst='T=%s,U=%s' % (t['c'], u['c']), nmatches=1),
              '''
U vp_in_a;
void harness(void) {
  vp_one = 1;
  U v = %s();
  vp_in_a = v;
  vp_ctor(v);
  VP_REACH("normal return");
}
''' % u['nondet']]
    return Harness('C17.ctor.%s.from.%s' % (T, U), 'C17', parts, enforce='vp_ctor', inputs=['vp_in_a'],
                   replay=make_replay('ctor', T, U))


def safeabs_harness(T):
    t = TYPES[T]
    parts = [prelude(T),
             safeabs_fn('__CPROVER_ensures((Z)__CPROVER_return_value == ((Z)value < 0 ? -(Z)value : (Z)value)) __CPROVER_assigns()'),
             '''
T vp_in_a;
void harness(void) { T v = %s(); vp_in_a = v; SafeAbs(v); VP_REACH("normal return"); }
''' % t['nondet']]
    return Harness('C17.SafeAbs.%s' % T, 'C17', parts, enforce='SafeAbs', inputs=['vp_in_a'],
                   replay=make_replay('abs', T))


def harnesses(tier, seed):
    hs = []
    for T in ('int', 'long', 'size_t', 'unsigned'):
        hs.append(op_harness('add', T, tier))
        hs.append(op_harness('sub', T, tier))
    for T in ('int', 'long'):
        hs.append(safeabs_harness(T))
    # 32-bit multiplication: exhaustive 33-way case split on the leading bit of |b| (each case is a lemma;
    # the cases b == 0, |b| in [2^k, 2^(k+1)) for k = 0..31 cover every b)
    for T in ('int', 'unsigned'):
        for k in range(33):
            if k == 32:
                assume = '__CPROVER_assume(b == 0);'
            else:
                assume = ('{ unsigned vp_ub = b < 0 ? 0u - (unsigned)b : (unsigned)b; '
                          '__CPROVER_assume((vp_ub >> %d) == 1u); }' % k)
            if T == 'unsigned' and k == 32:
                pass
            hs.append(op_harness('mul', T, tier, extra_assume=assume, suffix='.case%02d' % k,
                                 backend='kissat' if k not in (32,) else 'sat', timeout=600))
    srcs = ('int', 'unsigned', 'long', 'ulong', 'size_t')
    for T in ('int', 'unsigned', 'long', 'size_t'):
        for U in srcs:
            hs.append(ctor_harness(T, U))
    # mixed forms used all over expr.h / problem.h: SafeInt<int>(size_t) + int etc.
    for op in ('add', 'sub', 'mul'):
        for (T, U) in (('int', 'int'), ('int', 'size_t'), ('size_t', 'size_t'), ('int', 'long')):
            hs.append(mixed_harness(op, T, U, True))
            hs.append(mixed_harness(op, T, U, False))
    return hs
