"""C15 - interrupt handling (src/solver.cc SignalHandler, solver-app-base.h Stop()).

A POSIX signal handler runs to completion on the interrupted thread between two statements of that
thread (sig_atomic_t / atomic stores are single steps w.r.t. it).  "Every delivery point of 1..3
signals" is therefore the sequential program in which HandleSigInt is called 0..3 times at any
statement boundary of the constructor, SetHandler and the destructor.  HandleSigInt gets a contract
(proved on its real body); the schedule harnesses use that contract at every delivery point.
Delivery points: after every statement (inserted by the extractor) and at the AMPL_MP_VERIF hooks,
whose names let the native replay raise a real signal at the same place.
"""
import re

from vp.extract import Fn
from vp.run import Harness

SOLVER = 'src/solver.cc'
SAB = 'include/mp/solver-app-base.h'

META = {
    'decides': 'HandleSigInt: counter +1 or exit on the third signal, at most one callback, called with the handler_/data_ '
               'pair it read, re-armed; SetHandler: at every delivery point a callback is invoked only with a (callback,data) '
               'pair of the old or of the new registration, afterwards exactly the new pair; constructor: a signal delivered '
               'once the handler is installed is seen by Stop() afterwards; three deliveries without teardown exit; '
               'destructor: afterwards no callback is invoked and no byte of the destroyed message is written',
    'not_decided': 'delivery on another thread; a signal interrupting HandleSigInt itself (SIGTERM during SIGINT); Windows '
                   'SignalRepeater; async-signal-safety of the user callback; termination of the write loop (write may return 0); '
                   'a signal between the first two stores of the destructor may still call the registered callback (the handler '
                   'object is being destroyed, not yet destroyed)',
    'not_under_contract': ['mp::internal::SignalRepeater', 'StdBackend::SetupTimerAndInterrupter / SetInterrupter (callers of SetHandler)'],
    'assumptions': ['std::atomic<T> / volatile sig_atomic_t members rendered as plain globals: every load/store is one indivisible '
                    'step with respect to a handler running on the same thread',
                    'the member initialiser list of the constructor (solver_, message_, repeater_) is dropped; message_ is a ghost buffer',
                    'a signal is delivered only while HandleSigInt is the installed disposition (otherwise the default action ends the process)',
                    '_exit(code) is modelled as "set ghost g_exited and return"; the harness executes nothing after g_exited'],
    'trusted_base': ['write(2), signal(2), _exit(2) stubs'],
}

PRELUDE = '''
int vp_one;
typedef bool (*InterruptHandler)(void *);
typedef int sig_atomic_t;
#define SIGINT 2
#define SIGTERM 15
/* static members of mp::internal::SignalHandler (R8) */
const char *signal_message_ptr_; unsigned signal_message_size_;
InterruptHandler handler_; void *data_; sig_atomic_t stop_;
/* ghost */
char *g_msg; unsigned g_msg_len; int g_msg_alive;
int g_exited; int g_inv_count; InterruptHandler g_inv_fn; void *g_inv_data;
int g_inst_int, g_inst_term;          /* HandleSigInt is the disposition of SIGINT / SIGTERM */
int g_wrote_any;               /* ghost: write(2) reported >0 bytes written */
void HandleSigInt(int sig);
/* stubs */
bool cbA(void *d) { g_inv_count++; g_inv_fn = cbA; g_inv_data = d; return 1; }
bool cbB(void *d) { g_inv_count++; g_inv_fn = cbB; g_inv_data = d; return 1; }
int vp_write(int fd, const char *p, unsigned n)
__CPROVER_requires(n == 0 || __CPROVER_r_ok(p, n))
__CPROVER_ensures(__CPROVER_return_value <= (int)n && __CPROVER_return_value >= -1 && (n <= 0x7fffffffu))
__CPROVER_ensures(g_wrote_any == (__CPROVER_old(g_wrote_any) || __CPROVER_return_value > 0))
__CPROVER_assigns(g_wrote_any);
#define MP_WRITE vp_write
#define _exit(code) do { g_exited = 1; return; } while (0)
typedef void (*vp_sighandler_t)(int);
void signal(int sig, vp_sighandler_t h) { if (sig == SIGINT) g_inst_int = (h == HandleSigInt); if (sig == SIGTERM) g_inst_term = (h == HandleSigInt); }
void solver_set_interrupter(void *p) {}
'''

HSI_CONTRACT = '''
__CPROVER_requires(sig == SIGINT || sig == SIGTERM)
__CPROVER_requires(0 <= stop_ && stop_ <= 1000000 && g_exited == 0 && g_inv_count >= 0 && g_inv_count < 1000 && (g_wrote_any == 0 || g_wrote_any == 1))
__CPROVER_requires(signal_message_size_ == 0 || (signal_message_size_ <= 4096 && __CPROVER_r_ok(signal_message_ptr_, signal_message_size_)))
__CPROVER_requires(handler_ == 0 || handler_ == cbA || handler_ == cbB)
__CPROVER_ensures(__CPROVER_old(stop_) > 1 ==> (g_exited == 1 && g_inv_count == __CPROVER_old(g_inv_count)))
__CPROVER_ensures(__CPROVER_old(stop_) <= 1 ==> (g_exited == 0 && stop_ == __CPROVER_old(stop_) + 1))
__CPROVER_ensures((__CPROVER_old(stop_) <= 1 && __CPROVER_old(handler_) != 0) ==>
   (g_inv_count == __CPROVER_old(g_inv_count) + 1 && g_inv_fn == __CPROVER_old(handler_) && g_inv_data == __CPROVER_old(data_)))
__CPROVER_ensures((__CPROVER_old(stop_) <= 1 && __CPROVER_old(handler_) == 0) ==> g_inv_count == __CPROVER_old(g_inv_count))
__CPROVER_ensures(__CPROVER_old(stop_) <= 1 ==> (g_inst_int == (sig == SIGINT ? 1 : __CPROVER_old(g_inst_int)) && g_inst_term == (sig == SIGTERM ? 1 : __CPROVER_old(g_inst_term))))
__CPROVER_ensures(__CPROVER_old(stop_) > 1 ==> (g_inst_int == __CPROVER_old(g_inst_int) && g_inst_term == __CPROVER_old(g_inst_term)))
__CPROVER_ensures(__CPROVER_old(signal_message_size_) == 0 ==> g_wrote_any == __CPROVER_old(g_wrote_any))
__CPROVER_ensures(g_wrote_any == 0 || g_wrote_any == 1)
__CPROVER_ensures(handler_ == __CPROVER_old(handler_) && data_ == __CPROVER_old(data_) && signal_message_size_ == __CPROVER_old(signal_message_size_))
__CPROVER_assigns(stop_, g_exited, g_inv_count, g_inv_fn, g_inv_data, g_inst_int, g_inst_term, g_wrote_any)
'''


def hsi_fn(with_body=True):
    return Fn(SOLVER, r'void SignalHandler::HandleSigInt\(int sig\)', 'void HandleSigInt(int sig)',
              contract=HSI_CONTRACT,
              subst=[(r'if \(InterruptHandler handler = handler_\)\s*handler\(data_\);',
                      '{ InterruptHandler handler = handler_; if (handler) handler(data_); }', 1)],   # R14
              loops={0: '__CPROVER_assigns(count, g_wrote_any) __CPROVER_loop_invariant(count <= signal_message_size_ && '
                        '(g_wrote_any == 0 || g_wrote_any == 1) && '
                        '(signal_message_size_ == 0 ==> g_wrote_any == __CPROVER_loop_entry(g_wrote_any)))'},
              label='mp::internal::SignalHandler::HandleSigInt', nmatches=1)


HSI_DECL = 'void HandleSigInt(int sig)\n' + ' '.join(HSI_CONTRACT.split()) + ';\n'


def hsi_harness():
    parts = [PRELUDE, hsi_fn(), '''
void harness(void) {
  vp_one = 1;
  unsigned len = nondet_unsigned(); __CPROVER_assume(len <= 4096);
  g_msg = vp_malloc(len ? len : 1); g_msg_len = len;
  signal_message_size_ = len;
  signal_message_ptr_ = nondet_bool() ? g_msg : (const char *)0;     /* dangling / null pointer allowed when size is 0 */
  __CPROVER_assume(len == 0 || signal_message_ptr_ == g_msg);
  stop_ = nondet_int(); g_exited = 0; g_inv_count = nondet_int(); g_wrote_any = nondet_bool();
  g_inst_int = nondet_int(); g_inst_term = nondet_int();
  int c = nondet_int(); handler_ = c == 0 ? 0 : (c == 1 ? cbA : cbB);
  data_ = nondet_ptr();
  HandleSigInt(nondet_bool() ? SIGINT : SIGTERM);
  VP_REACH("normal return");
}
''']
    return Harness('C15.HandleSigInt', 'C15', parts, enforce='HandleSigInt', replace=['vp_write'], loop_contracts=True,
                   expect_loop_obligations=1, stubs=['write (returns -1..n, reads only inside [p,p+n))', 'signal', '_exit'],
                   note='contract of the handler, proved on its real body for every state', replay=replay_counts)


SCHED = '''
/* ---- delivery machinery ---- */
int g_sigs_left, g_delivered, g_last_hook, g_hook_next;
int vp_in_nsig, vp_in_hook0, vp_in_hook1, vp_in_hook2, vp_in_f1, vp_in_f2, vp_in_scenario; unsigned vp_in_d1, vp_in_d2;
InterruptHandler g_legal_f[2]; void *g_legal_d[2]; int g_nlegal;      /* registrations in force */
int g_count_installed;      /* deliveries counted for the "not lost" / "third signal" clauses */
static void vp_deliver(void) {
  int sig = nondet_bool() ? SIGINT : SIGTERM;
  __CPROVER_assume((sig == SIGINT && g_inst_int) || (sig == SIGTERM && g_inst_term));
  int before = g_inv_count;
  if (g_delivered == 0) vp_in_hook0 = g_last_hook + g_hook_next; else if (g_delivered == 1) vp_in_hook1 = g_last_hook + g_hook_next; else vp_in_hook2 = g_last_hook + g_hook_next;
  HandleSigInt(sig);
  g_delivered++;
  if (g_exited) return;
  __CPROVER_assert(g_inv_count <= before + 1, "at most one callback per signal");
  if (g_inv_count != before) {
    bool legal = 0;
    if (g_nlegal >= 1 && g_inv_fn == g_legal_f[0] && g_inv_data == g_legal_d[0] && g_legal_f[0] != 0) legal = 1;
    if (g_nlegal >= 2 && g_inv_fn == g_legal_f[1] && g_inv_data == g_legal_d[1] && g_legal_f[1] != 0) legal = 1;
    __CPROVER_assert(legal, "callback invoked with the data of its own registration (old or new), never a mixed pair");
  }
}
/* a delivery point after a statement is the position of the NEXT named hook; one at a hook is that hook */
#define VP_DELIVER_POINT(next) do { if (!g_exited && g_sigs_left > 0 && nondet_bool()) { g_sigs_left--; g_hook_next = (next); vp_deliver(); } if (g_exited) return; } while (0)
#define VP_SIGNAL_POINT() VP_DELIVER_POINT(1)
#define VP_HOOK(n) do { g_last_hook = (n); VP_DELIVER_POINT(0); } while (0)
static InterruptHandler vp_pick(int c) { return c == 0 ? (InterruptHandler)0 : (c == 1 ? cbA : cbB); }
static void vp_common(void) {
  vp_one = 1;
  g_msg_len = 8; g_msg = vp_malloc(8); g_msg_alive = 1;
  g_exited = 0; g_inv_count = 0; g_wrote_any = 0; g_delivered = 0; g_last_hook = -1;
  g_sigs_left = nondet_int(); __CPROVER_assume(1 <= g_sigs_left && g_sigs_left <= 3); vp_in_nsig = g_sigs_left;
  vp_in_hook0 = vp_in_hook1 = vp_in_hook2 = -1;
}
'''


class Hooks:
    """MP_VERIF_SIGNAL_POINT("name") -> VP_HOOK(<id>) ; remembers the names for the replay."""

    def __init__(self):
        self.names = []

    def __call__(self, m):
        self.names.append(m.group(1))
        return 'VP_HOOK(%d)' % (len(self.names) - 1)


def ctor_fn(hooks):
    return Fn(SOLVER, r'SignalHandler::SignalHandler\(BasicSolver &s\)', 'void vp_ctor(void)', drop_init=True,
              subst=[(r'MP_VERIF_SIGNAL_POINT\("([^"]+)"\)', hooks, -1),
                     (r'solver_\.set_interrupter\(this\)', 'solver_set_interrupter(0)', 1),
                     (r'message_\.c_str\(\)', 'g_msg', 1), (r'message_\.size\(\)', 'g_msg_len', 1)],
              signal_points=True, label='mp::internal::SignalHandler::SignalHandler', nmatches=1)


def dtor_fn(hooks):
    return Fn(SOLVER, r'SignalHandler::~SignalHandler\(\)', 'void vp_dtor(void)',
              subst=[(r'MP_VERIF_SIGNAL_POINT\("([^"]+)"\)', hooks, -1),
                     (r'solver_\.set_interrupter\(0\)', 'solver_set_interrupter(0)', 1)],
              signal_points=True, label='mp::internal::SignalHandler::~SignalHandler', nmatches=1)


def set_fn(hooks):
    return Fn(SOLVER, r'void SignalHandler::SetHandler\(InterruptHandler handler, void \*data\)',
              'void vp_SetHandler(InterruptHandler handler, void *data)',
              subst=[(r'MP_VERIF_SIGNAL_POINT\("([^"]+)"\)', hooks, -1)],
              signal_points=True, label='mp::internal::SignalHandler::SetHandler', nmatches=1)


def stop_fn():
    return Fn(SAB, r'bool Stop\(\) const', 'bool Stop(void)', label='mp::internal::SignalHandler::Stop', nmatches=1)


def replay_counts(lead, inputs, obs):
    """HandleSigInt's contract has no schedule to replay: real signals, raised in-process, before / after the callback registration
    (replay/c15_counts_replay.cc)"""
    import subprocess
    from vp import native
    drv, _ = native.build_driver('c15_counts_replay.cc', 'c15_counts_replay', native.MP_SOURCES, ['-O0'])
    p = subprocess.run([drv], capture_output=True, text=True, timeout=120)
    return p.returncode == 10, (p.stdout + p.stderr)[-2000:], drv


def make_replay(hooks, scenario):
    def replay(lead, inputs, obs):
        import subprocess
        from vp import native
        drv, _ = native.build_driver('c15_replay.cc', 'c15_replay', native.MP_SOURCES, ['-O0', '-DAMPL_MP_VERIF'], tag='verif')
        pts = []
        for k in ('vp_in_hook0', 'vp_in_hook1', 'vp_in_hook2'):
            v = inputs.get(k)
            try:
                v = int(v)
            except (TypeError, ValueError):
                v = -1
            if 0 <= v < len(hooks.names):
                pts.append(hooks.names[v])
        if not pts and scenario == 'dtor':
            pts = ['after']        # the driver always raises one signal after the destructor has returned
        if not pts:
            return False, 'verifier trace delivers no signal at a named hook point', ''

        def g(k, d='0'):
            return str(inputs.get(k, d))
        args = [drv, scenario, g('vp_in_f1'), g('vp_in_d1'), g('vp_in_f2'), g('vp_in_d2')] + pts
        p = subprocess.run(args, capture_output=True, text=True, timeout=60)
        return p.returncode == 10, (p.stdout + p.stderr)[-2000:], ' '.join(args)
    return replay


def sched_harness(name, body, fns_with_hooks, scenario, note=''):
    hooks = Hooks()
    parts = [PRELUDE, HSI_DECL, SCHED]
    for f in fns_with_hooks:
        parts.append(f(hooks) if f is not stop_fn else f())
    parts.append(body)
    return Harness('C15.' + name, 'C15', parts, replace=['HandleSigInt'],
                   inputs=['vp_in_nsig', 'vp_in_hook0', 'vp_in_hook1', 'vp_in_hook2', 'vp_in_f1', 'vp_in_f2', 'vp_in_d1', 'vp_in_d2'],
                   replay=make_replay(hooks, scenario), note=note, object_bits=12,
                   stubs=['HandleSigInt (its contract, proved by C15.HandleSigInt)'])


H_SET = '''
void harness(void) {
  vp_common();
  /* steady state after construction: handler installed, some registration (f1,d1) in force (f1 may be none) */
  g_inst_int = g_inst_term = 1;
  signal_message_ptr_ = g_msg; signal_message_size_ = g_msg_len;
  stop_ = 0;
  int c1 = nondet_int(), c2 = nondet_int(); __CPROVER_assume(0 <= c1 && c1 <= 2 && 0 <= c2 && c2 <= 2);
  void *d1 = (void *)(size_t)nondet_unsigned(), *d2 = (void *)(size_t)nondet_unsigned();
  vp_in_f1 = c1; vp_in_f2 = c2; vp_in_d1 = (unsigned)(size_t)d1; vp_in_d2 = (unsigned)(size_t)d2;
  handler_ = vp_pick(c1); data_ = d1;
  g_legal_f[0] = vp_pick(c1); g_legal_d[0] = d1; g_legal_f[1] = vp_pick(c2); g_legal_d[1] = d2; g_nlegal = 2;
  vp_SetHandler(vp_pick(c2), d2);
  if (g_exited) return;
  __CPROVER_assert(handler_ == vp_pick(c2) && data_ == d2, "after registration the new pair is in force");
  __CPROVER_assert(g_delivered == 0 || stop_ != 0, "a delivered signal is seen by the stop query");
  /* after return only the new registration is legal, and it must be invoked */
  g_legal_f[0] = vp_pick(c2); g_legal_d[0] = d2; g_nlegal = 1;
  if (g_sigs_left > 0 && stop_ <= 1) {
    int before = g_inv_count;
    g_sigs_left--; g_hook_next = 100; vp_deliver();
    if (!g_exited && c2 != 0) __CPROVER_assert(g_inv_count == before + 1, "a signal after registration invokes the registered callback");
  }
  VP_REACH("end");
}
'''

H_CTOR = '''
void harness(void) {
  vp_common();
  /* before construction: default disposition, static initialiser stop_ = 1, nothing registered */
  g_inst_int = g_inst_term = 0; stop_ = 1; handler_ = 0; data_ = 0;
  signal_message_ptr_ = 0; signal_message_size_ = 0; g_nlegal = 0;
  vp_ctor();
  if (g_exited) return;
  __CPROVER_assert(g_inst_int && g_inst_term, "constructor installs the handler for SIGINT and SIGTERM");
  __CPROVER_assert(signal_message_ptr_ == g_msg && signal_message_size_ == g_msg_len, "message registered");
  __CPROVER_assert(g_delivered == 0 || Stop(), "a signal delivered once the handler is installed is seen by the stop query afterwards");
  __CPROVER_assert(g_delivered > 0 || !Stop(), "no signal: stop query is false after construction");
  VP_REACH("end");
}
'''

H_THIRD = '''
void harness(void) {
  vp_common();
  g_inst_int = g_inst_term = 0; stop_ = 1; handler_ = 0; data_ = 0;
  signal_message_ptr_ = 0; signal_message_size_ = 0; g_nlegal = 0;
  g_sigs_left = 3;
  vp_ctor();
  if (!g_exited) {
    int c2 = nondet_int(); __CPROVER_assume(0 <= c2 && c2 <= 2);
    void *d2 = (void *)(size_t)nondet_unsigned();
    g_legal_f[0] = 0; g_legal_d[0] = 0; g_legal_f[1] = vp_pick(c2); g_legal_d[1] = d2; g_nlegal = 2;
    vp_SetHandler(vp_pick(c2), d2);
    g_legal_f[0] = vp_pick(c2); g_legal_d[0] = d2; g_nlegal = 1;
    /* solving: remaining signals arrive now */
    if (!g_exited && g_sigs_left > 0) { g_sigs_left--; g_hook_next = 100; vp_deliver(); }
    if (!g_exited && g_sigs_left > 0) { g_sigs_left--; g_hook_next = 100; vp_deliver(); }
    if (!g_exited && g_sigs_left > 0) { g_sigs_left--; g_hook_next = 100; vp_deliver(); }
  }
  __CPROVER_assert(g_delivered == 3 ==> g_exited, "the third interrupt terminates the process");
  __CPROVER_assert(g_exited ==> g_delivered >= 3, "the process is not terminated before the third interrupt");
  VP_REACH("end");
}
'''

H_DTOR = '''
void harness(void) {
  vp_common();
  g_inst_int = g_inst_term = 1;
  signal_message_ptr_ = g_msg; signal_message_size_ = g_msg_len;
  stop_ = nondet_int(); __CPROVER_assume(0 <= stop_ && stop_ <= 2);
  int c1 = nondet_int(); __CPROVER_assume(0 <= c1 && c1 <= 2);
  void *d1 = (void *)(size_t)nondet_unsigned();
  vp_in_f1 = c1; vp_in_d1 = (unsigned)(size_t)d1;
  handler_ = vp_pick(c1); data_ = d1;
  g_legal_f[0] = vp_pick(c1); g_legal_d[0] = d1; g_nlegal = 1;     /* while being destroyed the registration is still legal */
  vp_dtor();
  if (g_exited) return;
  /* the object (and its message_ string) is gone now */
  free(g_msg); g_msg_alive = 0; g_nlegal = 0;
  int inv = g_inv_count; g_wrote_any = 0;
  __CPROVER_assert(Stop(), "after teardown the stop query is true");
  if (g_sigs_left > 0) {
    g_sigs_left--; g_hook_next = 100; vp_deliver();
    if (!g_exited) {
      __CPROVER_assert(g_inv_count == inv, "a signal after destruction calls no callback");
      __CPROVER_assert(g_wrote_any == 0, "a signal after destruction writes nothing of the destroyed message");
    }
  }
  VP_REACH("end");
}
'''


def harnesses(tier, seed):
    hs = [hsi_harness()]
    hs.append(sched_harness('SetHandler.schedules', H_SET, [set_fn, stop_fn], 'set',
                            note='1..3 signals at any statement boundary of SetHandler, symbolic old and new registration'))
    hs.append(sched_harness('ctor.schedules', H_CTOR, [ctor_fn, stop_fn], 'ctor',
                            note='1..3 signals at any statement boundary of the constructor once the handler is installed'))
    hs.append(sched_harness('third.signal', H_THIRD, [ctor_fn, set_fn, stop_fn], 'third',
                            note='three signals at any points of construction, registration and solving'))
    hs.append(sched_harness('dtor.schedules', H_DTOR, [dtor_fn, stop_fn], 'dtor',
                            note='signals during and after teardown'))
    return hs
