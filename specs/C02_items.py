"""C02 (continued) - NLReader item readers that are templates over handler types: ReadInitialValues, ReadColumnSizes,
ReadSuffixValues, ReadBounds, ConHandler::num_items and the computation of num_vars_and_exprs_.

The handler objects (R9/R15) become free functions that ASSERT the property's clause at the real call site ("index inside
the declared range of its item class") and count the notifications ("every announced number is followed by exactly that
many").  The leaf reader is used only through its proved contracts (values >= 0, any double, any char).
"""
from vp.extract import Fn
from vp.run import Harness

NLR = 'include/mp/nl-reader.h'

ITEM_PRE = '''
#include "mp_shim.h"
#include <math.h>
int vp_one;
#define VP_MAY_THROW_ReadError 1
#define reader_ReportError(...) VP_THROW(ReadError)
/* the leaf reader (text or binary): contracts proved by C02.text.* / C02.binary.*; no cursor state is needed at this level */
_Bool g_midline;      /* ghost: a record was started on the current line and not yet finished with ReadTillEndOfLine */
static int reader_ReadUInt(void) { int v = nondet_int(); __CPROVER_assume(v >= 0); g_midline = 1; return v; }
static int reader_ReadInt_int(void) { g_midline = 1; return nondet_int(); }
static double reader_ReadDouble(void) { g_midline = 1; return nondet_double(); }
static char reader_ReadChar(void) {
  __CPROVER_assert(!g_midline, "a record starts at the beginning of a line: the previous record was consumed up to its end of line");
  g_midline = 1; return nondet_char(); }
static void reader_ReadTillEndOfLine(void) { g_midline = 0; }
/* NLReader::ReadUInt(ub) / ReadUInt(lb, ub): contracts proved by C02.NLReader.ReadUInt_* */
static int ReadUInt1(unsigned ub) { int v = nondet_int(); __CPROVER_assume(v >= 0 && (unsigned)v < ub); g_midline = 1; return v; }
static int ReadUInt2(unsigned lb, unsigned ub) { int v = nondet_int(); __CPROVER_assume(v >= 0 && lb <= (unsigned)v && (unsigned)v < ub); g_midline = 1; return v; }
/* overloads of NLReader::ReadUInt selected by the number of arguments */
#define VP_SEL2(_1, _2, NAME, ...) NAME
#define ReadUInt(...) VP_SEL2(__VA_ARGS__, ReadUInt2, ReadUInt1)(__VA_ARGS__)
struct { int num_vars, num_algebraic_cons, num_logical_cons, num_objs; int num_common_exprs_in_both, num_common_exprs_in_cons,
  num_common_exprs_in_objs, num_common_exprs_in_single_cons, num_common_exprs_in_single_objs; } header_;
int num_vars_and_exprs_;
int g_items;          /* num_items() of the item class being read */
int g_count;          /* ghost: number of notifications delivered to the handler */
#define ITEM_OK(i) __CPROVER_assert(0 <= (i) && (i) < g_items, "index reported to the handler is inside the declared range of its item class")
'''
HANDLE2 = [(r'\b(reader_|handler_)\.(?:template\s+)?', r'\1', -1)]


def h_total():
    parts = [ITEM_PRE,
             Fn(NLR, r'num_vars_and_exprs_ = header_\.num_vars \+', 'void vp_total(void)',
                block_end=r'header_\.num_common_exprs_in_single_objs;',
                contract='__CPROVER_requires(header_.num_vars >= 0 && header_.num_common_exprs_in_both >= 0 && header_.num_common_exprs_in_cons >= 0 && '
                         'header_.num_common_exprs_in_objs >= 0 && header_.num_common_exprs_in_single_cons >= 0 && header_.num_common_exprs_in_single_objs >= 0 && '
                         '(long)header_.num_vars + header_.num_common_exprs_in_both + header_.num_common_exprs_in_cons + header_.num_common_exprs_in_objs + '
                         'header_.num_common_exprs_in_single_cons + header_.num_common_exprs_in_single_objs <= INT_MAX) '
                         '__CPROVER_ensures(num_vars_and_exprs_ >= header_.num_vars) __CPROVER_assigns(num_vars_and_exprs_)',
                label='mp::internal::NLReader::Read [num_vars_and_exprs_]'),
             '''void harness(void) { vp_one = 1; header_.num_vars = nondet_int(); header_.num_common_exprs_in_both = nondet_int(); header_.num_common_exprs_in_cons = nondet_int();
  header_.num_common_exprs_in_objs = nondet_int(); header_.num_common_exprs_in_single_cons = nondet_int(); header_.num_common_exprs_in_single_objs = nondet_int();
  vp_total(); VP_REACH("normal return"); }
''']
    return Harness('C02.NLReader.num_vars_and_exprs', 'C02', parts, enforce='vp_total',
                   note='precondition = postcondition of ReadHeader (accumulated counts fit in int)')


def h_initial_values():
    parts = [ITEM_PRE, '''
static int vh_num_items(void) { return g_items; }
static void vh_SetInitialValue(int index, double v) { ITEM_OK(index); g_count++; }
''',
             Fn(NLR, r'void NLReader<Reader, Handler>::ReadInitialValues\(\)', 'void ReadInitialValues(void)',
                contract='__CPROVER_requires(g_items >= 0 && g_count == 0) __CPROVER_ensures(g_count >= 0 && g_count <= g_items && !g_midline) __CPROVER_assigns(g_count, g_midline)',
                subst=[(r'ValueHandler vh\(\*this\);', '', 1), (r'\bvh\.', 'vh_', -1)] + HANDLE2,
                loops={0: '__CPROVER_assigns(i, g_count, g_midline) __CPROVER_loop_invariant(0 <= i && i <= num_values && g_count == i && !g_midline) __CPROVER_decreases(num_values - i)'},
                label='mp::internal::NLReader::ReadInitialValues<ValueHandler>', nmatches=1),
             'void harness(void) { vp_one = 1; g_items = nondet_int(); g_count = 0; g_midline = 1; ReadInitialValues(); VP_REACH("normal return"); }\n']
    return Harness('C02.NLReader.ReadInitialValues', 'C02', parts, enforce='ReadInitialValues', loop_contracts=True, expect_loop_obligations=1,
                   stubs=['ValueHandler::SetInitialValue (asserts the index range, counts)'])


def h_column_sizes(cum):
    parts = [ITEM_PRE, '#define CUMULATIVE %d\n' % cum, '''
static void size_handler_Add(int size) { __CPROVER_assert(size >= 0, "column size reported to the handler is non-negative"); g_count++; }
''',
             Fn(NLR, r'void NLReader<Reader, Handler>::ReadColumnSizes\(\)', 'void ReadColumnSizes(void)',
                contract='__CPROVER_requires(header_.num_vars >= 1 && g_count == 0) __CPROVER_ensures(g_count == header_.num_vars - 1 && !g_midline) __CPROVER_assigns(g_count, g_midline)',
                subst=HANDLE2 + [(r'Handler::ColumnSizeHandler size_handler = handler_OnColumnSizes\(\);', '', 1), (r'size_handler\.Add\(', 'size_handler_Add(', 1)],
                loops={0: '__CPROVER_assigns(i, prev_size, g_count, g_midline) __CPROVER_loop_invariant(0 <= i && i <= num_sizes && g_count == i && prev_size >= 0 && !g_midline) __CPROVER_decreases(num_sizes - i)'},
                label='mp::internal::NLReader::ReadColumnSizes<CUMULATIVE>', inst='CUMULATIVE=%s' % bool(cum), nmatches=1),
             'void harness(void) { vp_one = 1; header_.num_vars = nondet_int(); g_count = 0; g_midline = 1; ReadColumnSizes(); VP_REACH("normal return"); }\n']
    return Harness('C02.NLReader.ReadColumnSizes.%s' % ('cumulative' if cum else 'plain'), 'C02', parts, enforce='ReadColumnSizes',
                   loop_contracts=True, expect_loop_obligations=1, stubs=['ColumnSizeHandler::Add (asserts size >= 0, counts)'])


def h_suffix_values():
    parts = [ITEM_PRE, '''
static double read_value(void) { return nondet_double(); }
static void handler_SetValue(int index, double v) { ITEM_OK(index); g_count++; }
''',
             Fn(NLR, r'void ReadSuffixValues\(int num_values, int num_items, SuffixHandler &handler\)', 'void ReadSuffixValues(int num_values, int num_items)',
                contract='__CPROVER_requires(num_items == g_items && num_items >= 0 && num_values >= 0 && g_count == 0 && !g_midline) __CPROVER_ensures(g_count == num_values && !g_midline) __CPROVER_assigns(g_count, g_midline)',
                subst=[(r'ValueReader read;', '', 1), (r'read\(reader_\)', 'read_value()', 1), (r'handler\.SetValue\(', 'handler_SetValue(', 1)] + HANDLE2,
                loops={0: '__CPROVER_assigns(i, g_count, g_midline) __CPROVER_loop_invariant(0 <= i && i <= num_values && g_count == i && !g_midline) __CPROVER_decreases(num_values - i)'},
                label='mp::internal::NLReader::ReadSuffixValues', nmatches=1),
             'void harness(void) { vp_one = 1; g_items = nondet_int(); g_count = 0; g_midline = 0; ReadSuffixValues(nondet_int(), g_items); VP_REACH("normal return"); }\n']
    return Harness('C02.NLReader.ReadSuffixValues', 'C02', parts, enforce='ReadSuffixValues', loop_contracts=True, expect_loop_obligations=1,
                   stubs=['SuffixHandler::SetValue (asserts the index range, counts)'])


def h_bounds(con):
    parts = [ITEM_PRE,
             'enum { VAR = 0, CON = 1 };\n#define BoundHandler_TYPE %s\nenum { ComplInfo_INF_UB = 1, ComplInfo_INF_LB = 2 };   /* mp::ComplInfo (common.h) */\n' % ('CON' if con else 'VAR'),
             '''
static int bh_num_items(void) { return g_items; }
static void bh_SetBounds(int index, double lb, double ub) { ITEM_OK(index); g_count++; }
static void handler_OnComplementarity(int con_index, int var_index, int info) {
  ITEM_OK(con_index);
  __CPROVER_assert(0 <= var_index && var_index < header_.num_vars, "complementarity refers to a variable inside the declared range");
  g_count++;
}
''',
             Fn(NLR, r'void NLReader<Reader, Handler>::ReadBounds\(\)', 'void ReadBounds(void)',
                contract='__CPROVER_requires(g_items >= 0 && header_.num_vars >= 0 && g_count == 0) __CPROVER_ensures(g_count == g_items && !g_midline) __CPROVER_assigns(g_count, g_midline)',
                subst=[(r'BoundHandler bh\(\*this\);', '', 1), (r'\bbh\.', 'bh_', -1), (r'BoundHandler::TYPE', 'BoundHandler_TYPE', 1),
                       (r'ComplInfo\(flags & mask\)', '(flags & mask)', 1)] + HANDLE2,
                loops={0: '__CPROVER_assigns(i, lb, ub, g_count, g_midline) __CPROVER_loop_invariant(0 <= i && i <= num_bounds && g_count == i && num_bounds == g_items && !g_midline) __CPROVER_decreases(num_bounds - i)'},
                label='mp::internal::NLReader::ReadBounds<BoundHandler>', inst='BoundHandler::TYPE=%s' % ('CON' if con else 'VAR'), nmatches=1),
             'void harness(void) { vp_one = 1; g_items = nondet_int(); header_.num_vars = nondet_int(); g_count = 0; g_midline = 1; ReadBounds(); VP_REACH("normal return"); }\n']
    return Harness('C02.NLReader.ReadBounds.%s' % ('con' if con else 'var'), 'C02', parts, enforce='ReadBounds', loop_contracts=True,
                   expect_loop_obligations=1, stubs=['BoundHandler::SetBounds / Handler::OnComplementarity (assert index ranges, count)'])


def h_con_items():
    parts = ['#include "mp_shim.h"\nint vp_one;\nstruct { struct { int num_algebraic_cons, num_logical_cons; } header_; } reader_;\n',
             Fn(NLR, r'int num_items\(\) const \{\s*return this->reader_\.header_\.num_algebraic_cons \+', 'int ConHandler_num_items(void)',
                contract='__CPROVER_requires(reader_.header_.num_algebraic_cons >= 0 && reader_.header_.num_logical_cons >= 0 && '
                         '(long)reader_.header_.num_algebraic_cons + reader_.header_.num_logical_cons <= INT_MAX) '   # postcondition of ReadHeader
                         '__CPROVER_ensures(__CPROVER_return_value >= 0) __CPROVER_assigns()',
                label='mp::internal::NLReader::ConHandler::num_items', nmatches=1),
             'void harness(void) { vp_one = 1; reader_.header_.num_algebraic_cons = nondet_int(); reader_.header_.num_logical_cons = nondet_int(); ConHandler_num_items(); VP_REACH("normal return"); }\n']
    return Harness('C02.NLReader.ConHandler.num_items', 'C02', parts, enforce='ConHandler_num_items')


def harnesses():
    return [h_total(), h_initial_values(), h_column_sizes(1), h_column_sizes(0), h_suffix_values(), h_bounds(1), h_bounds(0), h_con_items()]
