"""C06 (continued) - propagation of a result box down to the arguments (include/mp/flat/constr_prop_down.h): the box handed to the arguments of
a logical constraint never cuts off a value an argument can take while the constraint has a value in its own box.
  And: a conjunction that must be true (lb > 0.5) forces every argument true, nothing else is implied: the arguments get [lb, 1];
  Or : a disjunction that must be false (ub <= 0.5) forces every argument false: the arguments get [0, ub];
  Not: the argument gets the mirrored box [1 - ub, 1 - lb].
The result variable itself is narrowed to [lb, ub].  Contexts are not decided here."""
from vp.extract import Fn
from vp.run import Harness

PD = 'include/mp/flat/constr_prop_down.h'

PRE = '''
#include "mp_shim.h"
int vp_one;
int g_resvar, g_arg0; int g_narrowed; double g_nl, g_nu; int g_prop; double g_pl, g_pu; int g_decr;
#define VP_MPD(x) x
static int con_GetResultVar(void) { return g_resvar; }
static void con_AddContext(int ctx) { }
static int con_GetArguments(void) { return 1; }
static int con_GetArguments_0(void) { return g_arg0; }
static void NarrowVarBounds(int v, double lb, double ub) { __CPROVER_assert(v == g_resvar, "the result variable is narrowed"); g_narrowed++; g_nl = lb; g_nu = ub; }
static void PropagateResult2Vars(int args, double lb, double ub, int ctx) { g_prop++; g_pl = lb; g_pu = ub; }
static void PropagateResultOfInitExpr(int v, double lb, double ub, int ctx) { __CPROVER_assert(v == g_arg0, "the argument of the negation"); g_prop++; g_pl = lb; g_pu = ub; }
static void DecrementVarUsage(int v) { g_decr++; }
'''
SUB = [(r'MPD\(\s*', 'VP_MPD(', -1), (r'con\.GetResultVar\(\)', 'con_GetResultVar()', -1), (r'con\.AddContext\(ctx\);', 'con_AddContext(ctx);', 1),
       (r'con\.GetArguments\(\)\[0\]', 'con_GetArguments_0()', -1), (r'con\.GetArguments\(\)', 'con_GetArguments()', -1), (r'[+-]ctx\b', 'ctx', -1)]
REQ = '__CPROVER_requires(lb == lb && ub == ub && lb >= 0.0 && ub <= 1.0 && lb <= ub && g_narrowed == 0 && g_prop == 0 && g_decr == 0) '
ASG = ' __CPROVER_assigns(g_narrowed, g_nl, g_nu, g_prop, g_pl, g_pu, g_decr)'
COMMON = '__CPROVER_ensures(g_narrowed == 1 && g_nl == lb && g_nu == ub && g_prop == 1) '


def h(kind, ens):
    parts = [PRE, Fn(PD, r'void PropagateResult\(%sConstraint& con, double lb, double ub, Context ctx\)' % kind, 'void PropagateResult_%s(double lb, double ub, int ctx)' % kind,
                     contract=REQ + COMMON + ens + ASG, subst=SUB, label='mp::ConstraintPropagatorsDown::PropagateResult(%sConstraint&)' % kind, nmatches=1),
             'void harness(void) { vp_one = 1; g_narrowed = 0; g_prop = 0; g_decr = 0; g_resvar = nondet_int(); g_arg0 = nondet_int(); PropagateResult_%s(nondet_double(), nondet_double(), nondet_int()); VP_REACH("normal return"); }\n' % kind]
    return Harness('C06.PropagateResult.' + kind, 'C06', parts, enforce='PropagateResult_' + kind,
                   stubs=['NarrowVarBounds / PropagateResult2Vars / PropagateResultOfInitExpr / DecrementVarUsage (ghost records)', 'contexts (dropped)'])


def harnesses():
    return [
        # the arguments of a conjunction: forced true only as far as the conjunction is (lower end lb), never forced false by its value (upper end 1)
        h('And', '__CPROVER_ensures(g_pl <= lb && g_pu >= 1.0) __CPROVER_ensures(lb > 0.5 ==> g_pl == lb)'),
        # the arguments of a disjunction: forced false only as far as the disjunction is (upper end ub), never forced true by its value (lower end 0)
        h('Or', '__CPROVER_ensures(g_pl <= 0.0 && g_pu >= ub) __CPROVER_ensures(ub <= 0.5 ==> g_pu == ub)'),
        h('Not', '__CPROVER_ensures(g_pl == 1.0 - ub && g_pu == 1.0 - lb)'),
    ]
