"""C05 - SOL write/read: the message clause (src/sol.cc internal::WriteMessage).

The .sol text format ends the solve message at the first empty line.  WriteMessage must therefore (a) emit the
message bytes in order, (b) never emit an empty line before the whole message has been written - an empty message
line is written as " " - and (c) end with the empty terminator line, after which only newlines may follow (the
reader skips further '\\n' / '\\r').  fputc / fwrite are stubs that drive a ghost model of the output:
g_src (next message byte to be emitted), g_col0 (output is at a line start), g_term (terminator emitted).
"No newline inside a written chunk" is stated for an arbitrary witness position g_wp of the message.
"""
from vp.extract import Fn
from vp.run import Harness

SOL = 'src/sol.cc'

META = {
    'decides': 'for every NUL-terminated message of any length: all reads stay inside it; the bytes written are the message '
               'bytes in order plus one inserted space per empty line; no empty line is written before the whole message has '
               'been written; the output ends with the empty terminator line and only newlines follow it',
    'not_decided': "number formatting itself ({:.16} in fmt vs strtod: DBL_MAX is printed rounded up and read back as Infinity - observation in DESIGN.md 9.5), the binary .sol form (no binary writer in the library), two recorded known findings (fewer than 3 options; vbtol form); the reader's memory safety is C14",
    'not_under_contract': ['fmt number formatting', 'SolutionAdapter accessors (C10)', 'the SOLHandler implementation'],
    'assumptions': ['fputc / fwrite always succeed and write exactly the bytes passed (ghost output model)'],
    'trusted_base': ['ghost output model in specs/C05.py'],
}

PRE = '''
#include "stdio_stubs.h"
int vp_one;
const char *g_src; int g_col0, g_term; const char *g_wp;
void vp_emit_msg_bytes(const char *p, size_t n) {
  __CPROVER_assert(!g_term, "nothing of the message is written after the terminator line");
  __CPROVER_assert(p == g_src, "written chunk starts at the next unwritten message byte");
  __CPROVER_assert(n == 0 || __CPROVER_r_ok(p, n), "written chunk is inside the message");
  __CPROVER_assert(!(p <= g_wp && g_wp < p + n) || (*g_wp != '\\n' && *g_wp != 0), "a written chunk contains no newline / NUL (it is one line)");
  g_src += n; if (n) g_col0 = 0;
}
void vp_fputc(int c) {
  if (g_term) { __CPROVER_assert(c == '\\n', "after the terminator line only newlines are written"); return; }
  if (c == ' ') { __CPROVER_assert(g_col0 && *g_src == '\\n', "a space is inserted only for an empty message line"); g_col0 = 0; return; }
  __CPROVER_assert(c == '\\n', "only ' ' and newline are written with fputc");
  if (g_col0) {
    __CPROVER_assert(*g_src == 0, "an empty line is written only when the whole message has been written");
    g_term = 1; return;
  }
  if (*g_src == '\\n') g_src++;
  else __CPROVER_assert(*g_src == 0, "a newline ends a line of the message (or the added final line end)");
  g_col0 = 1;
}
#define fputc(c, f) vp_fputc(c)
#define fwrite(p, s, n, f) vp_emit_msg_bytes((p), (size_t)(n))
'''

WP = '((line_start <= g_wp && g_wp < line_end) ==> (*g_wp != \'\\n\' && *g_wp != 0))'


def wm_fn():
    return Fn(SOL, r'void mp::internal::WriteMessage\(fmt::BufferedFile &file, const char \*message\)',
              'void WriteMessage(const char *message)',
              contract='__CPROVER_requires(VP_NUL_AT_OR_AFTER(message) && g_src == message && g_col0 == 1 && g_term == 0 && '
                       '__CPROVER_same_object(g_wp, message) && __CPROVER_POINTER_OFFSET(g_wp) <= __CPROVER_POINTER_OFFSET(g_nul_ptr)) '
                       '__CPROVER_ensures(g_term == 1 && *g_src == 0) __CPROVER_assigns(g_src, g_col0, g_term)',
              subst=[(r'file\.get\(\)', '0', -1)],
              loops={0: '__CPROVER_assigns(line_start, g_src, g_col0, g_term) __CPROVER_loop_invariant(VP_NUL_AT_OR_AFTER(line_start) && '
                        'line_start == g_src && g_col0 == 1 && g_term == 0)',
                     1: '__CPROVER_assigns(line_end) __CPROVER_loop_invariant(VP_NUL_AT_OR_AFTER(line_end) && '
                        '__CPROVER_POINTER_OFFSET(line_end) >= __CPROVER_POINTER_OFFSET(line_start) && ' + WP + ') '
                        '__CPROVER_decreases(__CPROVER_POINTER_OFFSET(g_nul_ptr) - __CPROVER_POINTER_OFFSET(line_end))'},
              label='mp::internal::WriteMessage', nmatches=1)


_drv = [None]


def replay(lead, inputs, obs):
    import subprocess
    from vp import native
    if _drv[0] is None:
        _drv[0] = native.build_driver('c05_replay.cc', 'c05_replay', native.MP_SOURCES, ['-O0'])[0]
    p = subprocess.run([_drv[0]], capture_output=True, text=True, timeout=300)
    return p.returncode == 10, (p.stdout + p.stderr)[-2000:], _drv[0]


def harnesses(tier, seed):
    parts = [PRE, wm_fn(), '''
void harness(void) {
  vp_one = 1;
  size_t n = nondet_size_t(); __CPROVER_assume(n >= 1 && n <= 100000);
  char *m = vp_malloc(n); m[n - 1] = 0;
  size_t z = nondet_size_t(); __CPROVER_assume(z < n && m[z] == 0);     /* the first NUL of the message is at or before z */
  g_nul_ptr = m + z;
  size_t w = nondet_size_t(); __CPROVER_assume(w <= z); g_wp = m + w;   /* arbitrary witness position */
  g_src = m; g_col0 = 1; g_term = 0;
  WriteMessage(m);
  VP_REACH("normal return");
}
''']
    from specs import C05_writer
    return C05_writer.harnesses() + [Harness('C05.WriteMessage', 'C05', parts, enforce='WriteMessage', loop_contracts=True, expect_loop_obligations=2,
                    stubs=['fputc / fwrite (ghost output model)'], timeout=600, replay=replay)]
