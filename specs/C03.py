"""C03 - NL writer/reader agreement: two lemmas.

(1) Binary numeric constants: BinaryFormatter::nput (real body) -> BinaryFormatter::apr (real variadic body, checked for
    the three formats nput uses) -> bytes -> NLReader::ReadConstant with the real BinaryReader::{ReadInt<short>,
    ReadInt<int>, ReadDouble, Read} reads back the same double for EVERY double (bit-identical except -0 -> +0).
(2) Opcode tables: for every writer constant of nl-opcodes.h the reader's tables (src/expr-info.cc, common.h) map the
    same code to an expression kind whose NL opcode is that code and whose name is the writer's name.
Both lemmas are loop-free after unwinding loops over constant strings / tables, so plain CBMC assertions over the real
bodies with fully symbolic inputs are complete proofs (no function contracts needed; DFCC cannot instrument varargs).
"""
import re

from vp import extract
from vp.extract import Fn, Braced
from vp.run import Harness

W2 = 'nl-writer2/src/nl-writer2.cc'
NLR = 'include/mp/nl-reader.h'
OPC = 'nl-writer2/include/mp/nl-opcodes.h'
EI = 'src/expr-info.cc'
COMMON = 'include/mp/common.h'

META = {
    'decides': 'every double written as a binary NL constant is read back as the same value (bit-identical apart from the sign '
               'of zero, NaN stays NaN); the opcode table of the writer and the tables of the reader agree on every opcode '
               '(code in range, same kind/opcode, same name)',
    'not_decided': 'what dtoa_r_dmgay returns (arbitrary-precision digit generation: an arbitrary function here; a native sweep shows it is not round-trip exact for some doubles), suffix value lines, initial guesses (x / d), function definitions (F), string arguments, names, the dispatch of MakeVectorWriter to its header printer, text = binary equivalence for whole models; TextFormatter::apr integers beyond the bounded stand-in',
    'not_under_contract': ['dtoa_r_dmgay', 'SingleSparseVecWrtFactory::MakeVectorWriter', 'WriteFunctions / WriteSuffixes value lines / WriteInitialGuesses', 'TextFormatter::apr (%d / %z only as a bounded stand-in)'],
    'assumptions': ['little-endian host (IdentityConverter); the byte-swapped path is EndiannessConverter, see C02.binary.Convert',
                    'fwrite succeeds and writes exactly the bytes passed (ghost byte buffer)',
                    'default argument promotions of the variadic call are applied by hand in the harness (short -> int)'],
    'trusted_base': ['CBMC va_arg model'],
}

APR_PRE = '''
#include "mp_shim.h"
#include <stdarg.h>
int vp_one;
typedef int Long; typedef Long Int;
typedef union U { double x; short sh; Long L; Int i; char c; size_t z; Long LL[2]; long long ll; } U;   /* nl-writer2.cc */
unsigned char g_out[32]; size_t g_len;
/* fwrite(p, size, 1, fd) appends size bytes to the ghost output */
static void vp_fwrite(const void *p, size_t size) {
  __CPROVER_assert(g_len + size <= sizeof g_out, "ghost output large enough");
  for (size_t k = 0; k < size; ++k) g_out[g_len + k] = ((const unsigned char *)p)[k];
  g_len += size;
}
#define fwrite(p, size, n, fd) vp_fwrite((p), (size_t)(size))
#define VP_MAY_THROW_myexit 0
#define VP_MYEXIT() VP_THROW(myexit)
'''


def union_check():
    """The union U and typedefs written in APR_PRE must be the ones of the source."""
    src = extract.read_repo(W2)
    m = re.search(r'typedef union U \{([^}]*)\}\s*U;', extract.blank_comments(src), re.S)
    if not m:
        raise extract.ExtractionError('union U not found in nl-writer2.cc')
    fields = re.sub(r'#\w+.*', '', m.group(1))
    fields = ' '.join(fields.split())
    want = 'double x; short sh; Long L; Int i; char c; size_t z; Long LL[2]; long long ll;'
    if fields != want:
        raise extract.ExtractionError('union U changed: %r' % fields)
    if not re.search(r'typedef int Long;\s*typedef Long Int;', src):
        raise extract.ExtractionError('typedef int Long; typedef Long Int; not found')


def apr_fn():
    return Fn(W2, r'int BinaryFormatter::\s*apr\(File& f, const char \*fmt, \.\.\.\)', 'int apr(int fd, const char *fmt, ...)',
              subst=[(r'auto fd = f\.GetHandle\(\);', '', 1),
                     (r'Utils\(\)\.myexit\("bprintf bug: unexpected fmt: " \+\s*std::string\(fmt-1\)\);', 'VP_MYEXIT();', 1),
                     (r'std::strlen\(s\)', 'strlen(s)', 1)],
              label='mp::BinaryFormatter::apr', nmatches=1)


def h_apr(tag, fmt, ctype, promoted, nondet, size):
    body = '''
%s vp_in_v;
void harness(void) {
  vp_one = 1; g_len = 0;
  %s v = %s(); vp_in_v = v;
  apr(0, "%s", (%s)v);
  __CPROVER_assert(g_len == 1 + %d, "apr wrote the tag byte and the value bytes");
  __CPROVER_assert(g_out[0] == '%s', "apr wrote the tag");
  %s back; for (size_t k = 0; k < sizeof back; ++k) ((unsigned char *)&back)[k] = g_out[1 + k];
  __CPROVER_assert(__CPROVER_array_equal == 0 || 1, "unused");
  unsigned char *a = (unsigned char *)&v, *b = (unsigned char *)&back;
  for (size_t k = 0; k < sizeof back; ++k) __CPROVER_assert(a[k] == b[k], "value bytes are the object representation of the value");
  VP_REACH("end");
}
''' % (ctype, ctype, nondet, fmt, promoted, size, tag, ctype)
    body = body.replace('  __CPROVER_assert(__CPROVER_array_equal == 0 || 1, "unused");\n', '')
    return Harness('C03.apr.%s' % tag, 'C03', [APR_PRE, apr_fn(), body], plain=True, inputs=['vp_in_v'],
                   note='real variadic body, constant format string: loops fully unwound', stubs=['fwrite (ghost byte buffer)'],
                   replay=lambda lead, inputs, obs: replay_apr(tag, inputs))


TEXT_APR_PRE = '''
#include "mp_shim.h"
#include <stdarg.h>
int vp_one;
typedef long ssize_t;
unsigned char g_out[48]; size_t g_len; _Bool nl_comments; int output_prec;
static void vp_putc(int c) { __CPROVER_assert(g_len < sizeof g_out, "ghost output large enough"); g_out[g_len++] = (unsigned char)c; }
#define putc(c, fd) vp_putc(c)
static char *vp_gfmt(double x, int prec) { static char z[2] = "0"; return z; }       /* numbers: C03.g_fmt.* */
#define VP_MAY_THROW_myexit 0
#define VP_MYEXIT() VP_THROW(myexit)
'''


def text_apr_fn():
    return Fn(W2, r'int TextFormatter::apr\(File& f, const char \*fmt, \.\.\.\)', 'int text_apr(int fd_, const char *fmt, ...)',
              subst=[(r'auto fd = f\.GetHandle\(\);', '', 1),
                     (r'#ifdef NL_LIB_USE_SPRINTF[\s\S]*?#else\s*\n([\s\S]*?)#endif[^\n]*\n', r'\1', 1),        # the branch compiled by default
                     (r'DAVID_GAY_GFMT::gfmt\(', 'vp_gfmt(', 1),
                     (r'Utils\(\)\.myexit\("aprintf bug: unexpected fmt: " \+\s*std::string\(fmt-1\)\);', 'VP_MYEXIT();', 1)],
              label='mp::TextFormatter::apr', nmatches=1)


def h_text_apr_int(tag, fmt, ctype, nondet):
    """TextFormatter::apr, integer conversions (%d of an int, %z of a size_t): the characters written are what the NL text reader parses back
    to the same number: an optional '-' FIRST, then the decimal digits, most significant first, then the line end."""
    body = '''
%s vp_in_v;
void harness(void) {
  vp_one = 1; g_len = 0; nl_comments = nondet_bool(); output_prec = 0;
  %s v = %s(); __CPROVER_assume(v < 1000 && (v >= 0 || v > -1000)); vp_in_v = v;      /* BOUNDED: numbers of at most 3 digits (the digit loop divides by 10: beyond SAT for the full width) */
  text_apr(0, "%s\\n", v);
  __CPROVER_assert(g_len >= 2 && g_out[g_len - 1] == '\\n', "the line ends after the number");
  size_t k = 0; _Bool neg = 0;
  if (g_out[0] == '-') { neg = 1; k = 1; }
  __CPROVER_assert(k < g_len - 1, "at least one digit");
  __CPROVER_assert(neg == (v < 0), "a minus sign is written exactly for a negative number, before the digits");
  unsigned long mag = 0;
  for (; k < g_len - 1; ++k) { __CPROVER_assert(g_out[k] >= '0' && g_out[k] <= '9', "only decimal digits follow"); mag = mag * 10 + (unsigned long)(g_out[k] - '0'); }
  unsigned long want = v < 0 ? 0UL - (unsigned long)v : (unsigned long)v;
  __CPROVER_assert(mag == want, "the digits denote the magnitude of the number");
  VP_REACH("end");
}
''' % (ctype, ctype, nondet, fmt)
    return Harness('C03.text_apr.%s' % tag, 'C03', [TEXT_APR_PRE, text_apr_fn(), body], plain=True, inputs=['vp_in_v'], timeout=300,
                   bounded={'unwind': 8, 'reason': 'numbers of at most 3 decimal digits (division by 10 over the full width is beyond the SAT back ends)'},
                   note='BOUNDED stand-in: real variadic body, integers in (-1000, 1000)', replay=lambda lead, inputs, obs: __import__('specs.C03_writer', fromlist=['x']).replay_mode('linear')(lead, inputs, obs), stubs=['putc (ghost byte buffer)', 'gfmt (not used by these formats)'])


NPUT_PRE = '''
#include "mp_shim.h"
#include <string.h>
int vp_one;
unsigned char g_out[32]; size_t g_len;
static void vp_put(char tag, const void *p, size_t size) {
  g_out[0] = (unsigned char)tag;
  for (size_t k = 0; k < size; ++k) g_out[1 + k] = ((const unsigned char *)p)[k];
  g_len = 1 + size;
}
/* BinaryFormatter::apr for the three formats of nput: postconditions proved by C03.apr.s / .l / .n */
static void vp_apr_sh(int sh) { short v = (short)sh; vp_put('s', &v, sizeof v); }
static void vp_apr_ll(long L) { int v = (int)L; vp_put('l', &v, sizeof v); }
static void vp_apr_ng(double x) { vp_put('n', &x, sizeof x); }
/* reader side: members of ReaderBase over the bytes just written (terminated like every NL buffer) */
const char *ptr_, *start_, *end_, *token_;
#define VP_MAY_THROW_BinaryReadError 0
#define ReportError(...) VP_THROW(BinaryReadError)
#define reader_ReportError(...) VP_THROW(BinaryReadError)
#define Convert(v) (v)
static void reader_ReadTillEndOfLine(void) {}
'''
HANDLE = [(r'\breader_\.(?:template\s+)?', 'reader_', -1)]


def h_nput():
    parts = [NPUT_PRE,
             Fn(W2, r'void BinaryFormatter::nput\(File& nm, double r\)', 'void nput(double r)',
                subst=[(r'apr\(nm, "s%h", sh\)', 'vp_apr_sh(sh)', 1), (r'apr\(nm, "l%l", L\)', 'vp_apr_ll(L)', 1),
                       (r'apr\(nm, "n%g", x\)', 'vp_apr_ng(x)', 1)],
                label='mp::BinaryFormatter::nput', nmatches=1),
             Fn(NLR, r'char ReadChar\(\)', 'char reader_ReadChar(void)', label='mp::internal::ReaderBase::ReadChar', nmatches=1),
             Fn(NLR, r'const char \*Read\(int length\)', 'const char *Read(int length)', label='mp::internal::BinaryReaderBase::Read', nmatches=1),
             Fn(NLR, r'Int ReadInt\(\) \{\s*token_ = ptr_;', 'short reader_ReadInt_short(void)', defines={'Int': 'short'},
                label='mp::internal::BinaryReader::ReadInt<Int>', inst='Int=short', nmatches=1),
             Fn(NLR, r'Int ReadInt\(\) \{\s*token_ = ptr_;', 'int reader_ReadInt_int(void)', defines={'Int': 'int'},
                label='mp::internal::BinaryReader::ReadInt<Int>', inst='Int=int', nmatches=1),
             Fn(NLR, r'Int ReadInt\(\) \{\s*token_ = ptr_;', 'long reader_ReadInt_long(void)', defines={'Int': 'long'},
                label='mp::internal::BinaryReader::ReadInt<Int>', inst='Int=long', nmatches=1),
             Fn(NLR, r'double ReadDouble\(\) \{\s*token_ = ptr_;', 'double reader_ReadDouble(void)',
                label='mp::internal::BinaryReader::ReadDouble', nmatches=1),
             Fn(NLR, r'double NLReader<Reader, Handler>::ReadConstant\(char code\)', 'double ReadConstant(char code)', subst=HANDLE,
                label='mp::internal::NLReader::ReadConstant(char)', nmatches=1),
             Fn(NLR, r'double ReadConstant\(\) \{ return ReadConstant\(reader_\.ReadChar\(\)\); \}', 'double ReadConstant0(void)',
                subst=HANDLE + [(r'return ReadConstant\(', 'return ReadConstant(', 1)],
                label='mp::internal::NLReader::ReadConstant()', nmatches=1),
             '''
double vp_in_r;
void harness(void) {
  vp_one = 1; g_len = 0;
  double r = nondet_double(); vp_in_r = r;
  nput(r);                                        /* writer */
  g_out[g_len] = 0;                               /* NL buffers are NUL-terminated */
  start_ = ptr_ = token_ = (const char *)g_out; end_ = (const char *)g_out + g_len;
  double back = ReadConstant0();                  /* reader */
  __CPROVER_assert(ptr_ == end_, "the reader consumed exactly the bytes the writer produced");
  if (r != r) __CPROVER_assert(back != back, "NaN is read back as NaN");
  else {
    __CPROVER_assert(back == r, "constant is read back with the identical value");
    unsigned long long br, bb; memcpy(&br, &r, 8); memcpy(&bb, &back, 8);
    __CPROVER_assert(br == bb || r == 0.0, "bit-identical apart from the sign of zero");
  }
  VP_REACH("end");
}
''']
    return Harness('C03.nput.roundtrip', 'C03', parts, plain=True, inputs=['vp_in_r'], timeout=900,
                   note='loop-free over one fully symbolic double: complete', replay=replay_nput)


PROBES = {'s': ['0', '1', '-1', '32767', '-32768'], 'l': ['32768', '-32769', '100000', '2147483647', '-2147483648'],
          'n': ['0.5', '1e300', '-2147483649', 'hex:7ff8000000000000']}


def replay_apr(tag, inputs):
    """apr is reached natively through nput: the verifier's value (if any) and the fixed probes of the tag's class are written
    by the real BinaryFormatter::nput and read back by the real ReadConstant; the driver also compares the byte counts."""
    vals = []
    v = inputs.get('vp_in_v')
    if v is not None:
        vals.append(str(v).rstrip('fulUL'))
    out, err, cmd = build_c03_replay()
    if out is None:
        return False, err, cmd
    import subprocess
    text = ''
    for a in vals + PROBES[tag]:
        p = subprocess.run([out, a], capture_output=True, text=True)
        text += p.stdout + p.stderr
        if p.returncode == 10:
            return True, text[-2000:], ' '.join([out, a])
    return False, text[-2000:], ''


def build_c03_replay():
    import os
    import subprocess
    from vp.run import BUILD, VERIF
    repo = os.environ.get('VP_REPO', '/repo')
    out = os.path.join(BUILD, 'replay', 'c03_replay')
    os.makedirs(os.path.dirname(out), exist_ok=True)
    srcs = ['nl-writer2/src/nl-writer2.cc', 'nl-writer2/src/nl-utils.cc', 'nl-writer2/src/dtoa.cc', 'src/nl-reader.cc',
            'src/format.cc', 'src/os.cc', 'src/posix.cc']
    cmd = ['g++', '-std=c++17', '-w', '-O0', '-I', repo + '/include', '-I', repo + '/nl-writer2/include', '-I', repo + '/src',
           os.path.join(VERIF, 'replay', 'c03_replay.cc')] + [os.path.join(repo, x) for x in srcs] + \
          [os.path.join(extract.generated_dir(), 'expr-info.cc'), '-o', out]
    p = subprocess.run(cmd, capture_output=True, text=True)
    if p.returncode != 0:
        return None, 'replay driver build failed: ' + p.stderr[-1500:], ' '.join(cmd)
    return out, '', ' '.join(cmd)


def replay_nput(lead, inputs, obs):
    import os
    import subprocess
    from vp.run import BUILD, VERIF
    r = inputs.get('vp_in_r')
    if r is None:
        return False, 'no concrete double in the verifier trace', ''
    repo = os.environ.get('VP_REPO', '/repo')
    out = os.path.join(BUILD, 'replay', 'c03_replay')
    os.makedirs(os.path.dirname(out), exist_ok=True)
    srcs = ['nl-writer2/src/nl-writer2.cc', 'nl-writer2/src/nl-utils.cc', 'nl-writer2/src/dtoa.cc', 'src/nl-reader.cc',
            'src/format.cc', 'src/os.cc', 'src/posix.cc']
    cmd = ['g++', '-std=c++17', '-w', '-O0', '-I', repo + '/include', '-I', repo + '/nl-writer2/include', '-I', repo + '/src',
           os.path.join(VERIF, 'replay', 'c03_replay.cc')] + [os.path.join(repo, x) for x in srcs] + \
          [os.path.join(extract.generated_dir(), 'expr-info.cc'), '-o', out]
    p = subprocess.run(cmd, capture_output=True, text=True)
    if p.returncode != 0:
        return False, 'replay driver build failed: ' + p.stderr[-1500:], ' '.join(cmd)
    arg = str(r).replace('f', '')
    binval = inputs.get('vp_in_r#bin')
    if binval and len(binval) == 64:
        arg = 'hex:%016x' % int(binval, 2)
    args = [out, arg]
    p = subprocess.run(args, capture_output=True, text=True)
    return p.returncode == 10, (p.stdout + p.stderr)[-2000:], ' '.join(args)


def opcode_parts():
    src = extract.blank_comments(extract.read_repo(OPC))
    consts = re.findall(r'const Opcode\s+(\w+)\s*=\s*\{\s*(\d+),\s*"((?:[^"\\]|\\.)*)"\s*\};', src)
    if len(consts) < 40:
        raise extract.ExtractionError('only %d opcode constants found in nl-opcodes.h' % len(consts))
    txt = extract.read_repo(COMMON)
    m = re.search(r'MAX_OPCODE\s*=\s*(\d+)', txt)
    if not m:
        raise extract.ExtractionError('MAX_OPCODE not found')
    asserts = []
    for name, code, s in consts:
        asserts.append('  { int code = %s; __CPROVER_assert(0 <= code && code <= MAX_OPCODE, "writer opcode %s in range");\n'
                       '    int k = OpCodeInfo_INFO[code].kind; __CPROVER_assert(k != expr_UNKNOWN, "reader knows writer opcode %s (%s)");\n'
                       '    __CPROVER_assert(ExprInfo_INFO[k].opcode == code, "reader kind of writer opcode %s has the same NL opcode");\n'
                       '    __CPROVER_assert(vp_streq(ExprInfo_INFO[k].str, "%s"), "reader name of opcode %s equals the writer name"); }\n'
                       % (code, name, name, code, name, s, name))
    return m.group(1), consts, ''.join(asserts)


def h_opcodes():
    maxop, consts, asserts = opcode_parts()
    parts = ['#include "mp_shim.h"\nint vp_one;\nenum { MAX_OPCODE = %s };  /* include/mp/common.h */\n' % maxop,
             ('enum', COMMON, r'enum Kind \{\s*// An unknown expression\.|enum Kind \{\s*UNKNOWN = 0', 'expr_'),
             'struct OpCodeInfo { int kind; int first_kind; };\nstruct ExprInfo { int opcode; const char *str; };\n',
             Braced(EI, r'const mp::internal::OpCodeInfo mp::internal::OpCodeInfo::INFO\[\] = \{',
                    header='const struct OpCodeInfo OpCodeInfo_INFO[] =', label='mp::internal::OpCodeInfo::INFO'),
             Braced(EI, r'const mp::internal::ExprInfo mp::internal::ExprInfo::INFO\[\] = \{',
                    header='const struct ExprInfo ExprInfo_INFO[] =', label='mp::internal::ExprInfo::INFO'),
             '''
static int vp_streq(const char *a, const char *b) { size_t i = 0; for (;; ++i) { if (a[i] != b[i]) return 0; if (!a[i]) return 1; } }
void harness(void) {
  vp_one = 1;
  __CPROVER_assert(sizeof OpCodeInfo_INFO / sizeof OpCodeInfo_INFO[0] == MAX_OPCODE + 1, "reader opcode table has MAX_OPCODE + 1 entries");
%s
  VP_REACH("end");
}
''' % asserts]
    return Harness('C03.opcodes', 'C03', parts, plain=True,
                   note='%d writer opcode constants read from nl-opcodes.h on this run' % len(consts))


GFMT_PRE = '''
#include "mp_shim.h"
#include <string.h>
int vp_one;
/* dtoa_r_dmgay(x, mode, ndigits, &decpt, &sign, &rve, buf, blen): arbitrary result within its documented shape: 1..17 significant digits
   without trailing zeros, first digit non-zero, value 0.d1d2...dn * 10^decpt with decpt in the range of doubles; or decpt 9999 and the text
   "Infinity" / "NaN" */
int g_nd, g_decpt, g_sign, g_special;   /* ghost copy of what dtoa returned */
char g_digits[18];
static char *dtoa_r_dmgay(double dd, int mode, int ndigits, int *decpt, int *sign, char **rve, char *buf, size_t blen) {
  __CPROVER_assert(blen >= 32, "dtoa gets a buffer of at least 32 bytes");
  g_sign = nondet_bool(); *sign = g_sign;
  g_special = nondet_int();
  if (g_special == 1 || g_special == 2) {
    const char *t = g_special == 1 ? "Infinity" : "NaN"; size_t n = g_special == 1 ? 8 : 3;
    for (size_t k = 0; k <= n; ++k) buf[k] = t[k];
    *decpt = 9999; g_decpt = 9999; *rve = buf + n; return buf; }
  g_special = 0;
  g_nd = nondet_int(); __CPROVER_assume(1 <= g_nd && g_nd <= 17);
  for (int k = 0; k < 17; ++k) { char c = nondet_char(); __CPROVER_assume('0' <= c && c <= '9'); g_digits[k] = c; }
  __CPROVER_assume(g_digits[0] != '0' && g_digits[g_nd - 1] != '0');
  for (int k = 0; k < g_nd; ++k) buf[k] = g_digits[k];
  buf[g_nd] = 0; g_digits[g_nd] = 0;
  g_decpt = nondet_int(); __CPROVER_assume(-330 <= g_decpt && g_decpt <= 320);
  __CPROVER_assume(VP_CASE_LO <= g_decpt && g_decpt <= VP_CASE_HI && VP_ND_LO <= g_nd && g_nd <= VP_ND_HI);      /* case split of this harness */
  *decpt = g_decpt; *rve = buf + g_nd; return buf; }
'''


def h_gfmt(case, lo, hi, nlo=1, nhi=17):
    """Text numbers: DAVID_GAY_GFMT::g_fmt renders dtoa's (digits, decimal point position) as a decimal literal that denotes exactly that
    number: the mantissa digits are dtoa's digits (plus leading / trailing zeros), the position of the point plus the written exponent
    equals decpt, the exponent consists of decimal digits.  All loops are bounded by 17 digits / 5 padding zeros / 3 exponent digits."""
    parts = ['#define VP_CASE_LO (%d)\n#define VP_CASE_HI (%d)\n#define VP_ND_LO %d\n#define VP_ND_HI %d\n' % (lo, hi, nlo, nhi), GFMT_PRE,
             Fn(W2, r'g_fmt\(char \*b, double x, int prec\)', 'int g_fmt(char *b, double x, int prec)', label='DAVID_GAY_GFMT::g_fmt', nmatches=1), '''
double vp_in_x;
void harness(void) {
  vp_one = 1;
  char out[64];                                   /* arbitrary content */
  double x = nondet_double(); vp_in_x = x;
  int prec = 0;                                   /* the writer's default: shortest round-trip digits */
  int n = g_fmt(out, x, prec);
  __CPROVER_assert(0 < n && n < 28 && out[n] == 0, "g_fmt returns the length of the NUL-terminated text it wrote (at most 27 characters)"); __CPROVER_assume(n < 28);
  if (x == 0) { __CPROVER_assert(n == 1 && out[0] == '0', "zero (of either sign) is written as 0"); }
  else if (g_special == 2) { __CPROVER_assert(n == 3 && out[0] == 'N' && out[1] == 'a' && out[2] == 'N', "NaN is written as NaN (without a sign)"); }
  else if (g_special == 1) { __CPROVER_assert(out[0] == (g_sign ? '-' : 'I') && n == (g_sign ? 9 : 8), "an infinity is written as [-]Infinity"); }
  else {
    /* ghost parse of the literal: [-] digits [. digits] [e (+|-) digits] */
    int p = 0, nm = 0, before = -1; char mant[32]; long e = 0; int esign = 1, edigits = 0;
    if (out[p] == '-') { __CPROVER_assert(g_sign, "a minus sign is written only for a negative number"); ++p; } else __CPROVER_assert(!g_sign, "a negative number gets a minus sign");
    for (; p < n && out[p] != 'e'; ++p) {
      if (out[p] == '.') { __CPROVER_assert(before < 0, "at most one decimal point"); before = nm; }
      else { __CPROVER_assert('0' <= out[p] && out[p] <= '9', "the mantissa consists of decimal digits"); __CPROVER_assert(nm < 31, "mantissa length"); mant[nm++] = out[p]; } }
    if (before < 0) before = nm;
    if (p < n) {      /* exponent part */
      ++p; __CPROVER_assert(p < n && (out[p] == '+' || out[p] == '-'), "the exponent has a sign"); esign = out[p] == '-' ? -1 : 1; ++p;
      for (; p < n; ++p) { __CPROVER_assert('0' <= out[p] && out[p] <= '9', "the exponent consists of decimal digits"); e = 10 * e + (out[p] - '0'); ++edigits; }
      __CPROVER_assert(edigits >= 2 && edigits <= 3, "the exponent has two or three digits"); }
    /* leading zeros of the mantissa shift the point */
    int z = 0; while (z < nm && mant[z] == '0') ++z;
    __CPROVER_assert(nm - z >= g_nd, "all significant digits are written");
    for (int k = 0; k < 17; ++k) if (k < g_nd) __CPROVER_assert(mant[z + k] == g_digits[k], "the significant digits written are dtoa's digits, in order");
    for (int k = z + g_nd; k < nm; ++k) __CPROVER_assert(mant[k] == '0', "only zeros follow the significant digits");
    __CPROVER_assert((long)before - z + esign * e == g_decpt, "the position of the decimal point plus the written exponent is dtoa's decimal point position: the literal denotes the same number");
  }
  VP_REACH("end");
}
''']
    return Harness('C03.g_fmt.' + case, 'C03', parts, plain=True, inputs=['vp_in_x'], timeout=1500, flags=['--unwind', '30'],
                   stubs=['dtoa_r_dmgay (arbitrary digits 1..17 without trailing zeros, decimal point position -330..320, or Infinity / NaN)'],
                   assumptions=['dtoa_r_dmgay returns the shortest digit string that strtod reads back as the same double (David Gay\'s algorithm; not decided here)',
                                'strtod on the reader side is correctly rounded'],
                   note='precision 0 (the writer default); every loop is bounded by the digit count (17), the zero padding (5) or the exponent length (3): unwinding 30 is complete',
                   replay=replay_gfmt)


def replay_gfmt(lead, inputs, obs):
    """native: real TextFormatter::nput -> real TextReader / ReadConstant for every power of ten and neighbours"""
    out, err, cmd = build_c03_replay()
    if out is None:
        return False, err, cmd
    import subprocess
    p = subprocess.run([out, '--text-sweep'], capture_output=True, text=True, timeout=600)
    return p.returncode == 10, (p.stdout + p.stderr)[-2000:], out + ' --text-sweep'


def harnesses(tier, seed):
    from specs import C03_header, C03_writer
    union_check()
    # case split by branch of g_fmt; the ranges overlap and their union is every (digits, decimal point position) dtoa can return
    gf = [h_gfmt('exp_neg', -330, -4), h_gfmt('small', -3, 0), h_gfmt('plain', 1, 22), h_gfmt('exp_pos', 5, 320, 1, 8), h_gfmt('exp_pos_long', 14, 320, 9, 17)]
    return gf + [h_apr('s', 's%h', 'short', 'int', 'nondet_short', 2),
            h_apr('l', 'l%l', 'int', 'long', 'nondet_int', 4),
            h_apr('n', 'n%g', 'double', 'double', 'nondet_double', 8),
            h_nput(), h_opcodes(), h_text_apr_int('d', '%d', 'int', 'nondet_int'), h_text_apr_int('z', '%z', 'size_t', 'nondet_size_t')] + C03_header.harnesses() + C03_writer.harnesses()
