"""C02 - NL reader: leaf readers (text and binary) and the range checks of NLReader
(include/mp/nl-reader.h, src/nl-reader.cc).

Reader object invariant RD (from ReaderBase::ReaderBase and NLFileReader::Read / the zero-filled mmap tail):
start_, ptr_, end_ point into ONE object of end_-start_+1 bytes, *end_ == 0, start_ <= ptr_ <= end_
(ptr_ == end_+1 only right after ReadChar returned the terminator).  The buffer has any length and any content.
A located read error (ReportError / DoReportError -> throw ReadError / BinaryReadError) is always a legal outcome.
"""
import re

from vp import extract
from vp.extract import Fn
from vp.run import Harness

NLR = 'include/mp/nl-reader.h'
NLC = 'src/nl-reader.cc'
HC = 'include/mp/nl-header-c.h'

META = {
    'decides': 'for every buffer content and length: the text and binary leaf readers never read outside [start_, end_], the cursor '
               'only moves forward, no signed overflow / out-of-range conversion, every integer handed on lies in the range of its '
               'type and (NLReader::ReadUInt(ub), ReadUInt(lb,ub), ReadNumArgs, ReadOpCode) inside the bound passed; ReadHeader\'s '
               'accumulated common-expression count cannot overflow; ReadLinearExpr delivers exactly the announced number of '
               'terms with variable indices inside the header range',
    'not_decided': 'termination of the mutually recursive expression readers (partial correctness: induction on call depth); MemoryMappedFile (OS mapping: the mmap path relies on the zero-filled rest of the last page); READ_BOUNDS_FIRST second pass as a whole; the mp::Problem builder behind the handler; DoReportError is verified under the precondition loc > start_ or line_start_ == start_',
    'not_under_contract': ['MemoryMappedFile (OS)', 'NLFileReader::Read(filename, handler, flags) dispatch (two calls of proved functions)', 'BasicProblem / ExprFactory (SafeInt sizes: see C17)', 'name readers (ReadNames)'],
    'assumptions': ['one reader object: ptr_, start_, end_, token_, line_start_, line_ rendered as globals',
                    'ReportError / DoReportError end the path by throwing (their message formatting is dropped)',
                    'isspace is the C-locale predicate total on int; strtod never passes the first NUL',
                    'the mmap path relies on zero-filled page tails for *end_ == 0 (OS)'],
    'trusted_base': ['strtod / isspace / memcpy / std::reverse stubs'],
}

PRE = '''
#include "stdio_stubs.h"
int vp_one;
#define assert(x) __CPROVER_assert(x, "assert(" #x ") of the source holds")
static int vp_isspace(int c) { return c == ' ' || (c >= 9 && c <= 13); }
#define isspace vp_isspace
/* members of ReaderBase / TextReader (R8) */
const char *ptr_, *start_, *end_, *token_, *line_start_; int line_;
/* reader invariant */
#define RD_OBJ (__CPROVER_same_object(start_, end_) && __CPROVER_POINTER_OFFSET(start_) == 0 && \\
   __CPROVER_OBJECT_SIZE(start_) == __CPROVER_POINTER_OFFSET(end_) + 1 && __CPROVER_OBJECT_SIZE(start_) <= 100000 && *end_ == 0)
#define RD_LE (RD_OBJ && __CPROVER_same_object(ptr_, start_) && __CPROVER_POINTER_OFFSET(ptr_) <= __CPROVER_POINTER_OFFSET(end_))
#define RD_LE1 (RD_OBJ && __CPROVER_same_object(ptr_, start_) && __CPROVER_POINTER_OFFSET(ptr_) <= __CPROVER_POINTER_OFFSET(end_) + 1)
#define FWD (__CPROVER_POINTER_OFFSET(ptr_) >= __CPROVER_POINTER_OFFSET(__CPROVER_old(ptr_)))
/* a located read error is always a legal outcome (R7) */
#define VP_MAY_THROW_ReadError 1
#define ReportError(...) VP_THROW(ReadError)
#define DoReportError(...) VP_THROW(ReadError)
static void vp_mkreader(void) {
  size_t n = nondet_size_t(); __CPROVER_assume(n >= 1 && n <= 100000);
  char *b = vp_malloc(n); b[n - 1] = 0;
  start_ = b; end_ = b + n - 1;
  size_t off = nondet_size_t(); __CPROVER_assume(off < n);
  ptr_ = b + off; token_ = ptr_; line_start_ = start_; line_ = 1;
  g_nul_ptr = (char *)end_; g_big = 0; g_big_size = 0; g_big_hi = 0;
}
'''

MU = [(r'typedef MakeUnsigned<Int>::Type UInt;', '', -1), (r'typedef typename MakeUnsigned<Int>::Type UInt;', '', -1)]

INT_TYPES = {  # instantiation -> (C type, unsigned C type, max, nondet)
    'int': ('int', 'unsigned', 'INT_MAX'),
    'unsigned': ('unsigned', 'unsigned', 'UINT_MAX'),
    'size_t': ('size_t', 'size_t', 'SIZE_MAX'),
}

DEC_PTR = '__CPROVER_decreases(__CPROVER_POINTER_OFFSET(end_) - __CPROVER_POINTER_OFFSET(ptr_))'


def typedefs(Int):
    c, u, mx = INT_TYPES[Int]
    umx = {'unsigned': 'UINT_MAX', 'size_t': 'SIZE_MAX'}[u]
    return 'typedef %s Int; typedef %s UInt;\n#define VP_MAX_Int %s\n#define VP_MAX_UInt %s\n' % (c, u, mx, umx)


# ---------------------------------------------------------------------------- contracts (text reader)
C = {}
C['ReadChar'] = ('char ReadChar(void)',
                 '__CPROVER_requires(RD_LE) __CPROVER_ensures(RD_LE1 && ptr_ == __CPROVER_old(ptr_) + 1 && token_ == __CPROVER_old(ptr_) '
                 '&& __CPROVER_return_value == *__CPROVER_old(ptr_)) __CPROVER_assigns(ptr_, token_)')
C['SkipSpace'] = ('void SkipSpace(void)',
                  '__CPROVER_requires(RD_LE) __CPROVER_ensures(RD_LE && FWD && token_ == ptr_) __CPROVER_assigns(ptr_, token_)')
C['ReadTillEndOfLine'] = ('void ReadTillEndOfLine(void)',
                          '__CPROVER_requires(RD_LE && line_ >= 0 && line_ < 100000000) __CPROVER_ensures(RD_LE && FWD && line_start_ == ptr_ && line_ == __CPROVER_old(line_) + 1) '
                          '__CPROVER_assigns(ptr_, line_start_, line_)')
RIWS = ('__CPROVER_requires(RD_LE && __CPROVER_w_ok(value_p, sizeof(*value_p))) '
        '__CPROVER_ensures(RD_LE && FWD) '
        '__CPROVER_ensures(__CPROVER_return_value == 0 ==> (ptr_ == __CPROVER_old(ptr_) && *value_p == __CPROVER_old(*value_p))) '
        '__CPROVER_ensures(__CPROVER_return_value != 0 ==> (*value_p >= 0 && *value_p <= %s)) '
        # the number handed on is the number in the text: its last decimal digit is the last digit read (a value that wrapped around
        # during accumulation must be rejected as too big, never accepted as another number)
        '__CPROVER_ensures(__CPROVER_return_value != 0 ==> (__CPROVER_POINTER_OFFSET(ptr_) > __CPROVER_POINTER_OFFSET(__CPROVER_old(ptr_)) && '
        '(int)(*value_p %% 10) == ptr_[-1] - \'0\')) '
        '__CPROVER_assigns(ptr_, *value_p)')
C['ReadIntWithoutSign_int'] = ('bool ReadIntWithoutSign_int(int *value_p)', RIWS % 'INT_MAX')
C['ReadIntWithoutSign_unsigned'] = ('bool ReadIntWithoutSign_unsigned(unsigned *value_p)', RIWS % 'UINT_MAX')
C['ReadIntWithoutSign_size_t'] = ('bool ReadIntWithoutSign_size_t(size_t *value_p)', RIWS % 'SIZE_MAX')
C['DoReadOptionalInt_int'] = ('bool DoReadOptionalInt_int(int *value_p)',
                              '__CPROVER_requires(RD_LE && __CPROVER_w_ok(value_p, sizeof(int))) __CPROVER_ensures(RD_LE && FWD) '
                              '__CPROVER_assigns(ptr_, token_, *value_p)')
C['ReadUInt_int'] = ('int ReadUInt_int(void)',
                     '__CPROVER_requires(RD_LE) __CPROVER_ensures(RD_LE && FWD && __CPROVER_return_value >= 0) __CPROVER_assigns(ptr_, token_)')
C['ReadUInt_size_t'] = ('size_t ReadUInt_size_t(void)',
                        '__CPROVER_requires(RD_LE) __CPROVER_ensures(RD_LE && FWD) __CPROVER_assigns(ptr_, token_)')
C['ReadUInt'] = ('int ReadUInt(void)', C['ReadUInt_int'][1])
C['ReadUInt_acc'] = ('int ReadUInt_acc(int *accumulator_p)',
                     '__CPROVER_requires(RD_LE && __CPROVER_w_ok(accumulator_p, sizeof(int)) && *accumulator_p >= 0) '
                     '__CPROVER_ensures(RD_LE && FWD && __CPROVER_return_value >= 0 && '
                     '(long)*accumulator_p == (long)__CPROVER_old(*accumulator_p) + __CPROVER_return_value) '
                     '__CPROVER_assigns(ptr_, token_, *accumulator_p)')
C['ReadOptionalUInt'] = ('bool ReadOptionalUInt(int *value_p)',
                         '__CPROVER_requires(RD_LE && __CPROVER_w_ok(value_p, sizeof(int))) '
                         '__CPROVER_ensures(RD_LE && FWD && (__CPROVER_return_value ==> *value_p >= 0) && '
                         '(!__CPROVER_return_value ==> *value_p == __CPROVER_old(*value_p))) __CPROVER_assigns(ptr_, token_, *value_p)')
C['ReadOptionalDouble'] = ('bool ReadOptionalDouble(double *value_p)',
                           '__CPROVER_requires(RD_LE && __CPROVER_w_ok(value_p, sizeof(double))) __CPROVER_ensures(RD_LE && FWD) '
                           '__CPROVER_assigns(ptr_, token_, *value_p)')
C['ReadDouble'] = ('double ReadDouble(void)',
                   '__CPROVER_requires(RD_LE) __CPROVER_ensures(RD_LE && FWD) __CPROVER_assigns(ptr_, token_)')
C['ReadString'] = ('int ReadString(void)',
                   '__CPROVER_requires(RD_LE && line_ >= 0 && line_ < 100000000) __CPROVER_ensures(RD_LE && FWD) __CPROVER_assigns(ptr_, token_, line_start_, line_, g_strings)')
C['ReadName'] = ('int ReadName(void)',
                 '__CPROVER_requires(RD_LE) __CPROVER_ensures(RD_LE && FWD) __CPROVER_assigns(ptr_, token_, g_strings)')


def decl(name):
    """Constructive stub of a callee: asserts the callee's precondition at the call site and produces EVERY post-state its
    contract allows by construction (ptr_ advanced by an arbitrary amount inside the buffer, outputs arbitrary in range).
    A contract that assigns the global cursor cannot be used through --replace-call-with-contract: a pointer havocked and
    then constrained by assumptions loses its points-to set in CBMC and later reads through it are not reads of the buffer.
    Each stub is itself checked against the contract text (harnesses C02.stub.*), so stub behaviours are contract behaviours."""
    return STUBS[name]


ADV = 'static void vp_advance(void) { size_t k = nondet_size_t(); __CPROVER_assume(k <= (size_t)(end_ - ptr_)); ptr_ = ptr_ + k; }\n' \
      'static void vp_token(void) { size_t k = nondet_size_t(); __CPROVER_assume(k <= (size_t)(ptr_ - start_)); token_ = start_ + k; }\n'
PRECOND = '__CPROVER_assert(RD_LE, "callee precondition: reader invariant (cursor inside the buffer)");'
STUBS = {
    'ReadChar': 'char ReadChar(void) { ' + PRECOND + ' token_ = ptr_; return *ptr_++; }\n',
    'SkipSpace': 'void SkipSpace(void) { ' + PRECOND + ' vp_advance(); token_ = ptr_; }\n',
    'ReadTillEndOfLine': 'void ReadTillEndOfLine(void) { ' + PRECOND + ' __CPROVER_assert(line_ >= 0 && line_ < 100000000, "callee precondition: line counter"); '
                         'vp_advance(); line_start_ = ptr_; ++line_; }\n',
    'ReadUInt_int': 'int ReadUInt_int(void) { ' + PRECOND + ' vp_advance(); vp_token(); int v = nondet_int(); __CPROVER_assume(v >= 0); return v; }\n',
    'ReadUInt': 'int ReadUInt(void) { ' + PRECOND + ' vp_advance(); vp_token(); int v = nondet_int(); __CPROVER_assume(v >= 0); return v; }\n',
    'ReadUInt_size_t': 'size_t ReadUInt_size_t(void) { ' + PRECOND + ' vp_advance(); vp_token(); return nondet_size_t(); }\n',
    'ReadUInt_acc': 'int ReadUInt_acc(int *accumulator_p) { ' + PRECOND + ' __CPROVER_assert(*accumulator_p >= 0, "callee precondition: accumulator >= 0"); '
                    'vp_advance(); vp_token(); int v = nondet_int(); __CPROVER_assume(v >= 0 && (long)*accumulator_p + v <= INT_MAX); *accumulator_p += v; return v; }\n',
    'ReadOptionalUInt': 'bool ReadOptionalUInt(int *value_p) { ' + PRECOND + ' vp_advance(); vp_token(); if (nondet_bool()) { int v = nondet_int(); '
                        '__CPROVER_assume(v >= 0); *value_p = v; return 1; } return 0; }\n',
    'ReadOptionalDouble': 'bool ReadOptionalDouble(double *value_p) { ' + PRECOND + ' vp_advance(); vp_token(); *value_p = nondet_double(); return nondet_bool(); }\n',
    'Read': 'const char *Read(int length) { ' + PRECOND + ' __CPROVER_assert(length >= 0, "callee precondition: length >= 0"); '
            '__CPROVER_assume(end_ - ptr_ >= length); const char *s0 = ptr_; ptr_ += length; return s0; }\n',
}
for _T, _mx in (('int', 'INT_MAX'), ('unsigned', 'UINT_MAX'), ('size_t', 'SIZE_MAX')):
    STUBS['ReadIntWithoutSign_' + _T] = ('bool ReadIntWithoutSign_%s(%s *value_p) { ' % (_T, INT_TYPES[_T][0]) + PRECOND +
                                         ' if (nondet_bool()) return 0; const char *vp_p0 = ptr_; vp_advance(); __CPROVER_assume(ptr_ > vp_p0 && ptr_[-1] >= \'0\' && ptr_[-1] <= \'9\'); '
                                         '%s v = nondet_%s(); __CPROVER_assume(v >= 0 && v <= %s && (int)(v %% 10) == ptr_[-1] - \'0\'); *value_p = v; return 1; }\n'
                                         % (INT_TYPES[_T][0], {'int': 'int', 'unsigned': 'unsigned', 'size_t': 'size_t'}[_T], _mx))


STRTOD = '''
#undef strtod
/* strtod never reads past the first NUL: the end pointer is between the start and the terminator */
double strtod(const char *p, char **endp) {
  __CPROVER_assert(VP_NUL_AT_OR_AFTER(p), "strtod: argument is NUL-terminated inside the buffer");
  size_t k = nondet_size_t(); __CPROVER_assume(k <= VP_WITNESS_LEN(p));
  *endp = (char *)p + k; return nondet_double();
}
struct { int d; } locale_;
static double locale_strtod(const char **str_p) { char *e = 0; double r = strtod(*str_p, &e); *str_p = e; return r; }
'''
SINK = '''
int g_strings;
/* fmt::StringRef(p, n): the range must lie inside the buffer */
int vp_StringRef(const char *p, long n) {
  __CPROVER_assert(n >= 0, "string length is non-negative");
  __CPROVER_assert(n == 0 || (__CPROVER_same_object(p, start_) && __CPROVER_POINTER_OFFSET(p) + (size_t)n <= __CPROVER_POINTER_OFFSET(end_)),
                   "string bytes are inside the buffer");
  g_strings++; return 0;
}
'''


def fn(name):
    proto, contract = C[name]
    if name == 'ReadChar':
        return Fn(NLR, r'char ReadChar\(\)', proto, contract=contract, label='mp::internal::ReaderBase::ReadChar', nmatches=1)
    if name == 'SkipSpace':
        return Fn(NLR, r'void SkipSpace\(\)', proto, contract=contract,
                  loops={0: '__CPROVER_assigns(ptr_) __CPROVER_loop_invariant(RD_LE && __CPROVER_POINTER_OFFSET(ptr_) >= '
                            '__CPROVER_POINTER_OFFSET(__CPROVER_loop_entry(ptr_))) ' + DEC_PTR},
                  label='mp::internal::TextReader::SkipSpace', nmatches=1)
    if name == 'ReadTillEndOfLine':
        return Fn(NLR, r'void ReadTillEndOfLine\(\) \{\s*while', proto.replace('(void)', '(void)'), contract=contract,
                  loops={0: '__CPROVER_assigns(ptr_, line_start_, line_) __CPROVER_loop_invariant(RD_LE && line_ == __CPROVER_loop_entry(line_) && '
                            '__CPROVER_POINTER_OFFSET(ptr_) >= __CPROVER_POINTER_OFFSET(__CPROVER_loop_entry(ptr_))) ' + DEC_PTR},
                  label='mp::internal::TextReader::ReadTillEndOfLine', nmatches=1)
    if name.startswith('ReadIntWithoutSign_'):
        Int = name.split('_', 1)[1]
        return Fn(NLR, r'bool ReadIntWithoutSign\(Int\s*&?\s*value\)', proto, contract=contract, subst=MU, refs={'value': 'value_p'},
                  loops={0: '__CPROVER_assigns(ptr_, c, result) __CPROVER_loop_invariant(RD_LE && c == *ptr_ && c >= \'0\' && c <= \'9\' && '
                            '__CPROVER_POINTER_OFFSET(ptr_) >= __CPROVER_POINTER_OFFSET(__CPROVER_loop_entry(ptr_)) && '
                            '((ptr_ == __CPROVER_loop_entry(ptr_) && result == 0) || (__CPROVER_POINTER_OFFSET(ptr_) > __CPROVER_POINTER_OFFSET(__CPROVER_loop_entry(ptr_)) && '
                            '(int)(result % 10) == ptr_[-1] - \'0\'))) ' + DEC_PTR},
                  label='mp::internal::TextReader::ReadIntWithoutSign<Int>', inst='Int=%s' % INT_TYPES[Int][0], nmatches=1)
    if name == 'DoReadOptionalInt_int':
        return Fn(NLR, r'bool DoReadOptionalInt\(Int\s*&?\s*value\)', proto, contract=contract,
                  subst=MU + [(r'ReadIntWithoutSign<UInt>\(result\)', 'ReadIntWithoutSign_unsigned(&result)', 1)],
                  refs={'value': 'value_p'}, label='mp::internal::TextReader::DoReadOptionalInt<Int>', inst='Int=int', nmatches=1)
    if name in ('ReadUInt_int', 'ReadUInt_size_t'):
        Int = name.split('_', 1)[1]
        return Fn(NLR, r'Int ReadUInt\(\) \{', proto, contract=contract,
                  subst=[(r'ReadIntWithoutSign\(value\)', 'ReadIntWithoutSign_%s(&value)' % Int, 1)],
                  label='mp::internal::TextReader::ReadUInt<Int>', inst='Int=%s' % INT_TYPES[Int][0], nmatches=1)
    if name == 'ReadUInt':
        return Fn(NLR, r'int ReadUInt\(\) \{ return ReadUInt<int>\(\); \}', proto, contract=contract,
                  label='mp::internal::TextReader::ReadUInt', nmatches=1)
    if name == 'ReadUInt_acc':
        return Fn(NLR, r'int ReadUInt\(int\s*&?\s*accumulator\)', proto, contract=contract, refs={'accumulator': 'accumulator_p'},
                  label='mp::internal::TextReader::ReadUInt(int&)', nmatches=1)
    if name == 'ReadOptionalUInt':
        return Fn(NLR, r'bool ReadOptionalUInt\(int\s*&?\s*value\)', proto, contract=contract,
                  subst=[(r'ReadIntWithoutSign\(value\)', 'ReadIntWithoutSign_int(&value)', 1)], refs={'value': 'value_p'},
                  label='mp::internal::TextReader::ReadOptionalUInt', nmatches=1)
    if name == 'ReadOptionalDouble':
        return Fn(NLC, r'bool mp::internal::TextReader<Locale>::ReadOptionalDouble\(double\s*&?\s*value\)', proto, contract=contract,
                  subst=[(r'std::strtod\(ptr_, &end\)', 'strtod(ptr_, &end)', 1)], refs={'value': 'value_p'},
                  label='mp::internal::TextReader::ReadOptionalDouble', nmatches=1)
    if name == 'ReadDouble':
        return Fn(NLR, r'double ReadDouble\(\) \{\s*SkipSpace', proto, contract=contract,
                  subst=[(r'locale_\.strtod\(ptr_\)', 'locale_strtod(&ptr_)', 1)],
                  label='mp::internal::TextReader::ReadDouble', nmatches=1)
    if name == 'ReadString':
        return Fn(NLC, r'fmt::StringRef mp::internal::TextReader<Locale>::ReadString\(\)', proto, contract=contract,
                  subst=[(r'fmt::StringRef\(', 'vp_StringRef(', 1)],
                  loops={0: '__CPROVER_assigns(i, ptr_, line_start_, line_) __CPROVER_loop_invariant(0 <= i && i <= length && RD_LE && line_ >= 0 && '
                            '(long)line_ <= (long)__CPROVER_loop_entry(line_) + i && __CPROVER_same_object(start, start_) && '
                            '__CPROVER_POINTER_OFFSET(ptr_) == __CPROVER_POINTER_OFFSET(start) + (size_t)i) __CPROVER_decreases(length - i)'},
                  label='mp::internal::TextReader::ReadString', nmatches=1)
    if name == 'ReadName':
        return Fn(NLC, r'fmt::StringRef mp::internal::TextReader<Locale>::ReadName\(\)', proto, contract=contract,
                  subst=[(r'fmt::StringRef\(', 'vp_StringRef(', 1)],
                  loops={0: '__CPROVER_assigns(ptr_) __CPROVER_loop_invariant(RD_LE && *ptr_ != 0 && __CPROVER_same_object(start, start_) && '
                            '__CPROVER_POINTER_OFFSET(ptr_) >= __CPROVER_POINTER_OFFSET(start)) ' + DEC_PTR},
                  label='mp::internal::TextReader::ReadName', nmatches=1)
    raise KeyError(name)


DEPS = {
    'ReadChar': [], 'SkipSpace': [], 'ReadTillEndOfLine': [],
    'ReadIntWithoutSign_int': [], 'ReadIntWithoutSign_unsigned': [], 'ReadIntWithoutSign_size_t': [],
    'DoReadOptionalInt_int': ['SkipSpace', 'ReadIntWithoutSign_unsigned'],
    'ReadUInt_int': ['SkipSpace', 'ReadIntWithoutSign_int'], 'ReadUInt_size_t': ['SkipSpace', 'ReadIntWithoutSign_size_t'],
    'ReadUInt': ['ReadUInt_int'], 'ReadUInt_acc': ['ReadUInt'],
    'ReadOptionalUInt': ['SkipSpace', 'ReadIntWithoutSign_int'],
    'ReadOptionalDouble': ['SkipSpace'], 'ReadDouble': ['SkipSpace'],
    'ReadString': ['ReadUInt'], 'ReadName': ['SkipSpace'],
}
LOOPS = {'SkipSpace': 1, 'ReadTillEndOfLine': 1, 'ReadIntWithoutSign_int': 1, 'ReadIntWithoutSign_unsigned': 1,
         'ReadIntWithoutSign_size_t': 1, 'ReadString': 1, 'ReadName': 1}
ARGS = {
    'ReadIntWithoutSign_int': ('int v = nondet_int();', '&v'), 'ReadIntWithoutSign_unsigned': ('unsigned v = nondet_unsigned();', '&v'),
    'ReadIntWithoutSign_size_t': ('size_t v = nondet_size_t();', '&v'), 'DoReadOptionalInt_int': ('int v = nondet_int();', '&v'),
    'ReadUInt_acc': ('int v = nondet_int(); __CPROVER_assume(v >= 0);', '&v'), 'ReadOptionalUInt': ('int v = nondet_int();', '&v'),
    'ReadOptionalDouble': ('double v = nondet_double();', '&v'),
}


def h_text(name):
    parts = [PRE, STRTOD, SINK]
    m = re.match(r'ReadIntWithoutSign_(\w+)', name)
    if m:
        parts.append(typedefs(m.group(1)))
    elif name in ('ReadUInt_int', 'ReadUInt_size_t'):
        parts.append(typedefs(name.split('_', 1)[1]))
    elif name == 'DoReadOptionalInt_int':
        parts.append(typedefs('int'))
    parts.append(ADV)
    for d in DEPS[name]:
        parts.append(decl(d))
    parts.append(fn(name))
    pre, arg = ARGS.get(name, ('', ''))
    parts.append('''
void harness(void) { vp_one = 1; vp_mkreader(); g_strings = 0; line_ = nondet_int(); __CPROVER_assume(line_ >= 0 && line_ < 100000000); %s
  %s(%s); VP_REACH("normal return"); }
''' % (pre, name, arg))
    return Harness('C02.text.' + name, 'C02', parts, enforce=name, loop_contracts=bool(LOOPS.get(name)),
                   expect_loop_obligations=LOOPS.get(name, 0), timeout=600,
                   stubs=['strtod', 'isspace', 'fmt::StringRef (sink)'] if name in ('ReadDouble', 'ReadOptionalDouble', 'ReadString', 'ReadName') else [])


# ---------------------------------------------------------------------------- ReadHeader (whole function)

def header_struct():
    a = extract.find_braced(HC, r'typedef struct NLProblemInfo_C\s*\{')
    b = extract.find_braced(HC, r'typedef struct NLInfo_C\s*\{')
    e = extract.find_braced(HC, r'enum \{\s*MAX_AMPL_OPTIONS')
    body = a.body[1:-1] + b.body[1:-1]
    return ('#line %d "%s"\nenum %s;\ntypedef int NLFormat;\ntypedef struct NLHeader {%s} NLHeader;\n'
            % (e.line, '/repo/' + HC, e.body, body))


HDR_CONSTS = '''
enum { NLHeader_TEXT = 0, NLHeader_BINARY = 1 };
'''


def h_readheader():
    consts = Fn(NLC, r'enum \{\s*USE_VBTOL_OPTION', 'int vp_unused(void)', nmatches=None)  # placeholder, replaced below
    parts = [PRE, STRTOD, SINK, header_struct(), HDR_CONSTS,
             extract.Braced(NLC, r'enum \{\s*USE_VBTOL_OPTION', header='enum', label='enum {USE_VBTOL_OPTION, READ_VBTOL}'),
             ('enum', 'include/mp/nl-header.h', r'enum Kind \{\s*/\*\* Unknown', 'arith_') if False else
             'enum { arith_LAST = 5 };   /* mp::arith::LAST = NL_ARITH_LAST = NL_ARITH_CRAY (nl-header-c.h) */\n']
    deps = ['ReadChar', 'ReadOptionalUInt', 'ReadOptionalDouble', 'ReadTillEndOfLine', 'ReadUInt', 'ReadUInt_size_t', 'ReadUInt_acc']
    parts.append(ADV)
    for d in deps:
        parts.append(decl(d))
    parts.append(Fn(NLC, r'void mp::internal::TextReader<Locale>::ReadHeader\(NLHeader\s*&?\s*header\)', 'void ReadHeader(NLHeader *header_p)',
                    contract='__CPROVER_requires(RD_LE && line_ >= 0 && line_ < 1000 && __CPROVER_w_ok(header_p, sizeof(NLHeader)) && header_p->num_ampl_options == 0 '
                             '&& header_p->num_compl_conds == 0 && header_p->num_nl_compl_conds == 0 && header_p->num_logical_cons == 0) '
                             '__CPROVER_ensures(RD_LE && header_p->num_vars >= 0 && header_p->num_algebraic_cons >= 0 && header_p->num_objs >= 0 && '
                             'header_p->num_funcs >= 0 && header_p->num_ampl_options >= 0 && header_p->num_ampl_options <= MAX_AMPL_OPTIONS && '
                             '(long)header_p->num_algebraic_cons + header_p->num_logical_cons <= INT_MAX && header_p->num_logical_cons >= 0 && '
                             '(long)header_p->num_vars + header_p->num_common_exprs_in_both + header_p->num_common_exprs_in_cons + '
                             'header_p->num_common_exprs_in_objs + header_p->num_common_exprs_in_single_cons + '
                             'header_p->num_common_exprs_in_single_objs <= INT_MAX) '
                             '__CPROVER_assigns(ptr_, token_, line_start_, line_, __CPROVER_object_whole(header_p))',
                    subst=[(r'ReadUInt<std::size_t>\(\)', 'ReadUInt_size_t()', 2),
                           (r'ReadUInt\(max_vars\)', 'ReadUInt_acc(&max_vars)', 5),
                           (r'ReadOptionalUInt\((header\.\w+|arith_kind)\)', r'ReadOptionalUInt(&\1)', -1),
                           (r'ReadOptionalDouble\((tmp|header\.ampl_vbtol)\)', r'ReadOptionalDouble(&\1)', 2)],
                    refs={'header': 'header_p'},
                    loops={0: '__CPROVER_assigns(i, ptr_, token_, header_p->ampl_options) __CPROVER_loop_invariant(0 <= i && i <= header_p->num_ampl_options && '
                              'header_p->num_ampl_options <= MAX_AMPL_OPTIONS && RD_LE) __CPROVER_decreases(header_p->num_ampl_options - i)'},
                    label='mp::internal::TextReader::ReadHeader', nmatches=1))
    parts.append('''
void harness(void) { vp_one = 1; vp_mkreader(); line_ = 1; NLHeader h;
  h.num_ampl_options = 0; h.num_compl_conds = 0; h.num_nl_compl_conds = 0; h.num_logical_cons = 0;       /* NLHeader() zero-initialises (nl-header.h) */
  ReadHeader(&h); VP_REACH("normal return"); }
''')
    return Harness('C02.text.ReadHeader', 'C02', parts, enforce='ReadHeader', loop_contracts=True,
                   expect_loop_obligations=1, timeout=900, object_bits=10, backend='cadical',
                   note='whole function, modular over the contracts of the leaf readers')


# ---------------------------------------------------------------------------- binary reader

BIN_PRE = '''
#define VP_MAY_THROW_BinaryReadError 1
#undef ReportError
#define ReportError(...) VP_THROW(BinaryReadError)
'''
C['Read'] = ('const char *Read(int length)',
             '__CPROVER_requires(RD_LE && length >= 0) '
             '__CPROVER_ensures(RD_LE && __CPROVER_return_value == __CPROVER_old(ptr_) && ptr_ == __CPROVER_old(ptr_) + length) '
             '__CPROVER_assigns(ptr_, token_)')
BIN = {
    'ReadInt_int': ('int ReadInt_int(void)', 'Int=int', 'int'),
    'ReadInt_short': ('short ReadInt_short(void)', 'Int=short', 'short'),
    'ReadInt_long': ('long ReadInt_long(void)', 'Int=long', 'long'),
}


def read_fn():
    return Fn(NLR, r'const char \*Read\(int length\)', C['Read'][0], contract=C['Read'][1],
              label='mp::internal::BinaryReaderBase::Read', nmatches=1)


def h_bin_read():
    parts = [PRE, BIN_PRE, read_fn(), '''
void harness(void) { vp_one = 1; vp_mkreader(); int len = nondet_int(); Read(len); VP_REACH("normal return"); }
''']
    return Harness('C02.binary.Read', 'C02', parts, enforce='Read')


CONVERT = '''
/* InputConverter::Convert: IdentityConverter returns the value, EndiannessConverter reverses its bytes (proved in C02.binary.Convert) */
#define Convert(v) (v)
'''


def h_bin_int(name):
    proto, inst, ty = BIN[name]
    parts = [PRE, BIN_PRE, CONVERT, ADV, decl('Read'), 'typedef %s Int;\n' % ty,
             Fn(NLR, r'Int ReadInt\(\) \{\s*token_ = ptr_;', proto,
                contract='__CPROVER_requires(RD_LE) __CPROVER_ensures(RD_LE && ptr_ == __CPROVER_old(ptr_) + sizeof(Int)) __CPROVER_assigns(ptr_, token_)',
                label='mp::internal::BinaryReader::ReadInt<Int>', inst=inst, nmatches=1),
             'void harness(void) { vp_one = 1; vp_mkreader(); %s(); VP_REACH("normal return"); }\n' % name]
    return Harness('C02.binary.' + name, 'C02', parts, enforce=name, stubs=['memcpy'])


def h_bin_uint():
    # the byte order conversion is present (either the identity or the byte reversal of EndiannessConverter), should the body use it directly
    conv = '''
_Bool g_swap;
static int vp_convert_int(int v) { if (!g_swap) return v; unsigned u = (unsigned)v; u = (u >> 24) | ((u >> 8) & 0xff00u) | ((u << 8) & 0xff0000u) | (u << 24); return (int)u; }
#define Convert(v) vp_convert_int(v)
'''
    parts = [PRE, BIN_PRE, conv, ADV, decl('Read'),
             'int ReadInt_int(void) { ' + PRECOND + ' __CPROVER_assume(end_ - ptr_ >= (long)sizeof(int)); token_ = ptr_; ptr_ += sizeof(int); return nondet_int(); }\n',
             Fn(NLR, r'int ReadUInt\(\) \{', 'int bin_ReadUInt(void)', ordinal=1,      # the second definition in the file: BinaryReader's (the first is TextReader's one-liner)
                contract='__CPROVER_requires(RD_LE) __CPROVER_ensures(RD_LE && __CPROVER_return_value >= 0 && FWD) __CPROVER_assigns(ptr_, token_)',
                subst=[(r'\bthis->', '', -1)], label='mp::internal::BinaryReader::ReadUInt', nmatches=None),
             'void harness(void) { vp_one = 1; g_swap = nondet_bool(); vp_mkreader(); bin_ReadUInt(); VP_REACH("normal return"); }\n']
    return Harness('C02.binary.ReadUInt', 'C02', parts, enforce='bin_ReadUInt', replace=['Read'] if False else [], stubs=['memcpy'])


def h_bin_double():
    parts = [PRE, BIN_PRE, CONVERT, ADV, decl('Read'),
             Fn(NLR, r'double ReadDouble\(\) \{\s*token_ = ptr_;', 'double bin_ReadDouble(void)',
                contract='__CPROVER_requires(RD_LE) __CPROVER_ensures(RD_LE && ptr_ == __CPROVER_old(ptr_) + sizeof(double)) __CPROVER_assigns(ptr_, token_)',
                label='mp::internal::BinaryReader::ReadDouble', nmatches=1),
             'void harness(void) { vp_one = 1; vp_mkreader(); bin_ReadDouble(); VP_REACH("normal return"); }\n']
    return Harness('C02.binary.ReadDouble', 'C02', parts, enforce='bin_ReadDouble', stubs=['memcpy'])


def h_bin_string():
    parts = [PRE, BIN_PRE, SINK, ADV, decl('Read'), decl('ReadUInt'),
             Fn(NLR, r'fmt::StringRef ReadString\(\) \{\s*int length = ReadUInt\(\);', 'int bin_ReadString(void)',
                contract='__CPROVER_requires(RD_LE) __CPROVER_ensures(RD_LE && FWD) __CPROVER_assigns(ptr_, token_, g_strings)',
                subst=[(r'fmt::StringRef\(', 'vp_StringRef(', 1)],
                label='mp::internal::BinaryReader::ReadString', nmatches=1),
             'void harness(void) { vp_one = 1; vp_mkreader(); g_strings = 0; bin_ReadString(); VP_REACH("normal return"); }\n']
    return Harness('C02.binary.ReadString', 'C02', parts, enforce='bin_ReadString')


def h_convert():
    """EndiannessConverter::Convert<T>: the value's bytes reversed in place; memory safe for every T."""
    parts = [PRE, '''
/* std::reverse(first, last) on chars: permutes the bytes of [first, last) */
void reverse(char *first, char *last) {
  __CPROVER_assert(__CPROVER_same_object(first, last) && first <= last, "std::reverse: valid range");
  __CPROVER_assert(first == last || __CPROVER_w_ok(first, (size_t)(last - first)), "std::reverse: range writable");
  if (first != last) __CPROVER_havoc_slice(first, (size_t)(last - first));
}
''', Fn(NLR, r'void Convert\(char \*data, std::size_t size\)', 'void Convert_bytes(char *data, size_t size)',
        label='mp::internal::EndiannessConverter::Convert(char*,size_t)', nmatches=1),
             'typedef double T;\n',
             Fn(NLR, r'T Convert\(T value\) \{\s*Convert\(reinterpret_cast', 'T Convert_T(T value)', contract='__CPROVER_requires(1) __CPROVER_ensures(1) __CPROVER_assigns()',
                subst=[(r'Convert\(reinterpret_cast<char\*>\(&value\), sizeof\(T\)\)', 'Convert_bytes((char *)&value, sizeof(T))', 1)],
                label='mp::internal::EndiannessConverter::Convert<T>', inst='T=double', nmatches=1),
             'void harness(void) { vp_one = 1; double v = nondet_double(); Convert_T(v); VP_REACH("normal return"); }\n']
    return Harness('C02.binary.Convert', 'C02', parts, enforce='Convert_T', stubs=['std::reverse (range check, bytes permuted)'])


# ---------------------------------------------------------------------------- NLReader range checks

NLR_PRE = '''
/* reader_ is the (text or binary) leaf reader: only the contract of ReadUInt is used */
int reader_ReadUInt(void) __CPROVER_requires(1) __CPROVER_ensures(__CPROVER_return_value >= 0) __CPROVER_assigns();
double reader_ReadDouble(void) __CPROVER_requires(1) __CPROVER_ensures(1) __CPROVER_assigns();
void reader_ReadTillEndOfLine(void) {}
#define VP_MAY_THROW_ReadError 1
#define reader_ReportError(...) VP_THROW(ReadError)
struct { int num_vars; } header_;
int num_vars_and_exprs_;
'''
HANDLE = [(r'\b(reader_|handler_)\.', r'\1', -1)]


def h_nlr_uint1():
    parts = ['#include "mp_shim.h"\nint vp_one;\n', NLR_PRE,
             Fn(NLR, r'int ReadUInt\(unsigned ub\)', 'int NLReader_ReadUInt_ub(unsigned ub)',
                contract='__CPROVER_ensures(__CPROVER_return_value >= 0 && (unsigned)__CPROVER_return_value < ub) __CPROVER_assigns()',
                subst=HANDLE, label='mp::internal::NLReader::ReadUInt(unsigned ub)', nmatches=1),
             'void harness(void) { vp_one = 1; NLReader_ReadUInt_ub(nondet_unsigned()); VP_REACH("normal return"); }\n']
    return Harness('C02.NLReader.ReadUInt_ub', 'C02', parts, enforce='NLReader_ReadUInt_ub', replace=['reader_ReadUInt'])


def h_nlr_uint2():
    parts = ['#include "mp_shim.h"\nint vp_one;\n', NLR_PRE,
             Fn(NLR, r'int ReadUInt\(unsigned lb, unsigned ub\)', 'int NLReader_ReadUInt_lb_ub(unsigned lb, unsigned ub)',
                contract='__CPROVER_ensures(__CPROVER_return_value >= 0 && lb <= (unsigned)__CPROVER_return_value && (unsigned)__CPROVER_return_value < ub) __CPROVER_assigns()',
                subst=HANDLE, label='mp::internal::NLReader::ReadUInt(unsigned lb, unsigned ub)', nmatches=1),
             'void harness(void) { vp_one = 1; NLReader_ReadUInt_lb_ub(nondet_unsigned(), nondet_unsigned()); VP_REACH("normal return"); }\n']
    return Harness('C02.NLReader.ReadUInt_lb_ub', 'C02', parts, enforce='NLReader_ReadUInt_lb_ub', replace=['reader_ReadUInt'])


def h_nlr_numargs():
    parts = ['#include "mp_shim.h"\nint vp_one;\n', NLR_PRE,
             Fn(NLR, r'int ReadNumArgs\(int min_args = MIN_ITER_ARGS\)', 'int ReadNumArgs(int min_args)',
                contract='__CPROVER_ensures(__CPROVER_return_value >= 0 && __CPROVER_return_value >= min_args) __CPROVER_assigns()',
                subst=HANDLE, label='mp::internal::NLReader::ReadNumArgs', nmatches=1),
             'void harness(void) { vp_one = 1; ReadNumArgs(nondet_int()); VP_REACH("normal return"); }\n']
    return Harness('C02.NLReader.ReadNumArgs', 'C02', parts, enforce='ReadNumArgs', replace=['reader_ReadUInt'])


def h_nlr_opcode():
    parts = ['#include "mp_shim.h"\nint vp_one;\n', NLR_PRE, 'enum { MAX_OPCODE = VP_MAX_OPCODE_FROM_SOURCE };\n',
             Fn(NLR, r'int ReadOpCode\(\)', 'int ReadOpCode(void)',
                contract='__CPROVER_ensures(__CPROVER_return_value >= 0 && __CPROVER_return_value <= MAX_OPCODE) __CPROVER_assigns()',
                subst=HANDLE + [(r'internal::MAX_OPCODE', 'MAX_OPCODE', -1)], label='mp::internal::NLReader::ReadOpCode', nmatches=1),
             'void harness(void) { vp_one = 1; ReadOpCode(); VP_REACH("normal return"); }\n']
    # MAX_OPCODE is read from common.h on every run
    txt = extract.read_repo('include/mp/common.h')
    m = re.search(r'MAX_OPCODE\s*=\s*(\d+)', txt)
    if not m:
        raise extract.ExtractionError('MAX_OPCODE not found in common.h')
    parts[2] = 'enum { MAX_OPCODE = %s };   /* include/mp/common.h */\n' % m.group(1)
    return Harness('C02.NLReader.ReadOpCode', 'C02', parts, enforce='ReadOpCode', replace=['reader_ReadUInt'])


def h_nlr_linear():
    """ReadLinearExpr(num_terms, linear_expr): exactly num_terms terms, each variable index inside [0, num_vars)."""
    parts = ['#include "mp_shim.h"\nint vp_one;\n', NLR_PRE, '''
int g_terms;
/* LinearHandler::AddTerm(var_index, coef): the handler must only ever see indices inside the header's range */
void linear_expr_AddTerm(int var_index, double coef) {
  __CPROVER_assert(0 <= var_index && var_index < header_.num_vars, "linear term refers to a variable inside the declared range");
  g_terms++;
}
int ReadUInt(unsigned ub) __CPROVER_requires(1) __CPROVER_ensures(__CPROVER_return_value >= 0 && (unsigned)__CPROVER_return_value < ub) __CPROVER_assigns();
''',
             Fn(NLR, r'void NLReader<Reader, Handler>::ReadLinearExpr\(\s*int num_terms, LinearHandler linear_expr\)',
                'void ReadLinearExpr(int num_terms)',
                contract='__CPROVER_requires(header_.num_vars >= 0 && num_terms >= 0 && g_terms == 0) __CPROVER_ensures(g_terms == num_terms) __CPROVER_assigns(g_terms)',
                subst=HANDLE + [(r'linear_expr\.AddTerm\(', 'linear_expr_AddTerm(', 1)],
                loops={0: '__CPROVER_assigns(i, g_terms) __CPROVER_loop_invariant(0 <= i && i <= num_terms && g_terms == i) __CPROVER_decreases(num_terms - i)'},
                label='mp::internal::NLReader::ReadLinearExpr(int, LinearHandler)', nmatches=1),
             'void harness(void) { vp_one = 1; header_.num_vars = nondet_int(); g_terms = 0; ReadLinearExpr(nondet_int()); VP_REACH("normal return"); }\n']
    return Harness('C02.NLReader.ReadLinearExpr', 'C02', parts, enforce='ReadLinearExpr', replace=['ReadUInt', 'reader_ReadDouble'],
                   loop_contracts=True, expect_loop_obligations=1,
                   stubs=['LinearHandler::AddTerm (asserts the index range, counts terms)'])


def h_doreporterror():
    """The located-error path: the backward scan for the start of the previous line stays inside the buffer, under the
    precondition that the error location is not a newline sitting at the very first byte while a later line has started
    (call-history fact: token_ is moved forward by SkipSpace / ReadChar before line_start_ can advance; assumed)."""
    parts = [PRE, Fn(NLC, r'void mp::internal::TextReader<Locale>::DoReportError\(', 'void vp_DoReportError(const char *loc)',
                     contract='__CPROVER_requires(RD_OBJ && __CPROVER_same_object(loc, start_) && __CPROVER_POINTER_OFFSET(loc) <= __CPROVER_POINTER_OFFSET(end_) && '
                              '__CPROVER_same_object(line_start_, start_) && __CPROVER_POINTER_OFFSET(line_start_) <= __CPROVER_POINTER_OFFSET(end_) + 1 && '
                              'line_ >= 1 && !(loc == start_ && *loc == \'\\n\' && loc < line_start_)) '
                              '__CPROVER_ensures(0) __CPROVER_assigns()',
                     subst=[(r'throw ReadError\(name_, line, column, format_str, args\);',
                             '__CPROVER_assert(column >= 1, "reported column is positive"); VP_THROW(ReadError);', 1)],
                     skip=('R6',),
                     loops={0: '__CPROVER_assigns(line_start) __CPROVER_loop_invariant(__CPROVER_same_object(line_start, start_) && '
                               '__CPROVER_POINTER_OFFSET(line_start) <= __CPROVER_POINTER_OFFSET(loc) && '
                               '(*loc == \'\\n\' ==> __CPROVER_POINTER_OFFSET(line_start) < __CPROVER_POINTER_OFFSET(loc))) '
                               '__CPROVER_decreases(__CPROVER_POINTER_OFFSET(line_start))'},
                     label='mp::internal::TextReader::DoReportError', nmatches=1), '''
void harness(void) { vp_one = 1; vp_mkreader(); size_t a = nondet_size_t(), b = nondet_size_t();
  __CPROVER_assume(a <= (size_t)(end_ - start_) && b <= (size_t)(end_ - start_) + 1);
  const char *loc = start_ + a; line_start_ = start_ + b; line_ = nondet_int(); __CPROVER_assume(line_ >= 1);
  __CPROVER_assume(!(loc == start_ && *loc == '\\n' && loc < line_start_));
  vp_DoReportError(loc); }
''']
    return Harness('C02.text.DoReportError', 'C02', parts, enforce='vp_DoReportError', loop_contracts=True, expect_loop_obligations=1,
                   no_canary=True, assumptions=['DoReportError precondition: not (loc == start_ and *loc == newline and loc < line_start_) - a call-history fact, assumed'],
                   note='always throws: no normal return, hence no end-of-harness canary; reachability is witnessed by the throw assertion')


def h_stub(name):
    proto, contract = C[name]
    body = STUBS[name]
    # attach the contract text to the stub definition: 'T f(args) {' -> 'T f(args) <contract> {'
    i = body.index('{')
    text = body[:i] + '\n' + contract + '\n' + body[i:]
    pre, arg = ARGS.get(name, ('', ''))
    if name == 'Read':
        pre, arg = 'int len = nondet_int(); __CPROVER_assume(len >= 0);', 'len'
    parts = [PRE, SINK, ADV, text, '''
void harness(void) { vp_one = 1; vp_mkreader(); g_strings = 0; line_ = nondet_int(); __CPROVER_assume(line_ >= 0 && line_ < 100000000); %s
  %s(%s); VP_REACH("normal return"); }
''' % (pre, name, arg)]
    return Harness('C02.stub.' + name, 'C02', parts, enforce=name,
                   note='the constructive stub used by callers satisfies the contract proved for the real function')


_drv = [None]


def replay(lead, inputs, obs):
    """Contract counterexamples of the leaf readers start from an arbitrary cursor state, not from a file: the native
    replay runs the real mp::ReadNLString under ASan/UBSan on the recorded hostile inputs in replay/inputs/*.nl."""
    import glob
    import os
    import subprocess
    from vp.run import BUILD, VERIF
    repo = os.environ.get('VP_REPO', '/repo')
    if _drv[0] is None:
        out = os.path.join(BUILD, 'replay', 'c02_replay')
        os.makedirs(os.path.dirname(out), exist_ok=True)
        cmd = ['g++', '-std=c++17', '-g', '-O0', '-w', '-fsanitize=address,undefined,float-cast-overflow', '-fno-sanitize-recover=all',
               '-I', repo + '/include', '-I', repo + '/src', os.path.join(VERIF, 'replay', 'c02_replay.cc')] + \
              [os.path.join(repo, 'src', x) for x in ('nl-reader.cc', 'format.cc', 'os.cc', 'posix.cc')] + \
              [os.path.join(extract.generated_dir(), 'expr-info.cc'), '-o', out]
        p = subprocess.run(cmd, capture_output=True, text=True)
        if p.returncode != 0:
            return False, 'replay driver build failed: ' + p.stderr[-1500:], ' '.join(cmd)
        _drv[0] = out
    tried = []
    for f in sorted(glob.glob(os.path.join(VERIF, 'replay', 'inputs', '*.nl'))):
        for flags in ('0', '1'):
            args = [_drv[0], f, flags]
            p = subprocess.run(args, capture_output=True, text=True, timeout=120)
            tried.append(os.path.basename(f))
            if p.returncode != 0:
                return True, (p.stdout + p.stderr)[-2500:], ' '.join(args)
    return False, 'not reproduced by the recorded inputs %s' % sorted(set(tried)), ''


def harnesses(tier, seed):
    hs = _harnesses(tier, seed)
    for h in hs:
        if h.replay is None:
            h.replay = replay
    return hs


def _harnesses(tier, seed):
    hs = [h_text(n) for n in DEPS]
    hs += [h_stub(n) for n in STUBS]
    hs.append(h_readheader())
    hs.append(h_doreporterror())
    hs += [h_bin_read()] + [h_bin_int(n) for n in BIN] + [h_bin_uint(), h_bin_double(), h_bin_string(), h_convert()]
    hs += [h_nlr_uint1(), h_nlr_uint2(), h_nlr_numargs(), h_nlr_opcode(), h_nlr_linear()]
    from specs import C02_items
    hs += C02_items.harnesses()
    from specs import C02_expr
    hs += C02_expr.harnesses()
    from specs import C02_read
    hs += C02_read.harnesses()
    from specs import C02_header
    hs += C02_header.harnesses()
    return hs
