"""C16 - GSL bindings: an explicit error instead of a silent NaN (src/gsl/amplgsl.cc).

amplgsl.cc is C-style.  (A) The helper functions get function and loop contracts (any argument count).  (B) Every
registered binding amplgsl_* is checked by a plain CBMC harness over its real body: the whole binding section of the
file is compiled as C against the installed GSL headers (prototypes only) and a stub of ASL's funcadd.h; every GSL
function is given a havocking body (arbitrary return value, arbitrary gsl_sf_result), so the proof holds for ANY
behaviour of GSL including NaN results and error statuses.  The loops of the helpers are bounded by the binding's arity
(a constant from the registration table), so they unwind completely: complete, not bounded.
"""
import re

from vp import extract
from vp.extract import Fn
from vp.run import Harness, SHIMS

GSL = 'src/gsl/amplgsl.cc'

META = {
    'decides': 'for every registered binding (arity from the registration table), every argument vector, every request mode '
               '(value / first / first and second derivatives) and ANY behaviour of the GSL functions: when the call returns without '
               'an error message the value is not NaN and the requested derivative / Hessian entries are not NaN; derivative and '
               'Hessian arrays are written only inside their n and n(n+1)/2 entries; the error message buffer is never overrun; the '
               'helper checks (check_args, check_result, check_int_arg, check_uint_arg, check_const_arg, check_zero_func_args, '
               'check_deriv_arg, check_bessel_args) set an error whenever they reject',
    'not_decided': 'agreement of derivatives with numerical differentiation, determinism of GSL, "derivative w.r.t. an integer argument '
                   'is an error" per function (no checkable table in the repository), stale (unwritten) derivative slots, the float->int '
                   'casts of arguments that precede their validation (outside the statement; x86 semantics)',
    'not_under_contract': ['funcadd_ASL registration', 'the GSL library itself (arbitrary behaviour assumed)'],
    'assumptions': ['ASL funcadd.h is a stub written from its public interface (thirdparty/asl is empty here)',
                    'AmplExports::Tempmem returns a block of the requested size; SnprintF/VsnprintF write at most `size` bytes and return the would-be length',
                    'GSL functions: arbitrary return values and arbitrary output parameters, no other side effects'],
    'trusted_base': ['shims/asl/funcadd.h', '/usr/include/gsl headers (prototypes)'],
}

IGNORE = [r'float to (signed|unsigned) integer type conversion', r'type conversion']

HELP_PRE = '''
#include "mp_shim.h"
#include <math.h>
#include "asl/funcadd.h"
int vp_one;
enum { MAX_ERROR_MESSAGE_SIZE = VP_MAX_ERR };
#define gsl_isnan(x) ((x) != (x))
char g_msg[8];                 /* some message */
/* AmplExports */
static void *vp_Tempmem(size_t size) { return vp_malloc(size ? size : 1); }
static int vp_snprintf(char *buf, size_t size) {
  __CPROVER_assert(size <= __CPROVER_OBJECT_SIZE(buf) - __CPROVER_POINTER_OFFSET(buf) && __CPROVER_POINTER_OFFSET(buf) <= __CPROVER_OBJECT_SIZE(buf),
                   "SnprintF: the size passed does not exceed the space left in the message buffer");
  int r = nondet_int(); __CPROVER_assume(r >= 0 && r <= 100000);   /* would-be length */
  return r;
}
#define VP_SNPRINTF(buf, size, ...) vp_snprintf((buf), (size))
static void vp_set_error(arglist *al) { al->Errmsg = g_msg; }
#define error(al, ...) vp_set_error(al)
static void vp_deriv_error(arglist *al) { if (al->Errmsg) return; al->Errmsg = g_msg; }
#define deriv_error(al, ...) vp_deriv_error(al)
size_t g_w;
static arglist *vp_mkargs(int nmax) {
  arglist *al = vp_malloc(sizeof(arglist));
  int n = nondet_int(); __CPROVER_assume(n >= 1 && n <= nmax);
  al->n = n; al->ra = vp_malloc((size_t)n * sizeof(real));
  al->derivs = nondet_bool() ? vp_malloc((size_t)n * sizeof(real)) : (real *)0;
  al->hes = (al->derivs && nondet_bool()) ? vp_malloc(((size_t)n * ((size_t)n + 1) / 2) * sizeof(real)) : (real *)0;
  al->dig = nondet_bool() ? vp_malloc((size_t)n) : (char *)0;
  al->Errmsg = (char *)0; al->funcinfo = "gsl_function"; al->AE = 0; al->TMI = 0;
  g_w = nondet_size_t();
  return al;
}
#define AL_OK(al) (__CPROVER_w_ok(al, sizeof(arglist)) && (al)->n >= 1 && (al)->n <= 1000 && \\
   __CPROVER_OBJECT_SIZE((al)->ra) == (size_t)(al)->n * sizeof(real) && __CPROVER_POINTER_OFFSET((al)->ra) == 0 && \\
   ((al)->derivs == 0 || (__CPROVER_OBJECT_SIZE((al)->derivs) == (size_t)(al)->n * sizeof(real) && __CPROVER_POINTER_OFFSET((al)->derivs) == 0)) && \\
   ((al)->hes == 0 || ((al)->derivs != 0 && __CPROVER_OBJECT_SIZE((al)->hes) == ((size_t)(al)->n * ((size_t)(al)->n + 1) / 2) * sizeof(real) && __CPROVER_POINTER_OFFSET((al)->hes) == 0)) && \\
   ((al)->dig == 0 || (__CPROVER_OBJECT_SIZE((al)->dig) == (size_t)(al)->n && __CPROVER_POINTER_OFFSET((al)->dig) == 0)))
'''


def max_err():
    txt = extract.read_repo(GSL)
    m = re.search(r'enum \{ MAX_ERROR_MESSAGE_SIZE = (\d+) \};', txt)
    if not m:
        raise extract.ExtractionError('MAX_ERROR_MESSAGE_SIZE not found')
    return m.group(1)


def pre():
    return HELP_PRE.replace('VP_MAX_ERR', max_err())


AE_SUBST = [(r'al->AE->SnprintF\(', 'VP_SNPRINTF(', -1), (r'al->AE->Tempmem\(al->TMI, size\)', 'vp_Tempmem(size)', -1)]


def h_format_eval_error():
    parts = [pre(),
             Fn(GSL, r'static char\* allocate_string\(arglist \*al, size_t size\)', 'char *allocate_string(arglist *al, size_t size)',
                subst=AE_SUBST, label='allocate_string', nmatches=1),
             Fn(GSL, r'static void format_eval_error\(arglist \*al, char prefix, const char \*suffix\)',
                'void format_eval_error(arglist *al, char prefix, const char *suffix)',
                contract='__CPROVER_requires(AL_OK(al)) __CPROVER_ensures(al->Errmsg != 0) __CPROVER_assigns(al->Errmsg)',
                subst=AE_SUBST,
                loops={0: '__CPROVER_assigns(i, n) __CPROVER_loop_invariant(0 <= i && i <= al->n - 1 && n >= 0 && '
                          '__CPROVER_same_object(message, al->Errmsg) && __CPROVER_POINTER_OFFSET(message) == (prefix ? 1 : 0) && '
                          '__CPROVER_OBJECT_SIZE(al->Errmsg) == (size_t)MAX_ERROR_MESSAGE_SIZE + (prefix ? 1 : 0)) __CPROVER_decreases(al->n - 1 - i)'},
                label='format_eval_error', nmatches=1),
             'void harness(void) { vp_one = 1; arglist *al = vp_mkargs(1000); format_eval_error(al, nondet_char(), "x"); VP_REACH("normal return"); }\n']
    return Harness('C16.format_eval_error', 'C16', parts, enforce='format_eval_error', loop_contracts=True, expect_loop_obligations=1,
                   ignore=IGNORE, stubs=['AmplExports::SnprintF (would-be length, asserts size <= space left)', 'AmplExports::Tempmem'])


FEE_STUB = '''
/* format_eval_error / eval_error: contract proved by C16.format_eval_error: an error message is set */
static void format_eval_error(arglist *al, char prefix, const char *suffix) { al->Errmsg = g_msg; }
'''


def eval_error_fn():
    return Fn(GSL, r'static void eval_error\(arglist \*al\)', 'void eval_error(arglist *al)', label='eval_error', nmatches=1)


def h_check_args():
    parts = [pre(), FEE_STUB, eval_error_fn(),
             Fn(GSL, r'static int check_args\(arglist \*al\)', 'int check_args(arglist *al)',
                contract='__CPROVER_requires(AL_OK(al)) '
                         '__CPROVER_ensures(__CPROVER_return_value == 0 || __CPROVER_return_value == 1) '
                         '__CPROVER_ensures(__CPROVER_return_value == 0 ==> al->Errmsg != 0) '
                         '__CPROVER_ensures((__CPROVER_return_value == 1 && g_w < (size_t)al->n) ==> al->ra[g_w] == al->ra[g_w]) '
                         '__CPROVER_ensures(__CPROVER_return_value == 1 ==> al->Errmsg == __CPROVER_old(al->Errmsg)) '
                         '__CPROVER_assigns(al->Errmsg)',
                loops={0: '__CPROVER_assigns(i) __CPROVER_loop_invariant(0 <= i && i <= al->n && (g_w < (size_t)i ==> al->ra[g_w] == al->ra[g_w])) __CPROVER_decreases(al->n - i)'},
                label='check_args', nmatches=1),
             'void harness(void) { vp_one = 1; arglist *al = vp_mkargs(1000); check_args(al); VP_REACH("normal return"); }\n']
    return Harness('C16.check_args', 'C16', parts, enforce='check_args', loop_contracts=True, expect_loop_obligations=1, ignore=IGNORE)


CR_ENS = ('(al->Errmsg == 0 ==> (__CPROVER_return_value == result && result == result && '
          '(g_w < (size_t)al->n ==> al->ra[g_w] == al->ra[g_w]) && '
          '((al->derivs != 0 && g_w < (size_t)al->n) ==> al->derivs[g_w] == al->derivs[g_w]) && '
          '((al->derivs != 0 && al->hes != 0 && g_w < (size_t)al->n * ((size_t)al->n + 1) / 2) ==> al->hes[g_w] == al->hes[g_w])))')


def h_check_result():
    parts = [pre(), FEE_STUB, eval_error_fn(),
             Fn(GSL, r'static double check_result\(arglist \*al, double result\)', 'double check_result(arglist *al, double result)',
                contract='__CPROVER_requires(AL_OK(al)) __CPROVER_ensures(%s) '
                         '__CPROVER_ensures(__CPROVER_old(al->Errmsg) != 0 ==> al->Errmsg != 0) __CPROVER_assigns(al->Errmsg)' % CR_ENS,
                loops={0: '__CPROVER_assigns(i) __CPROVER_loop_invariant(0 <= i && i <= al->n && (g_w < (size_t)i ==> al->ra[g_w] == al->ra[g_w])) __CPROVER_decreases(al->n - i)',
                       1: '__CPROVER_assigns(i) __CPROVER_loop_invariant(0 <= i && i <= al->n && (g_w < (size_t)i ==> al->derivs[g_w] == al->derivs[g_w])) __CPROVER_decreases(al->n - i)',
                       2: '__CPROVER_assigns(i) __CPROVER_loop_invariant(0 <= i && i <= n && n == al->n * (al->n + 1) / 2 && (g_w < (size_t)i ==> al->hes[g_w] == al->hes[g_w])) __CPROVER_decreases(n - i)'},
                label='check_result', nmatches=1),
             'void harness(void) { vp_one = 1; arglist *al = vp_mkargs(1000); al->Errmsg = nondet_bool() ? g_msg : (char *)0; check_result(al, nondet_double()); VP_REACH("normal return"); }\n']
    return Harness('C16.check_result', 'C16', parts, enforce='check_result', loop_contracts=True, expect_loop_obligations=3, ignore=IGNORE)


SMALL = {
    # name: (anchor, proto, call args, contract ensures)
    'check_const_arg': (r'static int check_const_arg\(arglist \*al, unsigned index, const char \*name\)', 'int check_const_arg(arglist *al, unsigned index, const char *name)',
                        'al, idx, "n"', '(__CPROVER_return_value == 0 ==> al->Errmsg != 0) && (__CPROVER_return_value == 1 ==> (al->dig != 0 && al->dig[index] != 0))', 'index < (unsigned)al->n'),
    'check_int_arg': (r'static int check_int_arg\(arglist \*al, unsigned index, const char \*name\)', 'int check_int_arg(arglist *al, unsigned index, const char *name)',
                      'al, idx, "n"', '(__CPROVER_return_value == 0 ==> al->Errmsg != 0) && ((__CPROVER_return_value != 0 && al->derivs != 0 && !(al->dig != 0 && al->dig[index] != 0)) ==> al->Errmsg != 0)', 'index < (unsigned)al->n'),
    'check_uint_arg': (r'static int check_uint_arg\(arglist \*al, unsigned index, const char \*name\)', 'int check_uint_arg(arglist *al, unsigned index, const char *name)',
                       'al, idx, "n"', '(__CPROVER_return_value == 0 ==> al->Errmsg != 0) && ((__CPROVER_return_value != 0 && al->derivs != 0 && !(al->dig != 0 && al->dig[index] != 0)) ==> al->Errmsg != 0)', 'index < (unsigned)al->n'),
    'check_zero_func_args': (r'static int check_zero_func_args\(arglist \*al, unsigned s_index\)', 'int check_zero_func_args(arglist *al, unsigned s_index)',
                             'al, idx', '(__CPROVER_return_value == 0 ==> al->Errmsg != 0) && ((__CPROVER_return_value != 0 && al->derivs != 0) ==> al->Errmsg != 0)', 's_index < (unsigned)al->n'),
    'check_deriv_arg': (r'static int check_deriv_arg\(arglist \*al, int arg, int min, int max\)', 'int check_deriv_arg(arglist *al, int arg, int min, int max)',
                        'al, nondet_int(), nondet_int(), nondet_int()', '(__CPROVER_return_value == 0 ==> al->Errmsg != 0) && (__CPROVER_return_value == 1 ==> (min <= arg && arg <= max))', '1'),
}


def small_parts(names):
    return [Fn(GSL, SMALL[n][0], SMALL[n][1], label=n, nmatches=1) for n in names]


def h_small(name):
    anchor, proto, args, ens, req = SMALL[name]
    deps = {'check_int_arg': ['check_const_arg'], 'check_uint_arg': ['check_const_arg'], 'check_zero_func_args': ['check_const_arg']}.get(name, [])
    parts = [pre(), 'static const char *const DERIVS_NOT_PROVIDED = "derivatives are not provided";\n'] + small_parts(deps) + [
        Fn(GSL, anchor, proto, contract='__CPROVER_requires(AL_OK(al) && %s) __CPROVER_ensures(%s) __CPROVER_assigns(al->Errmsg)' % (req, ens),
           label=name, nmatches=1),
        'void harness(void) { vp_one = 1; arglist *al = vp_mkargs(8); unsigned idx = nondet_unsigned(); __CPROVER_assume(idx < (unsigned)al->n); al->Errmsg = nondet_bool() ? g_msg : (char *)0; %s(%s); VP_REACH("normal return"); }\n' % (name, args)]
    return Harness('C16.' + name, 'C16', parts, enforce=name, ignore=IGNORE)


def h_mul_by_sign():
    """mul_by_sign(x, y) = sign(x) * y, the chain-rule factor of |x|: 0 when y is 0; a number for finite x != 0 (that it is exactly +-y needs the
    double division x / |x| = +-1, which no installed back end decides: not claimed); and NaN when x is 0 and
    y is not - |x| has no derivative at 0, the NaN is what makes check_result report the error instead of handing a number to AMPL."""
    parts = ['#include "mp_shim.h"\n#include <math.h>\nint vp_one;\n',
             Fn(GSL, r'static double mul_by_sign\(double x, double y\)', 'double mul_by_sign(double x, double y)',
                contract='__CPROVER_requires(x == x && y == y) '
                         '__CPROVER_ensures(y == 0.0 ==> __CPROVER_return_value == 0.0) '
                         '__CPROVER_ensures((x == 0.0 && y != 0.0) ==> __CPROVER_return_value != __CPROVER_return_value) '
                         '__CPROVER_ensures((x != 0.0 && x > -__builtin_inf() && x < __builtin_inf() && y > -__builtin_inf() && y < __builtin_inf()) ==> __CPROVER_return_value == __CPROVER_return_value) __CPROVER_assigns()',
                label='mul_by_sign', nmatches=1),
             'void harness(void) { vp_one = 1; mul_by_sign(nondet_double(), nondet_double()); VP_REACH("normal return"); }\n']
    return Harness('C16.mul_by_sign', 'C16', parts, enforce='mul_by_sign', timeout=600,
                   note='the derivative factor of |x|: no value at the kink (NaN => error through check_result)')


def h_bessel():
    parts = [pre(), 'static const char *const DERIVS_NOT_PROVIDED = "derivatives are not provided";\nenum { DERIV_INT_MIN = 1 };\n'] + \
        small_parts(['check_const_arg', 'check_int_arg', 'check_deriv_arg']) + [
        Fn(GSL, r'static int check_bessel_args\(arglist \*al, int flags, const char \*arg_name\)', 'int check_bessel_args(arglist *al, int flags, const char *arg_name)',
           contract='__CPROVER_requires(AL_OK(al)) __CPROVER_ensures(__CPROVER_return_value == 0 ==> al->Errmsg != 0) __CPROVER_assigns(al->Errmsg)',
           label='check_bessel_args', nmatches=1),
        'void harness(void) { vp_one = 1; arglist *al = vp_mkargs(8); al->Errmsg = nondet_bool() ? g_msg : (char *)0; check_bessel_args(al, nondet_int(), "n"); VP_REACH("normal return"); }\n']
    return Harness('C16.check_bessel_args', 'C16', parts, enforce='check_bessel_args', ignore=IGNORE)


# ------------------------------------------------------------------------------------------------ bindings

# every gsl_* function and the libm functions CBMC has no model for: arbitrary results
LIBM_AND_GSL = '^(gsl_.*|tan|atan|sinh|cosh|tanh|asinh|acosh|atanh|expm1|log1p|hypot|cbrt|erf|erfc|lgamma|tgamma|atan2|asin|acos)$'

BIND_PRE = '''
#include "mp_shim.h"
#include <math.h>
#include <stdarg.h>
#include <gsl/gsl_errno.h>
#include <gsl/gsl_math.h>
#include <gsl/gsl_complex_math.h>
#include <gsl/gsl_sf.h>
#include <gsl/gsl_cdf.h>
#include <gsl/gsl_randist.h>
#include <gsl/gsl_version.h>
#include "asl/funcadd.h"
int vp_one;
/* the NaN test keeps its meaning; every other gsl_* function is arbitrary */
int gsl_isnan(const double x) { return x != x; }
/* AmplExports of the harness */
static char g_errbuf[128];
static void *vp_tempmem(TMInfo *t, size_t n) { __CPROVER_assert(n <= sizeof g_errbuf, "message buffer request fits"); return g_errbuf; }
static int vp_vsnprintf(char *b, size_t n, const char *f, va_list ap) { if (n) b[0] = 0; return nondet_int(); }
static int vp_snprintf(char *b, size_t n, const char *f, ...) { return 0; }
'''


def bindings_table():
    txt = extract.blank_comments(extract.read_repo(GSL))
    tab = re.findall(r'\bADDFUNC(_RANDOM)?\(\s*(gsl_\w+)\s*,\s*(-?\d+)\s*\)', txt)
    if len(tab) < 300:
        raise extract.ExtractionError('only %d ADDFUNC registrations found' % len(tab))
    return [(name, int(n), bool(rnd)) for rnd, name, n in tab]


def binding_section():
    """The helper and binding section of amplgsl.cc (from MAX_ERROR_MESSAGE_SIZE up to the registration macros), as C."""
    ex = extract.find_block(GSL, r'enum \{ MAX_ERROR_MESSAGE_SIZE', r'(?=#define ADDFUNC\(name, num_args\))')
    rules = extract.Rules()
    body = rules.apply(ex.body, skip=('R17', 'R10', 'R14', 'R19', 'R3', 'R6'))
    # format_eval_error is replaced by its contract (proved by C16.format_eval_error; it is the only user of SnprintF)
    body, n1 = re.subn(r'static void format_eval_error\(arglist \*al, char prefix, const char \*suffix\) \{.*?\n\}\n',
                       'static void format_eval_error(arglist *al, char prefix, const char *suffix) { al->Errmsg = g_errbuf; }\n'
                       + '\n' * 0, body, count=1, flags=re.S)
    if n1 != 1:
        raise extract.ExtractionError('format_eval_error not found in the binding section')
    info = {'function': 'amplgsl.cc binding section (helpers + all amplgsl_* bindings)', 'c_name': 'section', 'file': GSL, 'line': ex.line,
            'end_line': ex.end_line, 'instantiation': None, 'rules_fired': dict(rules.fired),
            'spec_substitutions': [{'pattern': 'format_eval_error body', 'replacement': 'contract stub (sets Errmsg)', 'fired': 1}],
            'signature_dropped': ''}
    # ghost: every GSL function with a status result (the *_e family, called directly or pasted by WRAP_CHECKED) reports a
    # failure through vp_status, so "GSL could not compute the value => an error message is set" becomes an assertion
    names = set(re.findall(r'\b(gsl_\w+_e)\s*\(', body)) | set(n + '_e' for n in re.findall(r'\bWRAP_CHECKED\(\s*(gsl_\w+)\s*,', body))
    if len(names) < 40:
        raise extract.ExtractionError('only %d GSL status functions found in the binding section' % len(names))
    info['status_functions'] = len(names)
    _status_names[:] = sorted(names)
    macros = 'int g_gsl_failed;\nstatic int vp_status(int s) { if (s != 0) g_gsl_failed = 1; return s; }\n' + \
             ''.join('#define %s(...) vp_status(%s(__VA_ARGS__))\n' % (n, n) for n in sorted(names))
    text = '%s#line %d "%s"\n%s\n' % (macros, ex.line, '/repo/' + GSL, body)
    return text, info


class Section:
    """pre-rendered part with evidence info (duck-typed like extract.Fn)"""

    def __init__(self, text, info):
        self.text, self.info = text, info

    def render(self):
        return self.text


def h_binding(name, nargs, section):
    n = abs(nargs) if nargs != 0 else 1
    nh = n * (n + 1) // 2
    body = '''
void harness(void) {
  vp_one = 1;
  static AmplExports ae; ae.Tempmem = vp_tempmem; ae.VsnprintF = vp_vsnprintf; ae.SnprintF = vp_snprintf;
  arglist al; real ra[%d], derivs[%d], hes[%d]; char dig[%d];
  for (int k = 0; k < %d; ++k) { ra[k] = nondet_double(); derivs[k] = nondet_double(); dig[k] = nondet_char(); }
  for (int k = 0; k < %d; ++k) hes[k] = nondet_double();
  al.n = %d; al.nr = %d; al.ra = ra; al.at = 0; al.sa = 0;
  al.derivs = nondet_bool() ? derivs : (real *)0;
  al.hes = (al.derivs && nondet_bool()) ? hes : (real *)0;
  al.dig = nondet_bool() ? dig : (char *)0;
  al.funcinfo = "%s"; al.AE = &ae; al.TMI = 0; al.Errmsg = 0; al.f = 0; al.tva = 0; al.Private = 0;
  VP_RECORD_INPUTS
  g_gsl_failed = 0;
  double r = ampl%s(&al);
  if (g_gsl_failed) __CPROVER_assert(al.Errmsg != 0, "a GSL function reported a failure status (the value cannot be computed): an error message is set");
  if (al.Errmsg == 0) {
    __CPROVER_assert(r == r, "no error reported: the value is not NaN");
    if (al.derivs) for (int k = 0; k < %d; ++k) __CPROVER_assert(derivs[k] == derivs[k], "no error reported: requested first derivatives are not NaN");
    if (al.hes) for (int k = 0; k < %d; ++k) __CPROVER_assert(hes[k] == hes[k], "no error reported: requested second derivatives are not NaN");
  }
  VP_REACH("end");
}
''' % (n, n, nh, n, n, nh, n, n, name, name, n, nh)
    rec = 'double ' + ', '.join('vp_in_ra%d' % k for k in range(n)) + '; int vp_in_mode;\n#define VP_RECORD_INPUTS ' + \
          ' '.join('vp_in_ra%d = ra[%d];' % (k, k) for k in range(n)) + ' vp_in_mode = al.hes ? 2 : (al.derivs ? 1 : 0);\n'
    return Harness('C16.binding.' + name, 'C16', [BIND_PRE, rec, section, body], plain=True, replay=make_replay(name, n),
                   inputs=['vp_in_mode'] + ['vp_in_ra%d' % k for k in range(n)], gen_bodies=LIBM_AND_GSL, ignore=IGNORE, timeout=900, backend='cadical',
                   stubs=['every gsl_* function (arbitrary behaviour)', 'AmplExports (Tempmem, SnprintF, VsnprintF)'],
                   note='arity %d from the registration table; helper loops unwind completely' % n)


_drv = [None]
_status_names = []


def make_replay(name, n):
    def replay(lead, inputs, obs):
        import os
        import subprocess
        from vp.run import BUILD, VERIF
        repo = os.environ.get('VP_REPO', '/repo')
        if _drv[0] is None:
            out = os.path.join(BUILD, 'replay', 'c16_replay')
            os.makedirs(os.path.dirname(out), exist_ok=True)
            wrap = os.path.join(BUILD, 'replay', 'c16_status_wrap.h')
            incs = re.findall(r'^#include <gsl/[\w.]+>', extract.read_repo(GSL), re.M)
            with open(wrap, 'w') as f:
                f.write('/* generated: GSL headers of amplgsl.cc first (include guards), then every *_e call reports its status */\n' + '\n'.join(incs) +
                        '\n#ifdef __cplusplus\nextern "C"\n#endif\nint vp_status(int);\n' +
                        ''.join('#define %s(...) vp_status(%s(__VA_ARGS__))\n' % (x, x) for x in _status_names))
            cmd = ['g++', '-std=c++17', '-g', '-w', '-fsanitize=address,undefined', '-fno-sanitize-recover=all', '-I', os.path.join(VERIF, 'shims', 'asl'),
                   '-include', wrap, os.path.join(VERIF, 'replay', 'c16_replay.cc'), os.path.join(repo, 'src/gsl/amplgsl.cc'), '-lgsl', '-lgslcblas', '-lm', '-o', out]
            p = subprocess.run(cmd, capture_output=True, text=True)
            if p.returncode != 0:
                return False, 'replay driver build failed: ' + p.stderr[-1500:], ' '.join(cmd)
            _drv[0] = out

        def num(v):
            v = str(v).rstrip('fl')
            return 'nan' if 'NAN' in v.upper() else ('1e999' if v.upper().startswith('+INF') or v.upper() == 'INFINITY' else ('-1e999' if 'INF' in v.upper() else v))
        def exact(k):
            b = inputs.get('vp_in_ra%d#bin' % k)
            if b and len(b) == 64:
                import struct
                v = struct.unpack('>d', int(b, 2).to_bytes(8, 'big'))[0]
                return 'nan' if v != v else repr(v).replace('inf', '1e999')
            return num(inputs.get('vp_in_ra%d' % k, '0'))
        env = dict(os.environ, ASAN_OPTIONS='detect_leaks=0')
        text = ''
        pt = [exact(k) for k in range(n)] if 'vp_in_ra0' in inputs else []
        if pt:
            args = [_drv[0], name, str(inputs.get('vp_in_mode', '0'))] + pt
            try:
                p = subprocess.run(args, capture_output=True, text=True, env=env, timeout=60)
                text = p.stdout + p.stderr
                if p.returncode != 0:
                    return True, text[-2500:], 'ASAN_OPTIONS=detect_leaks=0 ' + ' '.join(args)
            except subprocess.TimeoutExpired:
                text = 'the verifier\'s point did not finish natively within 60 s\n'
        # GSL is arbitrary for the verifier, so its point rarely fails with the real GSL: probe grid over the arguments, all three request modes
        args = [_drv[0], 'sweep', name, str(n)] + pt
        try:
            p = subprocess.run(args, capture_output=True, text=True, env=env, timeout=90)
        except subprocess.TimeoutExpired:
            return False, text + 'probe sweep did not finish within 90 s', ''
        return p.returncode == 10, (text + p.stdout + p.stderr)[-2500:], 'ASAN_OPTIONS=detect_leaks=0 ' + ' '.join(args)
    return replay


def harnesses(tier, seed):
    hs = [h_format_eval_error(), h_check_args(), h_check_result(), h_bessel(), h_mul_by_sign()] + [h_small(n) for n in SMALL]
    text, info = binding_section()
    section = Section(text, info)
    tab = bindings_table()
    # both tiers check every registered binding (about 2 minutes on 16 cores with the cadical back end)
    for name, nargs, rnd_ in tab:
        hs.append(h_binding(name, nargs, section))
    if tier == 'thorough':
        # second back end (MiniSat) on a seed-chosen 10% sample of the bindings: guards against a back-end specific error
        import random
        rnd = random.Random(seed)
        for name, nargs, rnd_ in rnd.sample(tab, max(1, len(tab) // 10)):
            if name == 'gsl_sf_bessel_il_scaled':
                continue        # ~280 s with MiniSat (40 s with cadical)
            h = h_binding(name, nargs, section)
            h.name += '.minisat'
            h.backend = 'sat'
            hs.append(h)
    return hs
