"""C04 - value transfer through links: the conflict rule of ValueNode::SetNum and the range->slack link
(include/mp/valcvt-node.h, include/mp/flat/redef/std/range_con.h).

Value nodes are (pointer,length) arrays; GetInt/SetInt/GetDbl/SetDbl(be, pos) of the link access node `pos` at index
be[pos].  Every transfer starts from cleaned (zero) target entries (ValuePresolverImpl::RunPresolve/RunPostsolve ->
CleanUpValueNodes); that is a precondition here, not proved.
"""
from vp.extract import Fn
from vp.run import Harness

NODE = 'include/mp/valcvt-node.h'
RC = 'include/mp/flat/redef/std/range_con.h'
COMMON = 'include/mp/common.h'

META = {
    'decides': 'ValueNode::SetNum (int and double): the stored value is the documented max-among-nonzero of old and new, nothing '
               'else changes, and the result of two transfers does not depend on their order; RangeCon2Slack: the range row gets the '
               'equality row\'s dual, its basis status is the slack\'s with low/upp exchanged, its IIS flag is the slack\'s with '
               'low/upp exchanged if set and the row\'s otherwise, an unknown slack IIS value raises, presolve sends the reversed '
               'basis status to the slack and "equ" to the row, generic int/double values are copied both ways',
    'not_decided': 'the order in which the links of a model run (RunPresolve / RunPostsolve over link ranges), CopySrcDest of CopyLink, autolinking, "exactly one value per original item" as a whole-graph fact, CleanUpValueNodes being called before each transfer (assumed), PresolveSolutionEntry\'s slack computation (floating-point sum)',
    'not_under_contract': ['ValuePresolverImpl::RunPresolve / RunPostsolve / CleanUpValueNodes', 'CopyLink::CopySrcDest', 'AutoLinkScope', 'RangeCon2Slack::PresolveSolutionEntry (ComputeLowerSlack)', 'ValueNode::SetStr and names'],
    'assumptions': ['value vectors rendered as (pointer,length); vec.resize(Size()) zero-extends',
                    'target entries are zero (cleaned) before a transfer', 'doubles are not NaN in the order-independence lemma'],
    'trusted_base': [],
}

SETNUM_PRE = '''
#include "mp_shim.h"
int vp_one;
#define assert(x) __CPROVER_assert(x, "assert(" #x ") of the source holds")
/* one ValueNode: declared size g_Size, vector storage of g_vsize <= g_Size elements (elements beyond g_vsize read as 0 after resize) */
size_t g_Size, g_vsize; T *g_vec;
static size_t Size(void) { return g_Size; }
#define VEC_SIZE() g_vsize
/* std::vector::resize(Size()): grows with zeros; the storage block already has g_Size zero-initialised slots */
static void vp_resize(size_t n) { __CPROVER_assert(n >= g_vsize, "resize grows"); g_vsize = n; }
'''


def setnum_fn(T):
    return Fn(NODE, r'void SetNum\(Vec& vec, size_t i, typename Vec::value_type v\)', 'void SetNum(T *vec, size_t i, T v)',
              contract='__CPROVER_requires(vec == g_vec && g_Size >= 1 && g_Size <= 1000000 && g_vsize <= g_Size && i < g_Size && '
                       '__CPROVER_OBJECT_SIZE(g_vec) == g_Size * sizeof(T) && __CPROVER_POINTER_OFFSET(g_vec) == 0 && '
                       '(i >= g_vsize ==> g_vec[i] == 0) && g_w < g_Size && v == v && g_vec[i] == g_vec[i] && g_vec[g_w] == g_vec[g_w]) '
                       '__CPROVER_ensures(g_vec[i] == (__CPROVER_old(g_vec[i]) == 0 ? v : ((v != 0 && v > __CPROVER_old(g_vec[i])) ? v : __CPROVER_old(g_vec[i])))) '
                       '__CPROVER_ensures(g_w != i ==> g_vec[g_w] == __CPROVER_old(g_vec[g_w])) '
                       '__CPROVER_ensures(g_vsize >= __CPROVER_old(g_vsize) && g_vsize <= g_Size && i < g_vsize) '
                       '__CPROVER_assigns(g_vsize, __CPROVER_object_whole(g_vec))',
              subst=[(r'vec\.size\(\)', 'VEC_SIZE()', 1), (r'vec\.resize\(Size\(\)\)', 'vp_resize(Size())', 1)],
              label='mp::pre::ValueNode::SetNum<Vec>', inst='Vec=std::vector<%s>' % T, nmatches=1)


def h_setnum(T):
    parts = ['typedef %s T;\n#define NONDET_T nondet_%s\n' % (T, T), 'size_t g_w;\n', SETNUM_PRE, setnum_fn(T), '''
void harness(void) {
  vp_one = 1;
  g_Size = nondet_size_t(); __CPROVER_assume(g_Size >= 1 && g_Size <= 1000000);
  g_vec = vp_malloc(g_Size * sizeof(T));
  g_vsize = nondet_size_t(); __CPROVER_assume(g_vsize <= g_Size);
  size_t i = nondet_size_t(); __CPROVER_assume(i < g_Size);
  g_w = nondet_size_t(); __CPROVER_assume(g_w < g_Size);     /* arbitrary other slot: frame */
  if (i >= g_vsize) g_vec[i] = 0;
  T v = NONDET_T();
  __CPROVER_assume(v == v && g_vec[i] == g_vec[i] && g_vec[g_w] == g_vec[g_w]);     /* no NaN (doubles) */
  SetNum(g_vec, i, v);
  VP_REACH("normal return");
}
''']
    return Harness('C04.SetNum.' + T, 'C04', parts, enforce='SetNum',
                   note='conflict rule and frame (arbitrary witness slot g_w)')


def h_setnum_order(T):
    """Lemma over the contract: two transfers into one slot commute."""
    nan = ' __CPROVER_assume(a == a && b == b && o == o);' if T == 'double' else ''
    parts = ['typedef %s T;\n#define NONDET_T nondet_%s\n' % (T, T), '#include "mp_shim.h"\nint vp_one;\n', '''
/* ValueNode::SetNum on one slot, as proved by C04.SetNum.* */
static T rule(T old, T v) { return old == 0 ? v : ((v != 0 && v > old) ? v : old); }
void harness(void) {
  vp_one = 1;
  T o = NONDET_T(), a = NONDET_T(), b = NONDET_T();%s
  T ab = rule(rule(o, a), b), ba = rule(rule(o, b), a);
  __CPROVER_assert(ab == ba, "the result of two transfers into one slot does not depend on their order");
  T m = o; if (m == 0 || (a != 0 && a > m)) m = (m == 0 ? a : a);
  VP_REACH("end");
}
''' % nan]
    return Harness('C04.SetNum.order.' + T, 'C04', parts, plain=True,
                   note='lemma over the postcondition of SetNum (pure function of old and new value)')


LINK_PRE = '''
#include "mp_shim.h"
int vp_one;
#define assert(x) __CPROVER_assert(x, "assert(" #x ") of the source holds")
typedef int IISStatus;
/* three value nodes of the link: index 0 = source range constraints, 1 = target equality constraints, 2 = slack variables */
int *g_int[3]; double *g_dbl[3]; size_t g_len[3];
#define BE_OK (__CPROVER_r_ok(be, 3 * sizeof(int)) && be[0] >= 0 && (size_t)be[0] < g_len[0] && be[1] >= 0 && (size_t)be[1] < g_len[1] && be[2] >= 0 && (size_t)be[2] < g_len[2])
static int GetInt(const int *be, int pos) { return g_int[pos][be[pos]]; }
static double GetDbl(const int *be, int pos) { return g_dbl[pos][be[pos]]; }
/* SetInt / SetDbl -> ValueNode::SetNum: postcondition proved by C04.SetNum.* */
static void SetInt(const int *be, int pos, int v) { int o = g_int[pos][be[pos]]; g_int[pos][be[pos]] = o == 0 ? v : ((v != 0 && v > o) ? v : o); }
static void SetDbl(const int *be, int pos, double v) { double o = g_dbl[pos][be[pos]]; g_dbl[pos][be[pos]] = o == 0 ? v : ((v != 0 && v > o) ? v : o); }
#define SRC_I g_int[0][be[0]]
#define TGT_I g_int[1][be[1]]
#define SLK_I g_int[2][be[2]]
#define SRC_D g_dbl[0][be[0]]
#define TGT_D g_dbl[1][be[1]]
#define SLK_D g_dbl[2][be[2]]
static void vp_mknodes(void) {
  for (int k = 0; k < 3; ++k) {
    g_len[k] = nondet_size_t(); __CPROVER_assume(g_len[k] >= 1 && g_len[k] <= 1000000);
    g_int[k] = vp_malloc(g_len[k] * sizeof(int)); g_dbl[k] = vp_malloc(g_len[k] * sizeof(double));
  }
}
'''
ENUMS = [('enum', COMMON, r'enum class IISStatus \{', 'IISStatus_'), ('enum', COMMON, r'enum class BasicStatus \{', 'BasicStatus_'),
         ('enum', RC, r'enum LinkEntryIndexes \{', '')]
REV = '(x == BasicStatus_low ? BasicStatus_upp : (x == BasicStatus_upp ? BasicStatus_low : x))'
W_I = '__CPROVER_assigns(__CPROVER_object_whole(g_int[0]), __CPROVER_object_whole(g_int[1]), __CPROVER_object_whole(g_int[2]))'
W_D = '__CPROVER_assigns(__CPROVER_object_whole(g_dbl[0]), __CPROVER_object_whole(g_dbl[1]), __CPROVER_object_whole(g_dbl[2]))'

ENTRIES = {
    # name: (anchor, requires-extra, ensures, assigns, label)
    'PostsolveSolutionEntry': ('SRC_D == 0 && TGT_D == TGT_D', 'SRC_D == __CPROVER_old(TGT_D)', W_D,
                               'the dual of the range row is the dual of the equality row'),
    'PresolveBasisEntry': ('SLK_I == 0 && TGT_I == 0',
                           'SLK_I == (__CPROVER_old(SRC_I) == BasicStatus_low ? BasicStatus_upp : (__CPROVER_old(SRC_I) == BasicStatus_upp ? BasicStatus_low : __CPROVER_old(SRC_I))) && TGT_I == BasicStatus_equ',
                           W_I, 'slack gets the reversed status of the range row, the equality row gets equ'),
    'PostsolveBasisEntry': ('SRC_I == 0',
                            'SRC_I == (__CPROVER_old(SLK_I) == BasicStatus_low ? BasicStatus_upp : (__CPROVER_old(SLK_I) == BasicStatus_upp ? BasicStatus_low : __CPROVER_old(SLK_I)))',
                            W_I, 'range row gets the slack status with low/upp exchanged'),
    'PostsolveIISEntry': ('SRC_I == 0',
                          '(__CPROVER_old(SLK_I) == IISStatus_low ==> SRC_I == IISStatus_upp) && (__CPROVER_old(SLK_I) == IISStatus_upp ==> SRC_I == IISStatus_low) && '
                          '(__CPROVER_old(SLK_I) == IISStatus_fix ==> SRC_I == IISStatus_fix) && (__CPROVER_old(SLK_I) == 0 ==> SRC_I == __CPROVER_old(TGT_I)) && '
                          '(__CPROVER_old(SLK_I) == 0 || __CPROVER_old(SLK_I) == IISStatus_low || __CPROVER_old(SLK_I) == IISStatus_upp || __CPROVER_old(SLK_I) == IISStatus_fix)',
                          W_I, 'IIS flag of the range row: slack flag with low/upp exchanged if set, else the row flag; unknown slack value raises'),
    'PresolveGenericIntEntry': ('TGT_I == 0 && SLK_I == 0', 'TGT_I == __CPROVER_old(SRC_I) && SLK_I == __CPROVER_old(SRC_I)', W_I,
                                'generic int values go to both images'),
    'PostsolveGenericIntEntry': ('SRC_I == 0',
                                 'SRC_I == (__CPROVER_old(TGT_I) == 0 ? __CPROVER_old(SLK_I) : ((__CPROVER_old(SLK_I) != 0 && __CPROVER_old(SLK_I) > __CPROVER_old(TGT_I)) ? __CPROVER_old(SLK_I) : __CPROVER_old(TGT_I)))',
                                 W_I, 'generic int value of the range row: max-among-nonzero of its two images'),
    'PresolveGenericDblEntry': ('TGT_D == 0 && SLK_D == 0 && SRC_D == SRC_D', 'TGT_D == __CPROVER_old(SRC_D) && SLK_D == __CPROVER_old(SRC_D)', W_D,
                                'generic double values go to both images'),
    'PresolveLazyUserCutFlagsEntry': ('TGT_I == 0', 'TGT_I == __CPROVER_old(SRC_I)', W_I, 'lazy/user-cut flag is copied to the equality row'),
}


def entry_fn(name):
    req, ens, assigns, _ = ENTRIES[name]
    sub = []
    if name == 'PostsolveIISEntry':
        sub = [(r'MP_RAISE\("Unknown IIS status for a range constraint slack"\);', 'VP_THROW(Error);', 1)]
    return Fn(RC, r'void %s\(const typename Base::LinkEntry& be\)' % name, 'void %s(const int *be)' % name,
              contract='__CPROVER_requires(BE_OK && %s) __CPROVER_ensures(%s) %s' % (req, ens, assigns),
              subst=sub, label='mp::pre::RangeCon2Slack::' + name, nmatches=1)


def h_entry(name):
    parts = [LINK_PRE] + ENUMS
    if name == 'PostsolveIISEntry':
        parts.append('#define VP_MAY_THROW_Error (!(SLK_I == 0 || SLK_I == IISStatus_low || SLK_I == IISStatus_upp || SLK_I == IISStatus_fix))\n')
    if 'Basis' in name:
        parts.append(Fn(RC, r'static int ReverseBasisLowUpp\(int stt\)', 'int ReverseBasisLowUpp(int stt)',
                        label='mp::pre::RangeCon2Slack::ReverseBasisLowUpp', nmatches=1))
    parts.append(entry_fn(name))
    parts.append('''
void harness(void) { vp_one = 1; vp_mknodes(); int be[3]; be[0] = nondet_int(); be[1] = nondet_int(); be[2] = nondet_int();
  %s(be); VP_REACH("normal return"); }
''' % name)
    return Harness('C04.RangeCon2Slack.' + name, 'C04', parts, enforce=name, object_bits=10, note=ENTRIES[name][3],
                   stubs=['ValueNode::SetInt/SetDbl (postcondition of SetNum)', 'GetInt/GetDbl (node arrays)'])


def h_reverse():
    parts = [LINK_PRE] + ENUMS + [
        Fn(RC, r'static int ReverseBasisLowUpp\(int stt\)', 'int ReverseBasisLowUpp(int stt)',
           contract='__CPROVER_ensures(__CPROVER_return_value == (stt == BasicStatus_low ? BasicStatus_upp : (stt == BasicStatus_upp ? BasicStatus_low : stt))) __CPROVER_assigns()',
           label='mp::pre::RangeCon2Slack::ReverseBasisLowUpp', nmatches=1),
        'void harness(void) { vp_one = 1; int s = nondet_int(); int r = ReverseBasisLowUpp(s); VP_REACH("normal return"); }\n']
    return Harness('C04.RangeCon2Slack.ReverseBasisLowUpp', 'C04', parts, enforce='ReverseBasisLowUpp')


_drv = [None]


def make_replay(which):
    def replay(lead, inputs, obs):
        """native check of the real ValueNode::SetNum over permutations and of a conversion graph built from the real ValuePresolver,
        CopyLink and RangeLinCon2Slack (replay/c04_replay.cc)"""
        import subprocess
        from vp import native
        if which in ('modelsuffix', 'stages'):
            drv = native.build_driver('c04_%s_replay.cc' % which, 'c04_%s_replay' % which, native.MP_SOURCES, ['-O0', '-DNDEBUG'])[0]
            p = subprocess.run([drv], capture_output=True, text=True, timeout=300)
            return p.returncode == 1, (p.stdout + p.stderr)[-2500:], drv
        if which == 'repeat':
            drv = native.build_driver('c04_repeat_replay.cc', 'c04_repeat_replay', native.MP_SOURCES, ['-O0'])[0]
            p = subprocess.run([drv], capture_output=True, text=True, timeout=300)
            return p.returncode != 0, (p.stdout + p.stderr)[-2500:], drv
        if _drv[0] is None:
            _drv[0] = native.build_driver('c04_replay.cc', 'c04_replay', native.MP_SOURCES, ['-O0'])[0]
        p = subprocess.run([_drv[0], which], capture_output=True, text=True, timeout=300)
        return p.returncode == 10 or p.returncode < 0, (p.stdout + p.stderr)[-2500:], _drv[0] + ' ' + which      # < 0: the real code died on a signal (abort)
    return replay


def harnesses(tier, seed):
    hs = _harnesses(tier, seed)
    for h in hs:
        h.replay = make_replay('setnum' if 'SetNum' in h.name else 'repeat' if 'CleanUp' in h.name else 'links' if 'AddEntry' in h.name else 'modelsuffix' if 'ReadModelSuffix' in h.name else 'stages' if ('FromSrc2Dest' in h.name or 'FromDest2Src' in h.name) else 'graph')
    return hs


VL = 'include/mp/valcvt-link.h'
VN = 'include/mp/valcvt-node.h'
VB = 'include/mp/valcvt-base.h'


def h_addentry(copy=False):
    """Many2ManyLink::AddEntry (base of One2ManyLink / Many2OneLink): after adding the entry (src range, target range) the set of linked
    (source position, target position) pairs is exactly the old set plus the pairs of the new entry - merging into the last entry never links
    a position of one item with the image of another.  Real NodeRange::{operator==, ExtendableBy, TryExtendBy, ExtendBy} and IndexRange::operator==;
    the deque is seen through its last entry (the only one AddEntry touches) and the entry pushed; arbitrary witness pair (ws, wt)."""
    SELF = [(r'(?<![\.\w>])pvn_', 'self->pvn_', -1), (r'(?<![\.\w>])ir_', 'self->ir_', -1)]
    # CopyLink: position k of the source range is linked with position k of the target range (ranges of equal size); Many2Many: every pair
    IN = lambda e: ('(g_ws_node == %s.first.pvn_ && %s.first.ir_.beg_ <= g_ws && g_ws < %s.first.ir_.end_ && '
                    'g_wt_node == %s.second.pvn_ && %s.second.ir_.beg_ <= g_wt && g_wt < %s.second.ir_.end_' % ((e,) * 6) +
                    (' && (long)g_ws - %s.first.ir_.beg_ == (long)g_wt - %s.second.ir_.beg_' % (e, e) if copy else '') + ')')
    SAMESZ = lambda e: '((long)%s.first.ir_.end_ - %s.first.ir_.beg_ == (long)%s.second.ir_.end_ - %s.second.ir_.beg_)' % ((e,) * 4)
    parts = ['#include "mp_shim.h"\nint vp_one;\n#define assert(x) __CPROVER_assert(x, "assert(" #x ") of the source holds")\n', '''
typedef struct { int beg_, end_; } IndexRange;
typedef struct { int pvn_; IndexRange ir_; } NodeRange;          /* pvn_: the value node (identity only) */
typedef struct { NodeRange first, second; } LinkEntry;
_Bool g_has_last; LinkEntry g_last, g_pushed; int g_npushed;      /* entries_: its last entry and what is pushed */
LinkEntry g_last0;                                                /* the last entry before the call */
#define VP_SAME_NR(a, b) ((a).pvn_ == (b).pvn_ && (a).ir_.beg_ == (b).ir_.beg_ && (a).ir_.end_ == (b).ir_.end_)
int g_ws_node, g_ws, g_wt_node, g_wt;                             /* witness pair: a source position and a target position */
static void vp_push_back(LinkEntry e) { g_pushed = e; g_npushed++; }
static void RegisterLinkIndex(int i) { }
#define VP_VALID(e) ((e).first.ir_.beg_ <= (e).first.ir_.end_ && (e).second.ir_.beg_ <= (e).second.ir_.end_)
''',
             Fn(VB, r'bool operator==\(const IndexRange& ir\) const', '_Bool IR_eq(const IndexRange *self, IndexRange ir)',
                subst=[(r'(?<![\.\w>])beg_', 'self->beg_', 1), (r'(?<![\.\w>])end_', 'self->end_', 1)], label='mp::pre::IndexRange::operator==', nmatches=1),
             Fn(VN, r'bool operator==\(const NodeRange& nr\) const', '_Bool NR_eq(const NodeRange *self, NodeRange nr)',
                subst=SELF + [(r'self->ir_ == nr\.ir_', 'IR_eq(&self->ir_, nr.ir_)', 1)], label='mp::pre::NodeRange::operator==', nmatches=1),
             Fn(VB, r'bool IsValid\(\) const \{ return end_>beg_; \}', '_Bool IR_IsValid(const IndexRange *self)',
                subst=[(r'(?<![\.\w])(?<!->)beg_', 'self->beg_', 1), (r'(?<![\.\w])(?<!->)end_', 'self->end_', 1)], label='mp::pre::IndexRange::IsValid', nmatches=1),
             Fn(VN, r'bool IsValid\(\) const \{ return pvn_ && ir_\.IsValid\(\); \}', '_Bool NR_IsValid(const NodeRange *self)',
                subst=[(r'ir_\.IsValid\(\)', 'IR_IsValid(&self->ir_)', 1), (r'(?<![\.\w>])pvn_', 'self->pvn_', 1)], label='mp::pre::NodeRange::IsValid', nmatches=1),
             Fn(VN, r'bool ExtendableBy\(NodeRange nr\) const', '_Bool ExtendableBy(const NodeRange *self, NodeRange nr)',
                subst=SELF + [(r'\bnr\.IsValid\(\)', 'NR_IsValid(&nr)', -1)], label='mp::pre::NodeRange::ExtendableBy', nmatches=1),
             Fn(VN, r'void ExtendBy\(NodeRange nr\)', 'void ExtendBy(NodeRange *self, NodeRange nr)',
                subst=SELF + [(r'ExtendableBy\(nr\)', 'ExtendableBy(self, nr)', 1)], label='mp::pre::NodeRange::ExtendBy', nmatches=1),
             Fn(VN, r'bool TryExtendBy\(NodeRange nr\)', '_Bool TryExtendBy(NodeRange *self, NodeRange nr)',
                subst=[(r'ExtendableBy\(nr\)', 'ExtendableBy(self, nr)', 1), (r'ExtendBy\(nr\);', 'ExtendBy(self, nr);', 1)], label='mp::pre::NodeRange::TryExtendBy', nmatches=1),
             Fn(VL, r'void AddEntry\(LinkEntry be\) \{\s*if \(entries_\.empty\(\) \|\|\s*!entries_' if copy else r'void AddEntry\(LinkEntry be\) \{\s*if \(entries_\.empty\(\) \|\|\s*!\(', 'void AddEntry(LinkEntry be)',
                contract='__CPROVER_requires(VP_VALID(be) && (!g_has_last || VP_VALID(g_last)) && g_npushed == 0 && VP_SAME_NR(g_last0.first, g_last.first) && VP_SAME_NR(g_last0.second, g_last.second)' +
                         ((' && %s && (!g_has_last || %s)' % (SAMESZ('be'), SAMESZ('g_last'))) if copy else '') + ') '
                         '__CPROVER_ensures(((g_has_last && %s) || (g_npushed == 1 && %s)) == ((g_has_last && %s) || %s)) '
                         '__CPROVER_ensures(g_npushed <= 1 && (!g_has_last ==> g_npushed == 1)) '
                         '__CPROVER_assigns(g_last, g_pushed, g_npushed)' % (IN('g_last'), IN('g_pushed'), IN('g_last0'), IN('be')),
                subst=[(r'entries_\.empty\(\)', '!g_has_last', 1),
                       (r'entries_\.back\(\)\.(first|second)==be\.(first|second)', r'NR_eq(&g_last.\1, be.\2)', -1),
                       (r'entries_\.back\(\)\.(first|second)\.(TryExtendBy|ExtendableBy|ExtendBy)\(be\.(first|second)\)', r'\2(&g_last.\1, be.\3)', 2 if not copy else 4),
                       (r'entries_\.push_back\(be\);', 'vp_push_back(be);', 1), (r'entries_\.size\(\)-1', 'g_npushed', 1)],
                label='mp::pre::%s::AddEntry' % ('CopyLink' if copy else 'Many2ManyLink'), nmatches=1), '''
void harness(void) { vp_one = 1; g_has_last = nondet_bool(); g_npushed = 0; LinkEntry be;
  g_ws_node = nondet_int(); g_ws = nondet_int(); g_wt_node = nondet_int(); g_wt = nondet_int();
  AddEntry(be); VP_REACH("normal return"); }
''']
    return Harness('C04.%s.AddEntry' % ('CopyLink' if copy else 'Many2ManyLink'), 'C04', parts, enforce='AddEntry',
                   stubs=['std::deque entries_ (its last entry and the entry pushed; the others are not touched)', 'BasicLink::RegisterLinkIndex (no-op)'])


def h_distr(collect):
    """Many2ManyLink::Distr / Collect (the transfer of One2ManyLink / Many2OneLink entries): every position of the source range is sent to
    every position of the target range (Distr; Collect: every target position is gathered into every source position), each pair exactly once,
    with the value read at the other end, and nothing is written outside the range of the receiving node.  Witness pair (g_w0, g_w);
    two nested loop contracts.  SetVal's conflict rule is C04.ValueNode.SetNum."""
    name = 'Collect' if collect else 'Distr'
    recv, rbeg, rend = ('nr1', 'ir1', 'g_w0') if collect else ('nr2', 'ir2', 'g_w')
    parts = ['#include "mp_shim.h"\nint vp_one;\n#define assert(x) __CPROVER_assert(x, "assert(" #x ") of the source holds")\n', '''
typedef struct { int beg_, end_; } IndexRange;
typedef struct { int pvn_; IndexRange ir_; } NodeRange;
static IndexRange nr_GetIndexRange(NodeRange nr) { return nr.ir_; }
static int nr_GetValueNode(NodeRange nr) { return nr.pvn_; }
int g_w0, g_w; int g_wval;            /* witness positions (source side, target side) and the value stored at the sending witness position */
int g_hit; int g_send_idx;            /* ghost: transfers of the witness pair; the position the value in flight was read from */
NodeRange g_nr1, g_nr2;
#define COLLECT %d
/* reading a value: GetVal<T>(i0) of the source node (Distr) / vec2.at(i) of the target node (Collect) */
static int vp_get(int node, int idx) {
  __CPROVER_assert(node == (COLLECT ? g_nr2.pvn_ : g_nr1.pvn_), "values are read from the sending node");
  __CPROVER_assert(COLLECT ? (g_nr2.ir_.beg_ <= idx && idx < g_nr2.ir_.end_) : (g_nr1.ir_.beg_ <= idx && idx < g_nr1.ir_.end_), "values are read inside the sending range");
  g_send_idx = idx; return idx == (COLLECT ? g_w : g_w0) ? g_wval : nondet_int(); }
static void vp_set(int node, int idx, int val) {
  __CPROVER_assert(node == (COLLECT ? g_nr1.pvn_ : g_nr2.pvn_), "values are written to the receiving node");
  __CPROVER_assert(COLLECT ? (g_nr1.ir_.beg_ <= idx && idx < g_nr1.ir_.end_) : (g_nr2.ir_.beg_ <= idx && idx < g_nr2.ir_.end_), "values are written inside the receiving range only");
  if (idx == (COLLECT ? g_w0 : g_w) && g_send_idx == (COLLECT ? g_w : g_w0)) { __CPROVER_assert(val == g_wval, "the value written is the value read at the sending position"); g_hit++; } }
#define IN1(x) (g_nr1.ir_.beg_ <= (x) && (x) < g_nr1.ir_.end_)
#define IN2(x) (g_nr2.ir_.beg_ <= (x) && (x) < g_nr2.ir_.end_)
''' % (1 if collect else 0)]
    ghost = 'g_hit, g_send_idx'
    if not collect:
        subst = [(r'nr(\d)\.GetIndexRange\(\)', r'nr_GetIndexRange(nr\1)', 2),
                 (r'const auto& val =', 'int val =', 1), (r'nr1\.GetValueNode\(\)->\s*GetVal<T>\(', 'vp_get(nr_GetValueNode(nr1), ', 1),
                 (r'nr2\.GetValueNode\(\)->SetVal\(', 'vp_set(nr_GetValueNode(nr2), ', 1)]
        inner_inv = 'ir2.beg_ <= i && i <= ir2.end_ && g_send_idx == i0 && g_hit == (((IN1(g_w0) && IN2(g_w)) && (g_w0 < i0 || (g_w0 == i0 && g_w < i))) ? 1 : 0)'
        outer_inv = 'ir1.beg_ <= i0 && i0 <= ir1.end_ && g_hit == ((IN1(g_w0) && IN2(g_w) && g_w0 < i0) ? 1 : 0)'
        loops = {0: '__CPROVER_assigns(i0, %s) __CPROVER_loop_invariant(%s) __CPROVER_decreases(ir1.end_ - i0)' % (ghost, outer_inv),
                 1: '__CPROVER_assigns(i, %s) __CPROVER_loop_invariant(%s) __CPROVER_decreases(ir2.end_ - i)' % ('g_hit', inner_inv)}
        anchor = r'void Distr\(NodeRange nr1, NodeRange nr2\)'
    else:
        subst = [(r'nr(\d)\.GetIndexRange\(\)', r'nr_GetIndexRange(nr\1)', 2),
                 (r'auto& vec2 = nr2\.GetValueNode\(\)->GetValVec<T>\(\);', '', 1),
                 (r'vec2\.at\(', 'vp_get(nr_GetValueNode(nr2), ', 1), (r'nr1\.GetValueNode\(\)->SetVal\(', 'vp_set(nr_GetValueNode(nr1), ', 1)]      # index expressions are kept as written
        inner_inv = 'ir2.beg_ <= i && i <= ir2.end_ && g_hit == (((IN1(g_w0) && IN2(g_w)) && (g_w0 < i0 || (g_w0 == i0 && g_w < i))) ? 1 : 0)'
        outer_inv = 'ir1.beg_ <= i0 && i0 <= ir1.end_ && g_hit == ((IN1(g_w0) && IN2(g_w) && g_w0 < i0) ? 1 : 0)'
        loops = {0: '__CPROVER_assigns(i0, %s) __CPROVER_loop_invariant(%s) __CPROVER_decreases(ir1.end_ - i0)' % (ghost, outer_inv),
                 1: '__CPROVER_assigns(i, %s) __CPROVER_loop_invariant(%s) __CPROVER_decreases(ir2.end_ - i)' % (ghost, inner_inv)}
        anchor = r'void Collect\(NodeRange nr1, NodeRange nr2\)'
    parts.append(Fn(VL, anchor, 'void %s(NodeRange nr1, NodeRange nr2)' % name,
                    contract='__CPROVER_requires(0 <= nr1.ir_.beg_ && nr1.ir_.beg_ <= nr1.ir_.end_ && 0 <= nr2.ir_.beg_ && nr2.ir_.beg_ <= nr2.ir_.end_ && g_hit == 0 && nr1.pvn_ == g_nr1.pvn_ && nr1.ir_.beg_ == g_nr1.ir_.beg_ && nr1.ir_.end_ == g_nr1.ir_.end_ && '
                             'nr2.pvn_ == g_nr2.pvn_ && nr2.ir_.beg_ == g_nr2.ir_.beg_ && nr2.ir_.end_ == g_nr2.ir_.end_) '
                             '__CPROVER_ensures(g_hit == ((IN1(g_w0) && IN2(g_w)) ? 1 : 0)) __CPROVER_assigns(%s)' % ghost,
                    subst=subst, loops=loops, label='mp::pre::Many2ManyLink::%s<T>' % name, nmatches=1))
    parts.append('void harness(void) { vp_one = 1; g_w0 = nondet_int(); g_w = nondet_int(); g_wval = nondet_int(); g_hit = 0; NodeRange a, b; g_nr1 = a; g_nr2 = b; %s(g_nr1, g_nr2); VP_REACH("normal return"); }\n' % name)
    return Harness('C04.Many2ManyLink.' + name, 'C04', parts, enforce=name, loop_contracts=True, expect_loop_obligations=2,
                   stubs=['ValueNode::GetVal / GetValVec / SetVal (ghost: positions and the witness value; the conflict rule of SetVal is C04.ValueNode.SetNum)'])


def h_node_ranges():
    """ValueNode::Add / Select (the ranges links are built from): Add(n) hands out the n positions after the declared size - disjoint from every
    range handed out before - and grows the size by n; Select(pos, n) names [pos, pos+n) (pos < 0 counts from the end) and grows the size to
    cover it, never shrinks it.  Real NodeRange::Assign."""
    parts = ['#include "mp_shim.h"\nint vp_one;\n#define assert(x) __CPROVER_assert(x, "assert(" #x ") of the source holds")\n', '''
typedef struct { int beg_, end_; } IndexRange;
typedef struct { int pvn_; IndexRange ir_; } NodeRange;
size_t sz_; enum { THIS_NODE = 7 };
#define R __CPROVER_return_value
''',
             Fn(VN, r'void Assign\(ValueNode\* pvn, NodeIndexRange ir\)', 'void NR_Assign(NodeRange *self, int pvn, IndexRange ir)',
                subst=[(r'(?<![\.\w])(?<!->)pvn_', 'self->pvn_', 1), (r'(?<![\.\w])(?<!->)ir_', 'self->ir_', 1)], label='mp::pre::NodeRange::Assign', nmatches=1),
             Fn(VN, r'NodeRange Add\(int n=1\)', 'NodeRange Node_Add(int n)',
                contract='__CPROVER_requires(n >= 0 && sz_ <= 1000000000 && n <= 1000000000) '
                         '__CPROVER_ensures(R.pvn_ == THIS_NODE && R.ir_.beg_ == (int)__CPROVER_old(sz_) && R.ir_.end_ == (int)__CPROVER_old(sz_) + n && sz_ == __CPROVER_old(sz_) + (size_t)n) __CPROVER_assigns(sz_)',
                subst=[(r'NodeRange nr;', 'NodeRange nr = {0, {0, 0}};', 1), (r'nr\.Assign\(this, \{([^{}]*)\}\);', r'NR_Assign(&nr, THIS_NODE, (IndexRange){\1});', 1)],
                label='mp::pre::ValueNode::Add', nmatches=1),
             Fn(VN, r'NodeRange Select\(int pos, int n=1\)', 'NodeRange Node_Select(int pos, int n)',
                contract='__CPROVER_requires(n >= 0 && sz_ <= 1000000000 && n <= 1000000000 && pos <= 1000000000 && pos >= -(long)sz_) '
                         '__CPROVER_ensures(R.pvn_ == THIS_NODE && R.ir_.beg_ == (pos < 0 ? (int)__CPROVER_old(sz_) + pos : pos) && R.ir_.end_ == R.ir_.beg_ + n) '
                         '__CPROVER_ensures(sz_ == (__CPROVER_old(sz_) < (size_t)R.ir_.end_ ? (size_t)R.ir_.end_ : __CPROVER_old(sz_))) __CPROVER_assigns(sz_)',
                subst=[(r'NodeRange nr;', 'NodeRange nr = {0, {0, 0}};', 1), (r'nr\.Assign\(this, \{([^{}]*)\}\);', r'NR_Assign(&nr, THIS_NODE, (IndexRange){\1});', 1)],
                label='mp::pre::ValueNode::Select', nmatches=1),
             ]
    ha = 'void harness(void) { vp_one = 1; sz_ = nondet_size_t(); Node_Add(nondet_int()); VP_REACH("normal return"); }\n'
    hb = 'void harness(void) { vp_one = 1; sz_ = nondet_size_t(); Node_Select(nondet_int(), nondet_int()); VP_REACH("normal return"); }\n'
    return [Harness('C04.ValueNode.Add', 'C04', parts + [ha], enforce='Node_Add'), Harness('C04.ValueNode.Select', 'C04', parts + [hb], enforce='Node_Select')]


def h_read_model_suffix():
    """FlatBackend::ReadModelSuffix: a suffix that a backend reads for original variables, constraints and objectives at once: each of the
    three value vectors handed to the value presolver is read from the suffix of ITS OWN item kind (and is empty when the kind is not
    requested) - values given for constraints never arrive as objective values."""
    parts = ['#include "mp_shim.h"\nint vp_one;\n#define assert(x) __CPROVER_assert(x, "assert(" #x ") of the source holds")\n',
             ('enum', 'include/mp/common.h', r'enum Kind \{\s*VAR\s*=', 'suf_Kind_'), '''
typedef struct { int var, con, obj; } MV;      /* which suffix each vector was read from: 0 = empty, kind + 1 otherwise */
int g_kind;
static int msd_kind(void) { return g_kind; }
static int vp_read(int kind) { return kind + 1; }
#define R __CPROVER_return_value
''',
             Fn('include/mp/flat/backend_flat.h', r'pre::MVOverEl<T> ReadModelSuffix\(const ModelSuffixDef<T>& msd\)', 'MV ReadModelSuffix(void)',
                contract='__CPROVER_requires(g_kind & (suf_Kind_VAR_BIT | suf_Kind_CON_BIT | suf_Kind_OBJ_BIT)) '
                         '__CPROVER_ensures(R.var == ((g_kind & suf_Kind_VAR_BIT) ? suf_Kind_VAR + 1 : 0) && R.con == ((g_kind & suf_Kind_CON_BIT) ? suf_Kind_CON + 1 : 0) && '
                         'R.obj == ((g_kind & suf_Kind_OBJ_BIT) ? suf_Kind_OBJ + 1 : 0)) __CPROVER_assigns()',
                subst=[(r'msd\.kind\(\)', 'msd_kind()', -1), (r'suf::Kind::', 'suf_Kind_', -1),
                       (r'BaseBackend::template ReadSuffix<T>\(\s*\{msd\.name\(\),\s*(\w+)\}\s*\)', r'vp_read(\1)', 3), (r'ArrayRef<T>\{\}', '0', 3),
                       (r'return \{', 'return (MV){', 1)],
                label='mp::FlatBackend::ReadModelSuffix', nmatches=1),
             'void harness(void) { vp_one = 1; g_kind = nondet_int(); ReadModelSuffix(); VP_REACH("normal return"); }\n']
    return Harness('C04.FlatBackend.ReadModelSuffix', 'C04', parts, enforce='ReadModelSuffix', stubs=['BaseBackend::ReadSuffix (ghost: records the item kind it was asked for)'])


def h_entry_order(collect):
    """Many2ManyLink::DistributeFromSrc2Dest / CollectFromDest2Src over a range of link entries: presolve runs the entries in the order they were
    added, postsolve runs them in the REVERSE order (the image of a later conversion stage must be gathered before the stage that feeds on
    it), each entry exactly once.  Loop contract; ghost: the entry expected next."""
    name = 'CollectFromDest2Src' if collect else 'DistributeFromSrc2Dest'
    parts = ['#include "mp_shim.h"\nint vp_one;\n', '''
typedef struct { int beg_, end_; } LinkIndexRange;
int g_beg, g_end, g_expect, g_count;
static int vp_entry(int i) { __CPROVER_assert(i >= g_beg && i < g_end, "an entry of the link range"); return i; }
static void vp_transfer(int e) { __CPROVER_assert(e == g_expect, "%s"); g_expect += %s; g_count++; }
''' % ('postsolve gathers the entries in reverse order of their creation' if collect else 'presolve distributes the entries in the order of their creation', '-1' if collect else '1'),
             Fn(VL, r'void %s\(LinkIndexRange ir\)' % name, 'void %s(LinkIndexRange ir)' % name,
                contract='__CPROVER_requires(0 <= ir.beg_ && ir.beg_ <= ir.end_ && ir.end_ <= 1000000000 && g_beg == ir.beg_ && g_end == ir.end_ && g_count == 0 && g_expect == %s) '
                         '__CPROVER_ensures(g_count == g_end - g_beg) __CPROVER_assigns(g_expect, g_count)' % ('ir.end_ - 1' if collect else 'ir.beg_'),
                subst=[(r'const auto& br = entries_\[([^\]]*)\];', r'int br = vp_entry(\1);', 1), (r'(?:Collect|Distr)<T>\(br\.first, br\.second\);', 'vp_transfer(br);', 1)],
                loops={0: ('__CPROVER_assigns(i, g_expect, g_count) __CPROVER_loop_invariant(ir.beg_ <= i && i <= ir.end_ && g_expect == i - 1 && g_count == ir.end_ - i) __CPROVER_decreases(i - ir.beg_)' if collect else
                           '__CPROVER_assigns(i, g_expect, g_count) __CPROVER_loop_invariant(ir.beg_ <= i && i <= ir.end_ && g_expect == i && g_count == i - ir.beg_) __CPROVER_decreases(ir.end_ - i)')},
                label='mp::pre::Many2ManyLink::%s<T>' % name, nmatches=1),
             'void harness(void) { vp_one = 1; LinkIndexRange ir; __CPROVER_assume(0 <= ir.beg_ && ir.beg_ <= ir.end_ && ir.end_ <= 1000000000); g_beg = ir.beg_; g_end = ir.end_; g_count = 0; g_expect = %s; %s(ir); VP_REACH("normal return"); }\n' % ('ir.end_ - 1' if collect else 'ir.beg_', name)]
    return Harness('C04.Many2ManyLink.' + name, 'C04', parts, enforce=name, loop_contracts=True, expect_loop_obligations=1,
                   stubs=['Distr / Collect of one entry (ghost: which entry; C04.Many2ManyLink.Distr / Collect)'])


VEC = '''
#include "mp_shim.h"
int vp_one;
/* std::vector<T> seen through an arbitrary witness index g_w: its size and the element at g_w (stale content from an earlier transfer).
   clear() destroys the elements, resize(n) value-initialises exactly the elements added beyond the current size */
typedef struct { size_t size; double w_val; } Vec;
size_t g_w, g_size;
static size_t Size(void) { return g_size; }
static void vp_clear(Vec *v) { v->size = 0; }
static void vp_resize(Vec *v, size_t n) { if (g_w >= v->size && g_w < n) v->w_val = 0; v->size = n; }
Vec vi_, vd_, vStr_;
'''
VECSUB = [(r'\b(vi_|vd_|vStr_)\.clear\(\)', r'vp_clear(&\1)', -1), (r'\b(vi_|vd_|vStr_)\.resize\(', r'vp_resize(&\1, ', -1)]


def h_cleanup(names):
    """ValueNode::CleanUpAndRealloc[_Names]: before each transfer every value array has the node's size and holds only zeros (no value of an
    earlier transfer survives): 'every transfer is independent of the transfers performed before it'"""
    fn_name = 'CleanUpAndRealloc_Names' if names else 'CleanUpAndRealloc'
    vecs = ['vStr_'] if names else ['vi_', 'vd_']
    ens = ' && '.join('%s.size == g_size && (g_w < g_size ==> %s.w_val == 0)' % (v, v) for v in vecs)
    parts = [VEC, Fn(NODE, r'void %s\(\)' % fn_name, 'void %s(void)' % fn_name, contract='__CPROVER_ensures(%s) __CPROVER_assigns(%s)' % (ens, ', '.join(vecs)),
                     subst=VECSUB, label='mp::pre::ValueNode::' + fn_name, nmatches=1), '''
void harness(void) { vp_one = 1; g_w = nondet_size_t(); g_size = nondet_size_t();
  vi_.size = nondet_size_t(); vi_.w_val = nondet_double(); vd_.size = nondet_size_t(); vd_.w_val = nondet_double(); vStr_.size = nondet_size_t(); vStr_.w_val = nondet_double();
  %s(); VP_REACH("normal return"); }
''' % fn_name]
    return Harness('C04.ValueNode.' + fn_name, 'C04', parts, enforce=fn_name, stubs=['std::vector clear() / resize() (size and one arbitrary witness element)'])


def _harnesses(tier, seed):
    hs = [h_setnum('int'), h_setnum('double'), h_setnum_order('int'), h_setnum_order('double'), h_reverse()]
    hs += [h_entry(n) for n in ENTRIES]
    hs += [h_cleanup(False), h_cleanup(True), h_addentry(), h_addentry(copy=True), h_distr(False), h_distr(True), h_entry_order(False), h_entry_order(True), h_read_model_suffix()] + h_node_ranges()
    return hs
