"""C02 (continued) - the recursive expression reader of NLReader: ReadNumericExpr (3 overloads), ReadLogicalExpr (2 overloads),
ReadSymbolicExpr, ReadCountExpr, ReadArgs / DoReadArgs (3 instantiations), BinaryArgReader (2 instantiations), ReadReference,
DoReadReference, ReadConstant, ReadOpCode, ReadNumArgs, GetOpCodeInfo with the real opcode table.

Property clauses decided here (for expression trees of ANY depth and width): "every announced number of ... arguments ... is followed
by exactly that many, and begin/end notifications are properly nested", "every variable, function, common-expression index is inside
the declared range".

Method.  The five mutually recursive entry points each get the same contract and each is verified against it with the calls to the
other four (and, with --enforce-contract-rec, to itself) replaced by the contract: induction on the call depth (partial correctness;
termination of the descent is not proved here: every call consumes at least one input character).  Ghost state:
  g_seq     number of expression objects the handler has created; an expression value is modelled by its creation number (0 = null),
            so "lhs was read before rhs", "the result is the object created last", "no null argument" are integer facts
  g_depth   number of open Begin... notifications; every argument-handler object remembers the depth at which it was opened
  g_midline a record was started on the current input line and not yet finished with ReadTillEndOfLine (line discipline of the
            format: every record read with ReadChar starts at the beginning of a line)
The handler is a set of stubs that ASSERT the property's clauses at the real call sites.
"""
from vp.extract import Fn, Braced
from vp.run import Harness

NLR = 'include/mp/nl-reader.h'
COMMON = 'include/mp/common.h'
EI = 'src/expr-info.cc'

PRE = '''
#include "mp_shim.h"
int vp_one;
#define VP_MAY_THROW_ReadError 1
#define reader_ReportError(...) VP_THROW(ReadError)
#define MP_ASSERT(c, msg) __CPROVER_assert(c, "MP_ASSERT: " msg)
typedef unsigned long Tok;
typedef Tok Expr; typedef Tok NumericExpr; typedef Tok LogicalExpr; typedef Tok Reference; typedef Tok Handler_CountExpr; typedef Tok Handler_Expr;
typedef Tok Handler_NumericExpr; typedef Tok Handler_LogicalExpr;
unsigned long g_seq; int g_depth; _Bool g_midline; char g_char; int g_opcode;
struct { int num_vars, num_funcs; } header_;
int num_vars_and_exprs_;
enum { MIN_ITER_ARGS = 3 };     /* nl-reader.h (checked below against the source text) */
'''

# leaf reader: contracts proved by C02.text.* / C02.binary.*; the line discipline is ghost state
READER = '''
static char reader_ReadChar(void) {
  __CPROVER_assert(!g_midline, "a record starts at the beginning of a line: the previous record was consumed up to its end of line");
  g_midline = 1; g_char = nondet_char(); return g_char; }
static int reader_ReadUInt(void) { int v = nondet_int(); __CPROVER_assume(v >= 0); g_midline = 1; return v; }
static short reader_ReadInt_short(void) { g_midline = 1; return nondet_short(); }
static int reader_ReadInt_int(void) { g_midline = 1; return nondet_int(); }
static long reader_ReadInt_long(void) { g_midline = 1; return nondet_long(); }
static double reader_ReadDouble(void) { g_midline = 1; return nondet_double(); }
static void reader_ReadTillEndOfLine(void) { g_midline = 0; }
typedef struct { int size; } Str;
static Str reader_ReadString(void) { Str s; s.size = nondet_int(); __CPROVER_assume(s.size >= 0); g_midline = 0; return s; }  /* consumes its terminating newline */
'''

HANDLER = '''
static Tok vp_new(void) { __CPROVER_assume(g_seq < (1UL << 62)); return ++g_seq; }   /* ghost counter: 2^62 objects are not reachable */
#define ARG_OK(t) __CPROVER_assert(0 < (t) && (t) <= g_seq, "an argument handed to the handler is an expression object that has been created (never null)")
#define ORDER(a, b) __CPROVER_assert((a) < (b), "arguments are handed over in the order they were read")
#define KIND_IN(k, lo, hi) __CPROVER_assert((lo) <= (k) && (k) <= (hi), "the handler method of an operator class receives an operator of that class")
#define OPK_IS(opc, k) __CPROVER_assert(0 <= (opc) && (opc) <= MAX_OPCODE && OpCodeInfo_INFO[opc].kind == (k), "the notification names the operator whose opcode was read")
typedef struct { int expected, added, depth, bps; } ArgH;
typedef ArgH Handler_CallArgHandler, Handler_PLTermHandler, Handler_VarArgHandler, Handler_NumericArgHandler, Handler_NumberOfArgHandler,
  Handler_SymbolicArgHandler, Handler_CountArgHandler, Handler_LogicalArgHandler, Handler_PairwiseArgHandler;
static ArgH vp_begin(int n, int already) {
  __CPROVER_assert(n >= already, "the announced number of arguments is not negative");
  __CPROVER_assume(g_depth < INT_MAX); ++g_depth;
  ArgH h; h.expected = n; h.added = already; h.depth = g_depth; h.bps = 0; return h; }
static void ArgH_AddArg(ArgH *h, Tok t) {
  ARG_OK(t);
  __CPROVER_assert(h->depth == g_depth, "an argument is added to the innermost open Begin notification (proper nesting)");
  __CPROVER_assert(h->added < h->expected, "not more arguments than announced");
  h->added++; }
static Tok vp_end(ArgH h) {
  __CPROVER_assert(h.depth == g_depth, "End matches the innermost open Begin (proper nesting)");
  __CPROVER_assert(h.added == h.expected, "exactly the announced number of arguments was delivered before End");
  --g_depth; return vp_new(); }
static Tok handler_OnNumber(double v) { return vp_new(); }
static Tok handler_OnBool(_Bool v) { return vp_new(); }
static Tok handler_OnString(Str s) { return vp_new(); }
static Tok handler_OnVariableRef(int i) { __CPROVER_assert(0 <= i && i < header_.num_vars, "variable index inside the declared range"); return vp_new(); }
static Tok handler_OnCommonExprRef(int i) {
  __CPROVER_assert(0 <= i && i < num_vars_and_exprs_ - header_.num_vars, "common-expression index inside the declared range"); return vp_new(); }
static Tok vp_OnUnary(int opc, int kind, Tok a) { OPK_IS(opc, kind); KIND_IN(kind, expr_FIRST_UNARY, expr_LAST_UNARY); ARG_OK(a); return vp_new(); }
static Tok vp_OnBinary(int opc, int kind, Tok l, Tok r) { OPK_IS(opc, kind); KIND_IN(kind, expr_FIRST_BINARY, expr_LAST_BINARY); ARG_OK(l); ARG_OK(r); ORDER(l, r); return vp_new(); }
static Tok vp_OnIf(int opc, Tok c, Tok t, Tok e) { OPK_IS(opc, expr_IF); ARG_OK(c); ARG_OK(t); ARG_OK(e); ORDER(c, t); ORDER(t, e); return vp_new(); }
static Tok vp_OnSymbolicIf(int opc, Tok c, Tok t, Tok e) { OPK_IS(opc, expr_IFSYM); ARG_OK(c); ARG_OK(t); ARG_OK(e); ORDER(c, t); ORDER(t, e); return vp_new(); }
static Tok vp_OnNot(int opc, Tok a) { OPK_IS(opc, expr_NOT); ARG_OK(a); return vp_new(); }
static Tok vp_OnBinaryLogical(int opc, int kind, Tok l, Tok r) { OPK_IS(opc, kind); KIND_IN(kind, expr_FIRST_BINARY_LOGICAL, expr_LAST_BINARY_LOGICAL); ARG_OK(l); ARG_OK(r); ORDER(l, r); return vp_new(); }
static Tok vp_OnRelational(int opc, int kind, Tok l, Tok r) { OPK_IS(opc, kind); KIND_IN(kind, expr_FIRST_RELATIONAL, expr_LAST_RELATIONAL); ARG_OK(l); ARG_OK(r); ORDER(l, r); return vp_new(); }
static Tok vp_OnLogicalCount(int opc, int kind, Tok l, Tok r) { OPK_IS(opc, kind); KIND_IN(kind, expr_FIRST_LOGICAL_COUNT, expr_LAST_LOGICAL_COUNT); ARG_OK(l); ARG_OK(r); ORDER(l, r); return vp_new(); }
static Tok vp_OnImplication(int opc, Tok c, Tok t, Tok e) { OPK_IS(opc, expr_IMPLICATION); ARG_OK(c); ARG_OK(t); ARG_OK(e); ORDER(c, t); ORDER(t, e); return vp_new(); }
static ArgH handler_BeginCall(int f, int n) {
  __CPROVER_assert(0 <= f && f < header_.num_funcs, "function index inside the declared range"); return vp_begin(n, 0); }
static Tok handler_EndCall(ArgH h) { return vp_end(h); }
static ArgH handler_BeginVarArg(int kind, int n) { OPK_IS(g_opcode, kind); KIND_IN(kind, expr_FIRST_VARARG, expr_LAST_VARARG); __CPROVER_assert(n >= 1, "min/max has at least one argument"); return vp_begin(n, 0); }
static Tok handler_EndVarArg(ArgH h) { return vp_end(h); }
static ArgH handler_BeginSum(int n) { OPK_IS(g_opcode, expr_SUM); return vp_begin(n, 0); }
static Tok handler_EndSum(ArgH h) { return vp_end(h); }
static ArgH handler_BeginCount(int n) { OPK_IS(g_opcode, expr_COUNT); __CPROVER_assert(n >= 1, "count has at least one argument"); return vp_begin(n, 0); }
static Tok handler_EndCount(ArgH h) { return vp_end(h); }
static ArgH vp_BeginNumberOf(int opc, int n, Tok first) { OPK_IS(opc, expr_NUMBEROF); ARG_OK(first); return vp_begin(n, 1); }     /* the value expression is the first of the n arguments */
static Tok handler_EndNumberOf(ArgH h) { return vp_end(h); }
static ArgH vp_BeginSymbolicNumberOf(int opc, int n, Tok first) { OPK_IS(opc, expr_NUMBEROF_SYM); ARG_OK(first); return vp_begin(n, 1); }
static Tok handler_EndSymbolicNumberOf(ArgH h) { return vp_end(h); }
static ArgH handler_BeginIteratedLogical(int kind, int n) { OPK_IS(g_opcode, kind); KIND_IN(kind, expr_FIRST_ITERATED_LOGICAL, expr_LAST_ITERATED_LOGICAL); return vp_begin(n, 0); }
static Tok handler_EndIteratedLogical(ArgH h) { return vp_end(h); }
static ArgH handler_BeginPairwise(int kind, int n) { OPK_IS(g_opcode, kind); KIND_IN(kind, expr_FIRST_PAIRWISE, expr_LAST_PAIRWISE); return vp_begin(n, 0); }
static Tok handler_EndPairwise(ArgH h) { return vp_end(h); }
/* handler methods called after the operands have been read: the opcode is the enclosing function's variable `opcode` */
#define handler_OnUnary(...) vp_OnUnary(opcode, __VA_ARGS__)
#define handler_OnBinary(...) vp_OnBinary(opcode, __VA_ARGS__)
#define handler_OnIf(...) vp_OnIf(opcode, __VA_ARGS__)
#define handler_OnSymbolicIf(...) vp_OnSymbolicIf(opcode, __VA_ARGS__)
#define handler_OnNot(...) vp_OnNot(opcode, __VA_ARGS__)
#define handler_OnBinaryLogical(...) vp_OnBinaryLogical(opcode, __VA_ARGS__)
#define handler_OnRelational(...) vp_OnRelational(opcode, __VA_ARGS__)
#define handler_OnLogicalCount(...) vp_OnLogicalCount(opcode, __VA_ARGS__)
#define handler_OnImplication(...) vp_OnImplication(opcode, __VA_ARGS__)
#define handler_BeginNumberOf(...) vp_BeginNumberOf(opcode, __VA_ARGS__)
#define handler_BeginSymbolicNumberOf(...) vp_BeginSymbolicNumberOf(opcode, __VA_ARGS__)
/* piecewise-linear term: n breakpoints are announced, n + 1 slopes and n breakpoints follow, alternating and starting with a slope */
static ArgH handler_BeginPLTerm(int nbp) { OPK_IS(g_opcode, expr_PLTERM); __CPROVER_assert(nbp >= 1, "a piecewise-linear term announces at least one breakpoint"); return vp_begin(nbp + 1, 0); }
static void ArgH_AddSlope(ArgH *h, double v) {
  __CPROVER_assert(h->depth == g_depth, "slope is added to the innermost open Begin notification");
  __CPROVER_assert(h->added == h->bps && h->added < h->expected, "slopes and breakpoints alternate, starting with a slope; not more slopes than announced");
  h->added++; }
static void ArgH_AddBreakpoint(ArgH *h, double v) {
  __CPROVER_assert(h->depth == g_depth, "breakpoint is added to the innermost open Begin notification");
  __CPROVER_assert(h->bps + 1 == h->added && h->bps + 1 < h->expected, "slopes and breakpoints alternate; not more breakpoints than announced");
  h->bps++; }
static Tok handler_EndPLTerm(ArgH h, Tok ref) {
  ARG_OK(ref);
  __CPROVER_assert(h.bps + 1 == h.expected, "exactly the announced number of breakpoints was delivered");
  return vp_end(h); }
'''

# contract shared by the five mutually recursive entry points (mid = the record's first character has already been read)
def contract(mid, may_be_null='0', req='1'):
    return ('__CPROVER_requires(' + req + ') __CPROVER_requires(g_depth >= 0 && g_midline == %d && header_.num_vars >= 0 && header_.num_funcs >= 0 && num_vars_and_exprs_ >= header_.num_vars) '
            '__CPROVER_ensures(g_depth == __CPROVER_old(g_depth) && !g_midline) '
            '__CPROVER_ensures(__CPROVER_return_value == 0 ? ((%s) && g_seq == __CPROVER_old(g_seq)) '
            ': (g_seq > __CPROVER_old(g_seq) && __CPROVER_return_value == g_seq)) '
            '__CPROVER_assigns(g_seq, g_depth, g_midline, g_char, g_opcode)') % (mid, may_be_null)


H2 = [(r'\b(reader_|handler_)\.(?:template\s+)?', r'\1', -1)]
# overloads get distinct C names (chosen by the shape of the call, which is what C++ overload resolution does here)
CALLS = [
    (r'\bReadNumericExpr\(ReadOpCode\(\)\)', 'ReadNumericExpr_op(ReadOpCode())', -1),
    (r'\bReadNumericExpr\(opcode\)', 'ReadNumericExpr_op(opcode)', -1),
    (r'\bReadNumericExpr\((c|code), (\w+)\)', r'ReadNumericExpr_code(\1, \2)', -1),
    (r'\bReadNumericExpr\(reader_\.ReadChar\(\), ignore_zero\)', 'ReadNumericExpr_code(reader_.ReadChar(), ignore_zero)', -1),
    (r'\bReadNumericExpr\(\)', 'ReadNumericExpr_b(false)', -1),
    (r'\bReadNumericExpr\((true|false)\)', r'ReadNumericExpr_b(\1)', -1),
    (r'\bReadLogicalExpr\(ReadOpCode\(\)\)', 'ReadLogicalExpr_op(ReadOpCode())', -1),
    (r'\bReadLogicalExpr\(\)', 'ReadLogicalExpr0()', -1),
    (r'\bReadConstant\(\)', 'ReadConstant0()', -1),
    (r'\bReadConstant\((c|code)\)', r'ReadConstant_c(\1)', -1),
    (r'\bReadNumArgs\(\)', 'ReadNumArgs(MIN_ITER_ARGS)', -1),
    (r'\bReadUInt\(', 'ReadUInt1(', -1),
    (r'\b(?:reader_\.)ReadUInt1\(', 'reader_.ReadUInt(', -1),
    (r'\b(Do)?ReadArgs<(\w+)>\(([^;]*?), (\w+)\);', r'\1ReadArgs_\2(\3, &\4);', -1),
    (r'\b(\w+)\.(AddArg|AddSlope|AddBreakpoint)\(', r'ArgH_\2(&\1, ', -1),
    (r'BinaryArgReader<> args\(\*this\);', 'BinaryArgs args = BinaryArgReader_NumericExprReader();', -1),
    (r'BinaryArgReader<LogicalExprReader> args\(\*this\);', 'BinaryArgs args = BinaryArgReader_LogicalExprReader();', -1),
    (r'\bReadOpCode\(\)', 'vp_ReadOpCode()', -1),
    (r'\b(?:NumericExpr|LogicalExpr)\(\)', '0', -1),
    (r'const internal::OpCodeInfo &info =', 'const struct OpCodeInfo info =', -1),
    (r'switch \(char c = reader_\.ReadChar\(\)\)', 'char c = reader_.ReadChar(); switch (c)', -1),
] + H2

PROTOS = '''
typedef struct { Tok lhs, rhs; } BinaryArgs;
Tok ReadNumericExpr_op(int opcode);
Tok ReadNumericExpr_code(char code, bool ignore_zero);
Tok ReadSymbolicExpr(void);
Tok ReadLogicalExpr0(void);
Tok ReadLogicalExpr_op(int opcode);
'''


def fn(anchor, proto, label, con='', loops=None, extra=(), **kw):
    return Fn(NLR, anchor, proto, contract=con, loops=loops, subst=list(extra) + CALLS, label=label, nmatches=1, **kw)


LOOP_ARGS = ('__CPROVER_assigns(i, %(h)s, g_seq, g_depth, g_midline, g_char, g_opcode) '
             '__CPROVER_loop_invariant(0 <= i && i <= %(n)s && %(hv)s.added == %(a0)s + i && %(hv)s.expected == %(exp)s && %(hv)s.depth == g_depth && '
             'g_depth == __CPROVER_loop_entry(g_depth) && !g_midline && g_seq >= __CPROVER_loop_entry(g_seq)) __CPROVER_decreases(%(n)s - i)')


def functions():
    """all extracted functions of the expression reader, in dependency order; name -> Fn"""
    F = {}
    F['GetOpCodeInfo'] = Fn(COMMON, r'inline const OpCodeInfo &GetOpCodeInfo\(int opcode\)', 'struct OpCodeInfo GetOpCodeInfo(int opcode)',
                            subst=[(r'OpCodeInfo::INFO\[', 'OpCodeInfo_INFO[', 1)], label='mp::internal::GetOpCodeInfo', nmatches=1)
    F['nl_opcode'] = Fn(COMMON, r'inline int expr::nl_opcode\(expr::Kind kind\)', 'int expr_nl_opcode(int kind)',
                        subst=[(r'internal::ExprInfo::INFO\[', 'ExprInfo_INFO[', 1), (r'internal::IsValid\(kind\)', '(kind >= expr_UNKNOWN && kind <= expr_LAST_EXPR)', 1)],
                        label='mp::expr::nl_opcode', nmatches=1)
    F['ReadUInt1'] = fn(r'int ReadUInt\(unsigned ub\)', 'int ReadUInt1(unsigned ub)', 'mp::internal::NLReader::ReadUInt(unsigned)',
                        extra=[(r'reader_\.ReportError\("integer \{\} out of bounds", value\)', 'reader_.ReportError()', 1)])
    F['ReadNumArgs'] = fn(r'int ReadNumArgs\(int min_args = MIN_ITER_ARGS\)', 'int ReadNumArgs(int min_args)', 'mp::internal::NLReader::ReadNumArgs')
    F['ReadOpCode'] = fn(r'int ReadOpCode\(\)', 'int ReadOpCode(void)', 'mp::internal::NLReader::ReadOpCode',
                         extra=[(r'internal::MAX_OPCODE', 'MAX_OPCODE', 1)])
    F['vp_ReadOpCode'] = '''
static int vp_ReadOpCode(void) {
  __CPROVER_assert(g_char == 'o', "an opcode is read only from a record that starts with 'o'");
  int o = ReadOpCode(); g_opcode = o; return o; }
'''
    F['ReadConstant_c'] = fn(r'double NLReader<Reader, Handler>::ReadConstant\(char code\)', 'double ReadConstant_c(char code)',
                             'mp::internal::NLReader::ReadConstant(char)')
    F['ReadConstant0'] = fn(r'double ReadConstant\(\) \{ return ReadConstant\(reader_\.ReadChar\(\)\); \}', 'double ReadConstant0(void)',
                            'mp::internal::NLReader::ReadConstant()', extra=[(r'return ReadConstant\(reader_', 'return ReadConstant_c(reader_', 1)])
    F['DoReadReference'] = fn(r'Reference DoReadReference\(\)', 'Tok DoReadReference(void)', 'mp::internal::NLReader::DoReadReference')
    F['ReadReference'] = fn(r'Reference ReadReference\(\)', 'Tok ReadReference(void)', 'mp::internal::NLReader::ReadReference')
    F['ReadNumericExpr_b'] = fn(r'NumericExpr ReadNumericExpr\(bool ignore_zero = false\)', 'Tok ReadNumericExpr_b(bool ignore_zero)',
                                'mp::internal::NLReader::ReadNumericExpr(bool)')
    for X, call in (('NumericExprReader', r'r\.ReadNumericExpr\(\)'), ('LogicalExprReader', r'r\.ReadLogicalExpr\(\)'), ('SymbolicExprReader', r'r\.ReadSymbolicExpr\(\)')):
        F[X + '_Read'] = Fn(NLR, r'Expr Read\(NLReader &r\) const \{ return ' + call + r'; \}', 'Tok %s_Read(void)' % X,
                            subst=[(r'\br\.', '', 1)] + CALLS, label='mp::internal::NLReader::%s::Read' % X, nmatches=1)
        F['DoReadArgs_' + X] = fn(r'void DoReadArgs\(int num_args, ArgHandler \s*&?\s*arg_handler\)', 'void DoReadArgs_%s(int num_args, ArgH *arg_handler_p)' % X,
                                  'mp::internal::NLReader::DoReadArgs<%s, ArgHandler>' % X, inst='ExprReader=%s' % X,
                                  extra=[(r'ExprReader expr_reader;', '', 1), (r'expr_reader\.Read\(\*this\)', '%s_Read()' % X, 1)],
                                  refs={'arg_handler': 'arg_handler_p'},
                                  con='__CPROVER_requires(__CPROVER_is_fresh(arg_handler_p, sizeof(ArgH)))' if False else '',
                                  loops={0: LOOP_ARGS % dict(h='__CPROVER_object_whole(arg_handler_p)', hv='(*arg_handler_p)', n='num_args',
                                                             a0='__CPROVER_loop_entry(arg_handler_p->added)', exp='__CPROVER_loop_entry(arg_handler_p->expected)')})
        F['ReadArgs_' + X] = fn(r'void ReadArgs\(int num_args, ArgHandler \s*&?\s*arg_handler\)', 'void ReadArgs_%s(int num_args, ArgH *arg_handler_p)' % X,
                                'mp::internal::NLReader::ReadArgs<%s, ArgHandler>' % X, inst='ExprReader=%s' % X,
                                extra=[(r'DoReadArgs<ExprReader>\(num_args, arg_handler\)', 'DoReadArgs_%s(num_args, &arg_handler)' % X, 1)],
                                refs={'arg_handler': 'arg_handler_p'})
    for X in ('NumericExprReader', 'LogicalExprReader'):
        F['BinaryArgReader_' + X] = Fn(NLR, r'BinaryArgReader\(NLReader &r\)', 'BinaryArgs BinaryArgReader_%s(void)' % X,
                                       subst=[(r'ExprReader\(\)\.Read\(r\)', '%s_Read()' % X, 2)],
                                       pre='Tok lhs, rhs;', post='BinaryArgs vp_r; vp_r.lhs = lhs; vp_r.rhs = rhs; return vp_r;',
                                       label='mp::internal::NLReader::BinaryArgReader<%s>::BinaryArgReader (members initialised in declaration order lhs, rhs)' % X,
                                       inst='ExprReader=%s' % X, nmatches=1)
    F['ReadCountExpr'] = fn(r'typename Handler::CountExpr ReadCountExpr\(\)', 'Tok ReadCountExpr(void)', 'mp::internal::NLReader::ReadCountExpr')
    # the five recursive entry points
    F['ReadNumericExpr_op'] = fn(r'NLReader<Reader, Handler>::ReadNumericExpr\(int opcode\)', 'Tok ReadNumericExpr_op(int opcode)',
                                 'mp::internal::NLReader::ReadNumericExpr(int opcode)', con=contract(0, req='0 <= opcode && opcode <= MAX_OPCODE && g_opcode == opcode'),
                                 loops={0: '__CPROVER_assigns(i, pl_handler, g_midline, g_char) __CPROVER_loop_invariant(0 <= i && i <= num_slopes - 1 && pl_handler.added == i && '
                                           'pl_handler.bps == i && pl_handler.expected == num_slopes && pl_handler.depth == g_depth && !g_midline) '
                                           '__CPROVER_decreases(num_slopes - 1 - i)'})
    F['ReadNumericExpr_code'] = fn(r'NLReader<Reader, Handler>::ReadNumericExpr\(char code, bool ignore_zero\)', 'Tok ReadNumericExpr_code(char code, bool ignore_zero)',
                                   'mp::internal::NLReader::ReadNumericExpr(char code, bool ignore_zero)', con=contract(1, 'ignore_zero', req='g_char == code'),
                                   loops={0: LOOP_ARGS % dict(h='args', hv='args', n='num_args', a0='0', exp='num_args')})
    F['ReadSymbolicExpr'] = fn(r'typename Handler::Expr NLReader<Reader, Handler>::ReadSymbolicExpr\(\)', 'Tok ReadSymbolicExpr(void)',
                               'mp::internal::NLReader::ReadSymbolicExpr', con=contract(0))
    F['ReadLogicalExpr0'] = fn(r'typename Handler::LogicalExpr NLReader<Reader, Handler>::ReadLogicalExpr\(\)', 'Tok ReadLogicalExpr0(void)',
                               'mp::internal::NLReader::ReadLogicalExpr()', con=contract(0))
    F['ReadLogicalExpr_op'] = fn(r'NLReader<Reader, Handler>::ReadLogicalExpr\(int opcode\)', 'Tok ReadLogicalExpr_op(int opcode)',
                                 'mp::internal::NLReader::ReadLogicalExpr(int opcode)', con=contract(0, req='0 <= opcode && opcode <= MAX_OPCODE && g_opcode == opcode'))
    return F


ORDER = ['GetOpCodeInfo', 'nl_opcode', 'ReadUInt1', 'ReadNumArgs', 'ReadOpCode', 'vp_ReadOpCode', 'ReadConstant_c', 'ReadConstant0', 'DoReadReference', 'ReadReference',
         'ReadNumericExpr_b', 'NumericExprReader_Read', 'LogicalExprReader_Read', 'SymbolicExprReader_Read',
         'DoReadArgs_NumericExprReader', 'ReadArgs_NumericExprReader', 'DoReadArgs_LogicalExprReader', 'ReadArgs_LogicalExprReader',
         'DoReadArgs_SymbolicExprReader', 'ReadArgs_SymbolicExprReader', 'BinaryArgReader_NumericExprReader', 'BinaryArgReader_LogicalExprReader',
         'ReadCountExpr', 'ReadNumericExpr_op', 'ReadNumericExpr_code', 'ReadSymbolicExpr', 'ReadLogicalExpr0', 'ReadLogicalExpr_op']
ENTRY = ['ReadNumericExpr_op', 'ReadNumericExpr_code', 'ReadSymbolicExpr', 'ReadLogicalExpr0', 'ReadLogicalExpr_op']


def tables():
    import re
    from vp import extract
    m = re.search(r'MAX_OPCODE\s*=\s*(\d+)', extract.read_repo(COMMON))
    if not m:
        raise extract.ExtractionError('MAX_OPCODE not found')
    if not re.search(r'enum \{MIN_ITER_ARGS = 3\};', extract.read_repo(NLR)):
        raise extract.ExtractionError('enum {MIN_ITER_ARGS = 3}; not found in nl-reader.h')
    return ['enum { MAX_OPCODE = %s };  /* include/mp/common.h */\n' % m.group(1),
            ('enum', COMMON, r'enum Kind \{\s*// An unknown expression\.|enum Kind \{\s*UNKNOWN = 0', 'expr_'),
            'typedef int expr_Kind_t;\n#define expr_Kind int\nstruct OpCodeInfo { int kind; int first_kind; };\nstruct ExprInfo { int opcode; const char *str; };\n',
            Braced(EI, r'const mp::internal::OpCodeInfo mp::internal::OpCodeInfo::INFO\[\] = \{',
                   header='const struct OpCodeInfo OpCodeInfo_INFO[] =', label='mp::internal::OpCodeInfo::INFO (generated table, regenerated on this run)'),
            Braced(EI, r'const mp::internal::ExprInfo mp::internal::ExprInfo::INFO\[\] = \{',
                   header='const struct ExprInfo ExprInfo_INFO[] =', label='mp::internal::ExprInfo::INFO (generated table, regenerated on this run)')]


def h_entry(target):
    F = functions()
    args = {'ReadNumericExpr_op': 'nondet_int()', 'ReadNumericExpr_code': 'nondet_char(), nondet_bool()', 'ReadSymbolicExpr': '',
            'ReadLogicalExpr0': '', 'ReadLogicalExpr_op': 'nondet_int()'}[target]
    parts = [PRE] + tables() + [READER, HANDLER, PROTOS] + [F[n] for n in ORDER] + ['''
void harness(void) {
  vp_one = 1;
  header_.num_vars = nondet_int(); header_.num_funcs = nondet_int(); num_vars_and_exprs_ = nondet_int();
  g_seq = nondet_ulong(); g_depth = nondet_int(); g_midline = nondet_bool(); g_char = nondet_char(); g_opcode = nondet_int();
  %s(%s);
  VP_REACH("normal return");
}
''' % (target, args)]
    return Harness('C02.expr.' + target, 'C02', parts, enforce=target, recursive=True, replace=[e for e in ENTRY if e != target],
                   loop_contracts=True, expect_loop_obligations=0 if target in ('ReadSymbolicExpr', 'ReadLogicalExpr0') else 1, timeout=600, object_bits=12,
                   stubs=['Handler (every On*/Begin*/End*/AddArg asserts index ranges, argument counts, nesting, argument order)',
                          'leaf reader (ReadChar/ReadUInt/ReadInt/ReadDouble/ReadString/ReadTillEndOfLine: contracts proved by C02.text.* / C02.binary.*)'],
                   assumptions=['mutual recursion: the other four entry points and recursive calls are used through the common contract (induction on call depth; '
                                'termination of the descent not proved)', 'ghost creation counter below 2^62'],
                   note='opcode symbolic over the real OpCodeInfo table', replay=replay_expr)


_drv = [None]


def replay_expr(lead, inputs, obs):
    """The contract counterexample is a state of the ghost model, not a file: the native replay generates random well-formed models
    over every opcode, reads them with the real mp::ReadNLString into a checking handler (replay/c02_expr_replay.cc)."""
    import os
    import subprocess
    from vp.run import BUILD, VERIF
    from vp import extract
    repo = os.environ.get('VP_REPO', '/repo')
    if _drv[0] is None:
        out = os.path.join(BUILD, 'replay', 'c02_expr_replay')
        os.makedirs(os.path.dirname(out), exist_ok=True)
        gen = extract.generated_dir()
        cmd = ['g++', '-std=c++17', '-g', '-O0', '-w', '-fsanitize=address,undefined', '-fno-sanitize-recover=all',
               '-I', repo + '/include', '-I', repo + '/src', os.path.join(VERIF, 'replay', 'c02_expr_replay.cc')] + \
              [os.path.join(repo, 'src', x) for x in ('nl-reader.cc', 'format.cc', 'os.cc', 'posix.cc')] + [os.path.join(gen, 'expr-info.cc'), '-o', out]
        p = subprocess.run(cmd, capture_output=True, text=True)
        if p.returncode != 0:
            return False, 'replay driver build failed: ' + p.stderr[-1500:], ' '.join(cmd)
        _drv[0] = out
    args = [_drv[0], '1', '4000']
    try:
        p = subprocess.run(args, capture_output=True, text=True, timeout=300)
    except subprocess.TimeoutExpired:
        return False, 'generated models did not finish in 300 s', ''
    return p.returncode != 0, (p.stdout + p.stderr)[-3000:], ' '.join(args)


def harnesses():
    return [h_entry(t) for t in ENTRY]
