"""C02 (continued) - the segment dispatcher NLReader::Read(Reader *bound_reader), ReadSuffix<ItemInfo> (4 item classes) and
ReadLinearExpr<AlgebraicConHandler>() ('J' segment).

The dispatcher loop carries the invariant "at the start of a segment the previous record was consumed up to its end of line and no
Begin notification is open".  Every index handed to the handler in a segment head is asserted to be inside the range the header
declared for its item class; the suffix readers check their announced number of values against the size of the suffix's OWN item
class (computed here independently from the header, per kind).  Expression readers are used through the contracts proved by
specs/C02_expr.py, item readers through the contracts proved by specs/C02_items.py.
"""
import re

from vp import extract
from vp.extract import Fn
from vp.run import Harness
from specs import C02_expr as E

NLR = 'include/mp/nl-reader.h'
COMMON = 'include/mp/common.h'


def const(file, pattern, what):
    m = re.search(pattern, extract.blank_comments(extract.read_repo(file)), re.S)
    if not m:
        raise extract.ExtractionError('%s not found in %s' % (what, file))
    return m.group(1)


def consts():
    return 'enum { SUFFIX_KIND_MASK = %s, READ_BOUNDS_FIRST = %s, suf_FLOAT = %s, suf_VAR = %s, suf_CON = %s, suf_OBJ = %s, suf_PROBLEM = %s, ' \
           'func_NUMERIC = %s, func_SYMBOLIC = %s, obj_MIN = %s, obj_MAX = %s };   /* read from common.h / nl.h on this run */\n' \
           'typedef int suf_Kind; typedef int func_Type;\n' % (
               const(COMMON, r'SUFFIX_KIND_MASK\s*=\s*(\d+)', 'SUFFIX_KIND_MASK'), const('include/mp/nl.h', r'READ_BOUNDS_FIRST\s*=\s*(\d+)', 'READ_BOUNDS_FIRST'),
               const(COMMON, r'\bFLOAT\s*=\s*(\d+)', 'suf::FLOAT'), const(COMMON, r'namespace suf \{.*?\bVAR\s*=\s*(\d+)', 'suf::VAR'),
               const(COMMON, r'namespace suf \{.*?\bCON\s*=\s*(\d+)', 'suf::CON'), const(COMMON, r'namespace suf \{.*?\bOBJ\s*=\s*(\d+)', 'suf::OBJ'),
               const(COMMON, r'namespace suf \{.*?\bPROBLEM\s*=\s*(\d+)', 'suf::PROBLEM'), const(COMMON, r'\bNUMERIC\s*=\s*(\d+)', 'func::NUMERIC'),
               const(COMMON, r'\bSYMBOLIC\s*=\s*(\d+)', 'func::SYMBOLIC'), const(COMMON, r'namespace obj \{.*?\bMIN\s*=\s*(\d+)', 'obj::MIN'),
               const(COMMON, r'namespace obj \{.*?\bMAX\s*=\s*(\d+)', 'obj::MAX'))


SEG = '''
int flags_;
static Str reader_ReadName(void) { Str s; s.size = nondet_int(); __CPROVER_assume(s.size >= 1); g_midline = 1; return s; }
static _Bool reader_IsEOF(void) { return nondet_bool(); }
static void reader_ptr(void) {}
static void vp_switch_reader(void *r) { g_midline = 0; }   /* reader_ = *bound_reader: the saved reader stands at the line after the variable bounds */
int ReadUInt2(unsigned lb, unsigned ub);
#define VP_SEL2(_1, _2, NAME, ...) NAME
#define ReadUInt(...) VP_SEL2(__VA_ARGS__, ReadUInt2, ReadUInt1)(__VA_ARGS__)
#define HDR_OK (header_.num_vars >= 0 && header_.num_funcs >= 0 && header_.num_algebraic_cons >= 0 && header_.num_logical_cons >= 0 && header_.num_objs >= 0 && \\
  (long)header_.num_algebraic_cons + header_.num_logical_cons <= INT_MAX)
/* size of the item class of a suffix kind, computed from the header independently of the reader's ItemInfo classes */
static long vp_items_of(int kind) {
  return kind == suf_VAR ? header_.num_vars : kind == suf_CON ? (long)header_.num_algebraic_cons + header_.num_logical_cons :
         kind == suf_OBJ ? header_.num_objs : 1; }
/* --- suffix handlers --- */
typedef struct { int kind, announced; } SufH;
int g_suf_values;    /* ghost: values delivered for the current suffix */
static SufH vp_OnSuffix(int info, Str name, int kind, int num_values) {
  __CPROVER_assert(kind == (info & SUFFIX_KIND_MASK), "the suffix is announced with the kind given in the file");
  __CPROVER_assert(1 <= num_values && num_values <= vp_items_of(kind), "a suffix announces between 1 and (size of its item class) values");
  g_suf_values = 0; SufH h; h.kind = kind; h.announced = num_values; return h; }
#define handler_OnDblSuffix(...) vp_OnSuffix(info, __VA_ARGS__)
#define handler_OnIntSuffix(...) vp_OnSuffix(info, __VA_ARGS__)
/* ReadSuffixValues<ValueReader>(num_values, num_items, handler): contract proved by C02.NLReader.ReadSuffixValues */
static void vp_ReadSuffixValues(int num_values, int num_items, SufH *h) {
  __CPROVER_assert(!g_midline && num_values >= 0 && num_items >= 0, "precondition of ReadSuffixValues");
  __CPROVER_assert(num_items == vp_items_of(h->kind), "suffix value indices are checked against the size of the suffix's own item class");
  __CPROVER_assert(num_values == h->announced, "exactly the announced number of suffix values is read");
  g_suf_values = num_values; g_midline = 0; }
/* --- segment heads --- */
int g_cexpr_index, g_cexpr_terms, g_cexpr_read;
typedef struct { int dummy; } LinH;
static void handler_OnAlgebraicCon(int index, Tok e) {
  __CPROVER_assert(0 <= index && index < header_.num_algebraic_cons, "algebraic constraint index inside the declared range");
  __CPROVER_assert(e <= g_seq, "the expression handed over has been created (or is the null expression of an ignored zero)"); }
static void handler_OnLogicalCon(int index, Tok e) {
  __CPROVER_assert(0 <= index && index < header_.num_logical_cons, "logical constraint index inside the declared range"); ARG_OK(e); }
static _Bool handler_NeedObj(int index) {
  __CPROVER_assert(0 <= index && index < header_.num_objs, "objective index inside the declared range"); return nondet_bool(); }
static int handler_resulting_obj_index(int index) { return nondet_int(); }     /* decided by C12 */
static void handler_OnObj(int index, int type, Tok e) {
  __CPROVER_assert(type == obj_MIN || type == obj_MAX, "objective sense is MIN or MAX");
  __CPROVER_assert(e <= g_seq, "the expression handed over has been created (or is null)"); }
static LinH handler_BeginCommonExpr(int index, int num_linear_terms) {
  __CPROVER_assert(0 <= index && index < num_vars_and_exprs_ - header_.num_vars, "common-expression index inside the declared range");
  __CPROVER_assert(num_linear_terms >= 0, "announced number of linear terms is not negative");
  __CPROVER_assume(g_depth < INT_MAX); ++g_depth;
  g_cexpr_index = index; g_cexpr_terms = num_linear_terms; g_cexpr_read = 0; LinH h; h.dummy = 0; return h; }
/* ReadLinearExpr(num_terms, handler): contract proved by C02.NLReader.ReadLinearExpr (exactly num_terms terms, variable indices in range) */
static void vp_ReadLinearTerms(int num_terms) {
  __CPROVER_assert(!g_midline && num_terms >= 0, "precondition of ReadLinearExpr(num_terms, handler)");
  g_cexpr_read += num_terms; g_midline = 0; }
static void handler_EndCommonExpr(int index, Tok e, int position) {
  __CPROVER_assert(index == g_cexpr_index, "EndCommonExpr names the expression that BeginCommonExpr opened");
  __CPROVER_assert(g_cexpr_read == g_cexpr_terms, "exactly the announced number of linear terms was read");
  __CPROVER_assert(g_depth == 1, "EndCommonExpr closes the only open notification"); ARG_OK(e); --g_depth; }
static void handler_OnFunction(int index, Str name, int num_args, int type) {
  __CPROVER_assert(0 <= index && index < header_.num_funcs, "function index inside the declared range");
  __CPROVER_assert(type == func_NUMERIC || type == func_SYMBOLIC, "function type is NUMERIC or SYMBOLIC"); }
/* item readers: contracts proved by specs/C02_items.py and C12.NLReader.G_segment (each ends at an end of line) */
#define VP_ITEM_READER(name) static void name(void) { __CPROVER_assert(g_midline, "called right after the segment letter"); g_midline = 0; }
VP_ITEM_READER(ReadLinearExpr_ObjHandler) VP_ITEM_READER(ReadBounds_VarHandler) VP_ITEM_READER(ReadBounds_AlgebraicConHandler)
VP_ITEM_READER(ReadColumnSizes_false) VP_ITEM_READER(ReadColumnSizes_true) VP_ITEM_READER(ReadInitialValues_VarHandler)
VP_ITEM_READER(ReadInitialValues_AlgebraicConHandler)
/* 'J' segment */
int g_lin_index, g_lin_terms, g_lin_notified, g_lin_read;
static LinH handler_OnLinearConExpr(int index, int num_terms) {
  __CPROVER_assert(0 <= index && index < header_.num_algebraic_cons, "algebraic constraint index inside the declared range");
  __CPROVER_assert(1 <= num_terms && num_terms <= header_.num_vars, "between 1 and num_vars linear terms are announced");
  g_lin_notified = 1; g_lin_index = index; g_lin_terms = num_terms; LinH h; h.dummy = 0; return h; }
static void vp_ReadLinearTermsNull(int num_terms) { __CPROVER_assert(!g_midline, "precondition"); g_lin_read = num_terms; g_midline = 0; }
static void vp_ReadLinearTermsH(int num_terms, LinH h) { __CPROVER_assert(!g_midline, "precondition"); g_lin_read = num_terms; g_midline = 0; }
'''

CALLS2 = [
    (r'\bReadNumericExpr\(\)', 'ReadNumericExpr_b(false)', -1),
    (r'\bReadNumericExpr\((true|false)\)', r'ReadNumericExpr_b(\1)', -1),
    (r'\bReadLogicalExpr\(\)', 'ReadLogicalExpr0()', -1),
    (r'\bfmt::StringRef name\b', 'Str name', -1),
] + E.H2

SUFFIX_CONTRACT = ('__CPROVER_requires(HDR_OK && g_midline && 0 <= info && info <= (SUFFIX_KIND_MASK | suf_FLOAT) && (info & SUFFIX_KIND_MASK) == %s) '
                   '__CPROVER_ensures(!g_midline && g_suf_values >= 1) __CPROVER_assigns(g_midline, g_suf_values)')


def item_fns():
    """the real num_items() of the four ItemInfo classes used by ReadSuffix, and the AlgebraicConHandler members used by 'J'"""
    strip = [(r'this->reader_\.', '', -1)]
    F = {}
    F['VarHandler'] = Fn(NLR, r'int num_items\(\) const \{ return this->reader_\.header_\.num_vars; \}', 'int VarHandler_num_items(void)', subst=strip,
                         label='mp::internal::NLReader::VarHandler::num_items', nmatches=1)
    F['ObjHandler'] = Fn(NLR, r'int num_items\(\) const \{ return this->reader_\.header_\.num_objs; \}', 'int ObjHandler_num_items(void)', subst=strip,
                         label='mp::internal::NLReader::ObjHandler::num_items', nmatches=1)
    F['ConHandler'] = Fn(NLR, r'int num_items\(\) const \{\s*return this->reader_\.header_\.num_algebraic_cons \+', 'int ConHandler_num_items(void)', subst=strip,
                         label='mp::internal::NLReader::ConHandler::num_items', nmatches=1)
    F['ProblemHandler'] = Fn(NLR, r'int num_items\(\) const \{ return 1; \}', 'int ProblemHandler_num_items(void)',
                             label='mp::internal::NLReader::ProblemHandler::num_items', nmatches=1)
    F['AlgebraicConHandler'] = Fn(NLR, r'int num_items\(\) const \{ return this->reader_\.header_\.num_algebraic_cons; \}', 'int AlgebraicConHandler_num_items(void)',
                                  subst=strip, label='mp::internal::NLReader::AlgebraicConHandler::num_items', nmatches=1)
    F['ACH_SkipExpr'] = Fn(NLR, r'bool SkipExpr\(int\) const', 'bool AlgebraicConHandler_SkipExpr(int vp_unused)',
                           label='mp::internal::NLReader::AlgebraicConHandler::SkipExpr', nmatches=1)
    F['ACH_OnLinearExpr'] = Fn(NLR, r'typename Handler::LinearConHandler OnLinearExpr\(int index, int num_terms\)', 'LinH AlgebraicConHandler_OnLinearExpr(int index, int num_terms)',
                               subst=[(r'this->reader_\.handler_\.', 'handler_', 1)], label='mp::internal::NLReader::AlgebraicConHandler::OnLinearExpr', nmatches=1)
    return F


def suffix_fn(X, kind):
    return Fn(NLR, r'void NLReader<Reader, Handler>::ReadSuffix\(int info\)', 'void ReadSuffix_%s_%s(int info)' % (X, kind),
              contract=SUFFIX_CONTRACT % kind,
              subst=[(r'ItemInfo\(\*this\)\.num_items\(\)', '%s_num_items()' % X, 1),
                     (r'typename Handler::DblSuffixHandler\s+suffix_handler =', 'SufH suffix_handler =', 1),
                     (r'typename Handler::IntSuffixHandler\s+suffix_handler =', 'SufH suffix_handler =', 1),
                     (r'ReadSuffixValues<DoubleReader>\(num_values, num_items, suffix_handler\)', 'vp_ReadSuffixValues(num_values, num_items, &suffix_handler)', 1),
                     (r'ReadSuffixValues<IntReader>\(num_values, num_items, suffix_handler\)', 'vp_ReadSuffixValues(num_values, num_items, &suffix_handler)', 1)] + CALLS2,
              label='mp::internal::NLReader::ReadSuffix<%s>' % X, inst='ItemInfo=%s' % X, nmatches=1)


def suffix_classes():
    """(ItemInfo class, suffix kind) pairs read from the switch in NLReader::Read on this run"""
    ex = extract.find_function(NLR, r'void NLReader<Reader, Handler>::Read\(Reader \*bound_reader\)', 0, 1)
    pairs = re.findall(r'case suf::(\w+):\s*ReadSuffix<(\w+)>\(info\);', ex.body)
    if len(pairs) < 4:
        raise extract.ExtractionError('only %d "case suf::K: ReadSuffix<X>(info);" pairs found in NLReader::Read' % len(pairs))
    return [(X, 'suf_' + K) for K, X in pairs]


def num_items_fn(X):
    """the real X::num_items() const, located inside `struct X`"""
    src = extract.blank_comments(extract.read_repo(NLR))
    m = re.search(r'\bstruct %s\b[^;{]*\{' % re.escape(X), src)
    if not m:
        raise extract.ExtractionError('struct %s not found in nl-reader.h' % X)
    depth, i = 1, m.end()
    while depth and i < len(src):
        depth += {'{': 1, '}': -1}.get(src[i], 0)
        i += 1
    hits = [k.start() for k in re.finditer(r'int num_items\(\) const', src)]
    inside = [n for n, pos in enumerate(hits) if m.end() <= pos < i]
    if len(inside) != 1:
        raise extract.ExtractionError('%d definitions of num_items() inside struct %s' % (len(inside), X))
    return Fn(NLR, r'int num_items\(\) const', 'int %s_num_items(void)' % X, ordinal=inside[0], subst=[(r'this->reader_\.', '', -1)],
              label='mp::internal::NLReader::%s::num_items' % X)

READ_CONTRACT = ('__CPROVER_requires(HDR_OK && !g_midline && g_depth == 0 && header_.num_common_exprs_in_both >= 0 && header_.num_common_exprs_in_cons >= 0 && '
                 'header_.num_common_exprs_in_objs >= 0 && header_.num_common_exprs_in_single_cons >= 0 && header_.num_common_exprs_in_single_objs >= 0 && '
                 '(long)header_.num_vars + header_.num_common_exprs_in_both + header_.num_common_exprs_in_cons + header_.num_common_exprs_in_objs + '
                 'header_.num_common_exprs_in_single_cons + header_.num_common_exprs_in_single_objs <= INT_MAX) '     # postcondition of ReadHeader
                 '__CPROVER_ensures(g_depth == 0) '
                 '__CPROVER_assigns(num_vars_and_exprs_, g_seq, g_depth, g_midline, g_char, g_opcode, g_suf_values, g_cexpr_index, g_cexpr_terms, g_cexpr_read, '
                 'g_lin_index, g_lin_terms, g_lin_notified, g_lin_read)')


def read_fn():
    return Fn(NLR, r'void NLReader<Reader, Handler>::Read\(Reader \*bound_reader\)', 'void Read(void *bound_reader)', contract=READ_CONTRACT,
              subst=[(r'typename Handler::LinearExprHandler\s+expr_handler\(handler_\.BeginCommonExpr\(expr_index, num_linear_terms\)\);',
                      'LinH expr_handler = handler_.BeginCommonExpr(expr_index, num_linear_terms);', 1),
                     (r'ReadLinearExpr\(num_linear_terms, expr_handler\)', 'vp_ReadLinearTerms(num_linear_terms)', 1),
                     (r'ReadLinearExpr<(\w+)>\(\)', r'ReadLinearExpr_\1()', 2),
                     (r'case suf::(\w+):(\s*)ReadSuffix<(\w+)>\(info\);', r'case suf::\1:\2ReadSuffix_\3_suf_\1(info);', 4),
                     (r'ReadBounds<(\w+)>\(\)', r'ReadBounds_\1()', 2),
                     (r'ReadColumnSizes<(true|false)>\(\)', r'ReadColumnSizes_\1()', 2),
                     (r'ReadInitialValues<(\w+)>\(\)', r'ReadInitialValues_\1()', 2),
                     (r'reader_ = \*bound_reader;', 'vp_switch_reader(bound_reader);', 1)] + CALLS2,
              loops={0: '__CPROVER_assigns(read_bounds, bound_reader, g_seq, g_depth, g_midline, g_char, g_opcode, g_suf_values, g_cexpr_index, g_cexpr_terms, g_cexpr_read, '
                        'g_lin_index, g_lin_terms, g_lin_notified, g_lin_read) '
                        '__CPROVER_loop_invariant(!g_midline && g_depth == 0 && num_vars_and_exprs_ >= header_.num_vars)'},
              label='mp::internal::NLReader::Read(Reader *bound_reader)', nmatches=1)


def linear_con_fn():
    return Fn(NLR, r'void NLReader<Reader, Handler>::ReadLinearExpr\(\) \{', 'void ReadLinearExpr_AlgebraicConHandler(void)',
              contract='__CPROVER_requires(HDR_OK && g_midline) '
                       '__CPROVER_ensures(!g_midline && g_lin_notified == 1 && g_lin_read == g_lin_terms && 0 <= g_lin_index && g_lin_index < header_.num_algebraic_cons) '
                       '__CPROVER_assigns(g_midline, g_lin_index, g_lin_terms, g_lin_notified, g_lin_read)',
              subst=[(r'LinearHandler lh\(\*this\);', '', 1), (r'\blh\.', 'AlgebraicConHandler_', -1),
                     (r'ReadLinearExpr\(num_terms, NullLinearExprHandler\(\)\)', 'vp_ReadLinearTermsNull(num_terms)', 1),
                     (r'ReadLinearExpr\(num_terms, AlgebraicConHandler_OnLinearExpr\(index, num_terms\)\)',
                      'vp_ReadLinearTermsH(num_terms, AlgebraicConHandler_OnLinearExpr(index, num_terms))', 1)] + CALLS2,
              label='mp::internal::NLReader::ReadLinearExpr<AlgebraicConHandler>()', inst='LinearHandler=AlgebraicConHandler', nmatches=1)


def parts_common():
    Fx = E.functions()
    pre = E.PRE.replace('struct { int num_vars, num_funcs; } header_;',
                        'struct { int num_vars, num_funcs, num_algebraic_cons, num_logical_cons, num_objs, num_common_exprs_in_both, num_common_exprs_in_cons, '
                        'num_common_exprs_in_objs, num_common_exprs_in_single_cons, num_common_exprs_in_single_objs; } header_;')
    if pre == E.PRE:
        raise extract.ExtractionError('C02_expr.PRE header struct changed')
    base = [pre] + E.tables() + [consts(), E.READER, E.HANDLER, E.PROTOS, SEG]
    # the expression reader functions needed here: ReadUInt1, ReadNumericExpr_b (real); the recursive entry points by contract
    exprs = [Fx[n] for n in E.ORDER]
    ru2 = Fn(NLR, r'int ReadUInt\(unsigned lb, unsigned ub\)', 'int ReadUInt2(unsigned lb, unsigned ub)',
             subst=[(r'reader_\.ReportError\("integer \{\} out of bounds", value\)', 'reader_.ReportError()', 1)] + E.H2,
             label='mp::internal::NLReader::ReadUInt(unsigned, unsigned)', nmatches=1)
    return base, exprs, ru2


def h_read():
    base, exprs, ru2 = parts_common()
    SC = suffix_classes()
    I = item_fns()
    parts = base + exprs + [ru2] + [I[k] for k in ('AlgebraicConHandler', 'ACH_SkipExpr', 'ACH_OnLinearExpr')] + \
        [num_items_fn(X) for X in sorted(set(x for x, _ in SC) - {'AlgebraicConHandler'})] + [suffix_fn(X, k) for X, k in SC] + [linear_con_fn(), read_fn(), '''
void harness(void) {
  vp_one = 1;
  header_.num_vars = nondet_int(); header_.num_funcs = nondet_int(); header_.num_algebraic_cons = nondet_int(); header_.num_logical_cons = nondet_int();
  header_.num_objs = nondet_int(); header_.num_common_exprs_in_both = nondet_int(); header_.num_common_exprs_in_cons = nondet_int();
  header_.num_common_exprs_in_objs = nondet_int(); header_.num_common_exprs_in_single_cons = nondet_int(); header_.num_common_exprs_in_single_objs = nondet_int();
  flags_ = nondet_int(); g_seq = nondet_ulong(); g_depth = 0; g_midline = 0; g_lin_notified = 0;
  Read(nondet_bool() ? (void *)&flags_ : (void *)0);
  VP_REACH("normal return");
}
''']
    return Harness('C02.NLReader.Read', 'C02', parts, enforce='Read', replace=['ReadNumericExpr_code', 'ReadLogicalExpr0'] +
                   ['ReadSuffix_%s_%s' % (X, k) for X, k in SC] + ['ReadLinearExpr_AlgebraicConHandler'],
                   loop_contracts=True, expect_loop_obligations=1, timeout=600, object_bits=12, replay=E.replay_expr,
                   stubs=['Handler segment heads (assert index ranges)', 'item readers ReadBounds/ReadColumnSizes/ReadInitialValues/ReadLinearExpr<ObjHandler> '
                          '(contracts proved by C02.NLReader.* and C12.NLReader.G_segment)', 'expression readers (contracts proved by C02.expr.*)',
                          'ReadSuffix<X>, ReadLinearExpr<AlgebraicConHandler> (contracts proved by the harnesses below)'],
                   note='the for(;;) dispatcher with a loop invariant; termination (end of input) is not proved here')


def h_suffix(X, kind):
    base, exprs, ru2 = parts_common()
    I = item_fns()
    Fx = E.functions()
    parts = base + [Fx['ReadUInt1'], ru2, num_items_fn(X), suffix_fn(X, kind), '''
void harness(void) {
  vp_one = 1;
  header_.num_vars = nondet_int(); header_.num_algebraic_cons = nondet_int(); header_.num_logical_cons = nondet_int(); header_.num_objs = nondet_int(); header_.num_funcs = 0;
  g_midline = nondet_bool(); g_suf_values = 0;
  ReadSuffix_%s_%s(nondet_int());
  VP_REACH("normal return");
}
''' % (X, kind)]
    return Harness('C02.NLReader.ReadSuffix.%s.%s' % (kind[4:], X), 'C02', parts, enforce='ReadSuffix_%s_%s' % (X, kind), timeout=300, replay=E.replay_expr,
                   stubs=['Handler::OnDblSuffix/OnIntSuffix (assert kind and announced count against the item class)', 'ReadSuffixValues (contract proved by C02.NLReader.ReadSuffixValues)'])


def h_linear_con():
    base, exprs, ru2 = parts_common()
    I = item_fns()
    Fx = E.functions()
    parts = base + [Fx['ReadUInt1'], ru2, I['AlgebraicConHandler'], I['ACH_SkipExpr'], I['ACH_OnLinearExpr'], linear_con_fn(), '''
void harness(void) {
  vp_one = 1;
  header_.num_vars = nondet_int(); header_.num_algebraic_cons = nondet_int(); header_.num_logical_cons = nondet_int(); header_.num_objs = nondet_int(); header_.num_funcs = 0;
  g_midline = nondet_bool(); g_lin_notified = 0;
  ReadLinearExpr_AlgebraicConHandler();
  VP_REACH("normal return");
}
''']
    return Harness('C02.NLReader.ReadLinearExpr.con', 'C02', parts, enforce='ReadLinearExpr_AlgebraicConHandler', timeout=300, replay=E.replay_expr,
                   stubs=['Handler::OnLinearConExpr (asserts index and term count)', 'ReadLinearExpr(n, handler) (contract proved by C02.NLReader.ReadLinearExpr)'])


NLC_ = 'src/nl-reader.cc'


def h_filereader_read():
    """NLFileReader<File>::Read(MemoryBuffer&) - the copy path taken when the file size is a multiple of the page size (mmap would give no
    terminator): the buffer handed to ReadNLString holds size_ + 1 bytes, every byte read from the file lands inside it, and byte size_ is the
    NUL terminator the reader relies on.  MemoryBuffer::resize(n) is an allocation of exactly n bytes (its capacity may be larger, never
    smaller); File::read(buf, count) writes at most count bytes at buf and returns how many (at least 1: the file does not shrink)."""
    parts = ['#include "mp_shim.h"\nint vp_one;\n', '''
size_t size_; char *g_buf; size_t g_buf_size;
char *g_pool; size_t g_pool_size;   /* the allocation: a block of arbitrary size; the request is assumed to be exactly that size (all sizes are covered) */
static void array_resize(size_t n) { __CPROVER_assume(n == g_pool_size); g_buf = g_pool; g_buf_size = n; }
static char *array_at(size_t i) { __CPROVER_assert(i < g_buf_size, "the buffer element accessed is inside the size the buffer was given"); return g_buf + i; }
static size_t file_read(char *p, size_t count) {
  __CPROVER_assert(count == 0 || (__CPROVER_same_object(p, g_buf) && __CPROVER_POINTER_OFFSET(p) + count <= g_buf_size), "the file is read into the buffer, inside its size");
  size_t n = nondet_size_t(); __CPROVER_assume(n >= 1 && n <= count); return n; }
''',
             Fn(NLC_, r'void mp::internal::NLFileReader<File>::Read\(\s*fmt::internal::MemoryBuffer<char, 1> &array\)', 'void FileReader_Read(void)',
                contract='__CPROVER_requires(size_ < ((size_t)1 << 31) && g_pool_size >= 1 && g_pool_size <= ((size_t)1 << 31) && __CPROVER_is_fresh(g_pool, g_pool_size)) '
                         '__CPROVER_ensures(g_buf_size >= size_ + 1 && g_buf[size_] == 0) __CPROVER_assigns(g_buf, g_buf_size, __CPROVER_object_whole(g_pool))',
                subst=[(r'array\.resize\(', 'array_resize(', 1), (r'file_\.read\(', 'file_read(', 1), (r'&array\[offset\]', 'array_at(offset)', 1), (r'\barray\[size_\]', '*array_at(size_)', 1)],
                loops={0: '__CPROVER_assigns(offset, __CPROVER_object_whole(g_pool)) __CPROVER_loop_invariant(offset <= size_ && g_buf == g_pool && g_buf_size == g_pool_size) __CPROVER_decreases(size_ - offset)'},
                label='mp::internal::NLFileReader::Read(MemoryBuffer&)', nmatches=1),
             'void harness(void) { vp_one = 1; size_ = nondet_size_t(); g_pool_size = nondet_size_t(); FileReader_Read(); VP_REACH("normal return"); }\n']
    return Harness('C02.NLFileReader.Read.copy', 'C02', parts, enforce='FileReader_Read', loop_contracts=True, expect_loop_obligations=1,
                   stubs=['fmt::internal::MemoryBuffer (allocation of exactly the requested size)', 'fmt::File::read (writes at most count bytes, returns 1..count)'])


def h_filereader_open(page):
    """NLFileReader<File>::Open: rounded_size_ is size_ rounded up to a multiple of the page size, so the dispatch of Read(filename, ...) uses
    the mmap path exactly when the mapping has at least one zero byte behind the file's content (rounded_size_ > size_)."""
    parts = ['#include "mp_shim.h"\nint vp_one;\n', '''
size_t size_, rounded_size_; size_t g_fsize;
#define g_page ((size_t)%d)     /* the page size: a constant per harness (SAT does not decide a remainder by a symbolic divisor) */
static size_t ConvertFileToMmapSize(size_t n, const char *name) { return n; }     /* identity when it does not throw (size fits size_t) */
static size_t getpagesize_(void) { return g_page; }
''' % page,
             Fn(NLC_, r'void mp::internal::NLFileReader<File>::Open\(fmt::CStringRef filename\)', 'void FileReader_Open(const char *filename)',
                contract='__CPROVER_requires(g_page >= 1 && g_page <= ((size_t)1 << 30) && g_fsize < ((size_t)1 << 46)) '
                         '__CPROVER_ensures(size_ == g_fsize && rounded_size_ >= size_ && rounded_size_ - size_ < g_page && rounded_size_ % g_page == 0) '
                         '__CPROVER_ensures((rounded_size_ == size_) == (size_ % g_page == 0)) __CPROVER_assigns(size_, rounded_size_)',
                subst=[(r'file_ = File\(filename, fmt::File::RDONLY \| fmt::File::BINARY\);', '', 1), (r'file_\.size\(\)', 'g_fsize', 1), (r'fmt::getpagesize\(\)', 'getpagesize_()', 1)],
                label='mp::internal::NLFileReader::Open', nmatches=1),
             'void harness(void) { vp_one = 1; g_fsize = nondet_size_t(); FileReader_Open((const char *)0); VP_REACH("normal return"); }\n']
    return Harness('C02.NLFileReader.Open.page%d' % page, 'C02', parts, enforce='FileReader_Open', stubs=['File open / size, getpagesize (arbitrary values)'], timeout=600)


def harnesses():
    return [h_read()] + [h_suffix(X, k) for X, k in suffix_classes()] + [h_linear_con(), h_filereader_read(), h_filereader_open(4096), h_filereader_open(65536)]
