"""C02 / C03 (continued) - the NL header: what the library's own header formatter writes is what TextReader::ReadHeader reports, field by field.

`fmt::Writer &operator<<(fmt::Writer &, const NLHeader &)` (src/nl-reader.cc) is the library's definition of the text layout of the ten header
lines.  It is extracted with its output expanded mechanically into a token stream (R22 for `w.write("<fmt>", ...)`, and the same for the
`w << a << b` chains: a character literal blank is a separator, a newline ends the line, every other operand is a token).  The real
ReadHeader is then run over that stream: ReadChar / ReadUInt / ReadOptionalUInt / ReadOptionalDouble / ReadTillEndOfLine take tokens
in order, an optional read succeeds exactly while the current line has tokens left.  For EVERY header (any counts, any number of options
0..9, vbtol form or not, text or binary format) every field ReadHeader reports equals the field that was written, no error is raised and no
number of a line is left unread.  A count read into the wrong field, a line read in another order, a dropped or extra read all fail here.
Loops: the options loops of both functions, bounded by MAX_AMPL_OPTIONS = 9: complete unwinding.
"""
import re

from vp import extract
from vp.extract import Fn
from vp.run import Harness
from specs import C02
from specs.C05_writer import translate_prints

NLC = 'src/nl-reader.cc'


def shift_chain(m):
    """w << a << b << ...;  ->  token emits"""
    items = [x.strip() for x in re.split(r'<<', m.group(1))]
    out = []
    for it in items:
        if it in ("' '",):
            continue
        if it == r"'\n'":
            out.append('VP_EOL();')
        else:
            out.append('VP_TOK(%s);' % it)
    return '{ ' + ' '.join(out) + ' }'


class HeaderFormatter(Fn):
    def render(self):
        return super().render()


def formatter_fn():
    def body_sub(m):
        body = m.group(0)
        if not body:
            return ''
        body, n = translate_prints(body, [(r'[\s\S]*', 'VP_TOK')], 'format_header', pattern=r'\bw\.write\(')
        if n < 8:
            raise extract.ExtractionError('format_header: R22 translated %d w.write calls, expected the ten header lines' % n)
        return body
    return Fn(NLC, r'fmt::Writer &mp::operator<<\(fmt::Writer &w, const NLHeader &h\)', 'void format_header(void)',
              subst=[(r'\bw\s*<<\s*([^;]*);', shift_chain, -1), (r'return w;', 'return;', 1), (r'.*', body_sub, -1), (r'\bh\.', 'h_in.', -1)],
              label='mp::operator<<(fmt::Writer&, const NLHeader&)', nmatches=1)


STREAM = '''
/* the token stream between the formatter and the reader */
double g_tok[96]; int g_tline[96]; int g_nt, g_wline, g_rd, g_rline;
#define VP_LIT(s) ((void)0)                      /* blanks between the numbers */
#define VP_NL() VP_EOL()
static void VP_EOL(void) { g_wline++; }
static void vp_tok(double v) { __CPROVER_assert(g_nt < 96, "token stream capacity"); g_tok[g_nt] = v; g_tline[g_nt] = g_wline; g_nt++; }
#define VP_TOK(e) vp_tok((double)(e))
NLHeader h_in;
#define VP_MAY_THROW_ReadError 0
#define ReportError(...) VP_THROW(ReadError)
static _Bool vp_more(void) { return g_rd < g_nt && g_tline[g_rd] == g_rline; }
static char ReadChar(void) { __CPROVER_assert(vp_more(), "the reader finds the format letter"); return (char)g_tok[g_rd++]; }
static int ReadUInt(void) { __CPROVER_assert(vp_more(), "the reader finds the number it expects on this header line"); double v = g_tok[g_rd++];
  __CPROVER_assert(v >= 0 && v <= INT_MAX, "a count written by the formatter is a non-negative int"); return (int)v; }
static size_t ReadUInt_size_t(void) { __CPROVER_assert(vp_more(), "the reader finds the number it expects on this header line"); double v = g_tok[g_rd++]; return (size_t)v; }
static int ReadUInt_acc(int *acc) { int v = ReadUInt(); __CPROVER_assert((long)*acc + v <= INT_MAX, "the accumulated count fits (precondition of the written header)"); *acc += v; return v; }
static _Bool ReadOptionalUInt(int *v) { if (!vp_more()) return 0; *v = (int)g_tok[g_rd++]; return 1; }
static _Bool ReadOptionalDouble(double *v) { if (!vp_more()) return 0; *v = g_tok[g_rd++]; return 1; }
static void ReadTillEndOfLine(void) { __CPROVER_assert(!vp_more(), "no number of the header line is left unread"); g_rline++; }
'''

FIELDS = ['format', 'num_ampl_options', 'ampl_vbtol', 'num_vars', 'num_algebraic_cons', 'num_objs', 'num_ranges', 'num_eqns', 'num_logical_cons',
          'num_nl_cons', 'num_nl_objs', 'num_compl_conds', 'num_nl_compl_conds', 'num_compl_dbl_ineqs', 'num_compl_vars_with_nz_lb',
          'num_nl_net_cons', 'num_linear_net_cons', 'num_nl_vars_in_cons', 'num_nl_vars_in_objs', 'num_nl_vars_in_both', 'num_linear_net_vars',
          'num_funcs', 'arith_kind', 'flags', 'num_linear_binary_vars', 'num_linear_integer_vars', 'num_nl_integer_vars_in_both',
          'num_nl_integer_vars_in_cons', 'num_nl_integer_vars_in_objs', 'num_con_nonzeros', 'num_obj_nonzeros', 'max_con_name_len', 'max_var_name_len',
          'num_common_exprs_in_both', 'num_common_exprs_in_cons', 'num_common_exprs_in_objs', 'num_common_exprs_in_single_cons',
          'num_common_exprs_in_single_objs']


def header_defaults():
    """the reader starts from `NLHeader header = NLHeader();` (nl-reader.h): value-initialisation zeroes the object, then the user-provided
    NLInfo() constructor (include/mp/nl-header.h) sets its defaults.  The constructor body is extracted; its three library calls are rewritten."""
    ex = extract.find_braced('include/mp/nl-header.h', r'\bNLInfo\(\)\s*\{')
    body = ex.body[ex.body.index('{') + 1:ex.body.rindex('}')]
    rules = [(r'std::fill\(ampl_options, ampl_options \+ MAX_AMPL_OPTIONS, 0\);', 'for (int k = 0; k < MAX_AMPL_OPTIONS; ++k) h->ampl_options[k] = 0;'),
             (r'std::array<long, (\d+)> opt_default \{([^}]*)\};', r'long opt_default[\1] = {\2}; enum { vp_ndef = \1 };'),
             (r'std::copy\(opt_default\.begin\(\), opt_default\.end\(\), ampl_options\);', 'for (int k = 0; k < vp_ndef; ++k) h->ampl_options[k] = opt_default[k];'),
             (r'\bformat = BINARY;', 'h->format = NLHeader_BINARY;')]
    for pat, rep in rules:
        body, n = re.subn(pat, rep, body)
        if n != 1:
            raise extract.ExtractionError('NLInfo(): /%s/ fired %d times, expected 1' % (pat, n))
    body, n = re.subn(r'(?m)^(\s*)(prob_name|num_ampl_options|ampl_vbtol|arith_kind|flags) = ', r'\1h->\2 = ', body)
    if n != 5:
        raise extract.ExtractionError('NLInfo(): %d plain member assignments, expected 5' % n)
    if re.search(r'(?m)^\s*\w+ = ', body):
        raise extract.ExtractionError('NLInfo(): a member assignment the extraction does not know')
    hc = extract.blank_comments(extract.read_repo('include/mp/nl-header-c.h'))
    consts = []
    for name in ('NL_ARITH_IEEE_LITTLE_ENDIAN', 'WANT_OUTPUT_SUFFIXES'):
        m = re.search(r'\b%s\s*=\s*(\d+)' % name, hc)
        if not m:
            raise extract.ExtractionError('nl-header-c.h: %s not found' % name)
        consts.append('%s = %s' % (name, m.group(1)))
    return ('enum { %s };   /* nl-header-c.h */\n#line %d "/repo/include/mp/nl-header.h"\nstatic void NLHeader_default(NLHeader *h) { memset(h, 0, sizeof *h); %s }\n'
            % (', '.join(consts), ex.line, body))


def h_roundtrip(name='C02.header.roundtrip', prop='C02', writer=None, call='format_header()', extra_pre='', extra_decl='', stub='fmt::Writer output (R22: expanded into a token stream)'):
    src = extract.blank_comments(extract.read_repo('include/mp/nl-header-c.h'))
    missing = [f for f in FIELDS if not re.search(r'\b%s\b' % f, src)]
    if missing:
        raise extract.ExtractionError('NLHeader fields not found in nl-header-c.h: %s' % missing)
    ints = [f for f in FIELDS if f not in ('format', 'ampl_vbtol', 'num_con_nonzeros', 'num_obj_nonzeros', 'arith_kind')]
    pre = ' && '.join('h_in.%s >= 0' % f for f in ints)
    checks = '\n'.join('  __CPROVER_assert(h_out.%s == h_in.%s, "ReadHeader reports %s as it was written");' % (f, f, f) for f in FIELDS if f != 'ampl_vbtol')
    reader = Fn(NLC, r'void mp::internal::TextReader<Locale>::ReadHeader\(NLHeader\s*&?\s*header\)', 'void ReadHeader(NLHeader *header_p)',
                subst=[(r'ReadUInt<std::size_t>\(\)', 'ReadUInt_size_t()', 2), (r'ReadUInt\(max_vars\)', 'ReadUInt_acc(&max_vars)', 5),
                       (r'ReadOptionalUInt\((header\.\w+|arith_kind)\)', r'ReadOptionalUInt(&\1)', -1),
                       (r'ReadOptionalDouble\((tmp|header\.ampl_vbtol)\)', r'ReadOptionalDouble(&\1)', 2)],
                refs={'header': 'header_p'}, label='mp::internal::TextReader::ReadHeader', nmatches=1)
    parts = ['#include "mp_shim.h"\nint vp_one;\n', C02.header_struct(), C02.HDR_CONSTS,
             extract.Braced(NLC, r'enum \{\s*USE_VBTOL_OPTION', header='enum', label='enum {USE_VBTOL_OPTION, READ_VBTOL}'),
             'enum { arith_LAST = 5 };   /* mp::arith::LAST = NL_ARITH_LAST = NL_ARITH_CRAY (nl-header-c.h) */\n', STREAM, header_defaults(), extra_decl, writer if writer is not None else formatter_fn(), reader, '''
void harness(void) {
  vp_one = 1;
  /* the header to be written: arbitrary, inside the value ranges of a valid NL header */
  { NLHeader vp_any; h_in = vp_any; }            /* an uninitialised automatic object is an arbitrary one */
  h_in.format = nondet_bool() ? NLHeader_TEXT : NLHeader_BINARY;
  __CPROVER_assume(%s);
  __CPROVER_assume(h_in.num_ampl_options <= MAX_AMPL_OPTIONS);
  for (int k = 0; k < MAX_AMPL_OPTIONS; ++k) __CPROVER_assume(h_in.ampl_options[k] > -(1L << 53) && h_in.ampl_options[k] < (1L << 53));   /* options that a double carries exactly */
  __CPROVER_assume(h_in.ampl_vbtol == h_in.ampl_vbtol);
  __CPROVER_assume(h_in.ampl_options[USE_VBTOL_OPTION] != READ_VBTOL || h_in.num_ampl_options > USE_VBTOL_OPTION);   /* the vbtol form needs that option to be present */
  __CPROVER_assume(h_in.num_compl_conds >= h_in.num_nl_compl_conds);
  __CPROVER_assume((long)h_in.num_algebraic_cons + h_in.num_logical_cons <= INT_MAX);
  __CPROVER_assume((long)h_in.num_vars + h_in.num_common_exprs_in_both + h_in.num_common_exprs_in_cons + h_in.num_common_exprs_in_objs +
                   h_in.num_common_exprs_in_single_cons + h_in.num_common_exprs_in_single_objs <= INT_MAX);
  __CPROVER_assume(h_in.format == NLHeader_TEXT ? h_in.arith_kind == 0 : (h_in.arith_kind >= 0 && h_in.arith_kind <= arith_LAST));   /* a text header carries no arithmetic kind */
  __CPROVER_assume(h_in.num_con_nonzeros < (1UL << 53) && h_in.num_obj_nonzeros < (1UL << 53));
%s  g_nt = 0; g_wline = 0;
  %s;                                 /* writer */
  NLHeader h_out; NLHeader_default(&h_out);           /* NLHeader header = NLHeader(); (nl-reader.h) */
  g_rd = 0; g_rline = 0;
  ReadHeader(&h_out);                              /* reader */
  __CPROVER_assert(g_rd == g_nt, "the reader consumed every number the formatter wrote");
%s
  for (int k = 0; k < MAX_AMPL_OPTIONS; ++k) if (k < h_in.num_ampl_options) __CPROVER_assert(h_out.ampl_options[k] == h_in.ampl_options[k], "ReadHeader reports every option as it was written");
  if (h_in.ampl_options[USE_VBTOL_OPTION] == READ_VBTOL) __CPROVER_assert(h_out.ampl_vbtol == h_in.ampl_vbtol, "ReadHeader reports vbtol as it was written");
  VP_REACH("end");
}
''' % (pre, extra_pre, call, checks)]
    return Harness(name, prop, parts, plain=True, timeout=900, flags=['--unwind', '12'],
                   stubs=[stub, 'leaf readers of TextReader (token stream: contracts proved by C02.text.*)'],
                   note='options loops bounded by MAX_AMPL_OPTIONS = 9: unwinding 12 is complete')


def replay_header(lead, inputs, obs):
    """native: random valid headers through the library's formatter and the real ReadHeader (replay/c02_header_replay.cc)"""
    import os
    import subprocess
    from vp.run import BUILD, VERIF
    repo = os.environ.get('VP_REPO', '/repo')
    out = os.path.join(BUILD, 'replay', 'c02_header_replay')
    os.makedirs(os.path.dirname(out), exist_ok=True)
    cmd = ['g++', '-std=c++17', '-w', '-O0', '-I', repo + '/include', '-I', repo + '/src', os.path.join(VERIF, 'replay', 'c02_header_replay.cc')] + \
          [os.path.join(repo, 'src', x) for x in ('nl-reader.cc', 'format.cc', 'os.cc', 'posix.cc')] + [os.path.join(extract.generated_dir(), 'expr-info.cc'), '-o', out]
    p = subprocess.run(cmd, capture_output=True, text=True)
    if p.returncode != 0:
        return False, 'replay driver build failed: ' + p.stderr[-1500:], ' '.join(cmd)
    p = subprocess.run([out, '1', '20000'], capture_output=True, text=True, timeout=300)
    return p.returncode == 10, (p.stdout + p.stderr)[-2000:], out + ' 1 20000'


def harnesses():
    h = h_roundtrip()
    h.replay = replay_header
    return [h]
