"""C14 - SOL reader totality and memory safety (nl-writer2/include/mp/sol-reader2.hpp / .h).

Bottom-up contracts; stdio / string functions are body stubs (shims/stdio_stubs.h) that assert the
caller's obligations at the real call sites and return arbitrary results ("any file content").
"""
from vp.extract import Fn, Braced
from vp.run import Harness

HPP = 'nl-writer2/include/mp/sol-reader2.hpp'
H = 'nl-writer2/include/mp/sol-reader2.h'
BASICS = 'nl-writer2/include/mp/nl-solver-basics-c.h'

META = {
    'decides': 'for any file content (every fgets/fread/getc result) and any declared problem size: no out-of-bounds access, '
               'no signed overflow, no out-of-range float->int conversion in the reader functions under contract; vector '
               'readers are offered at most the declared number of values; suffix buffers are sized from the validated header; '
               'a failed vector read leaves a non-OK result (CheckReader)',
    'not_decided': 'termination of the file-driven loops (they end because the file is finite: assumption of the stdio stubs); '
                   'std::string / std::vector internals (allocation succeeds); File::Open; the SOLHandler implementation',
    'not_under_contract': [],
    'assumptions': ['stdio and string functions are stubs: fgets returns NULL or a NUL-terminated string shorter than the size '
                    'passed; fread returns <= nmemb after writing at most size*nmemb bytes; strtod/strtol return an end pointer '
                    'inside the object of their argument; strlen/strcpy scan for the first NUL',
                    'one reader object: members rendered as globals; std::string err / std::vector<char> xp rendered as '
                    '(pointer,length) pairs; allocation never fails'],
    'trusted_base': ['shims/stdio_stubs.h'],
}

ENUM = ('enum', BASICS, r'enum NLW2_SOLReadResultCode\s*\{', '')

PRE = '''
#include "stdio_stubs.h"
int vp_one;
typedef enum NLW2_SOLReadResultCode NLW2_SOLReadResultCode;
#define assert(x) __CPROVER_assert(x, "assert(" #x ") of the source holds")
/* ghost description of the text buffer a cursor points into */
char *g_base; size_t g_n;
#define VP_INIT do { vp_one = 1; g_big = 0; g_big_size = 0; g_big_hi = 0; g_nul_ptr = 0; } while (0)
#define IN_BUF(p) (__CPROVER_same_object((p), g_base) && __CPROVER_POINTER_OFFSET(p) < g_n)
#define BUF_OK (g_n >= 1 && g_n <= 100000 && __CPROVER_OBJECT_SIZE(g_base) == g_n && __CPROVER_POINTER_OFFSET(g_base) == 0 && g_base[g_n - 1] == 0)
static void vp_mkbuf(void) {
  g_n = nondet_size_t(); __CPROVER_assume(g_n >= 1 && g_n <= 100000);
  g_base = vp_malloc(g_n); g_base[g_n - 1] = 0;
}
'''


def decstring_fn(contract=True):
    return Fn(HPP, r'inline int decstring\(const char \*buf, double \*val\)', 'int decstring(const char *buf, double *val)',
              contract=('__CPROVER_requires(BUF_OK && IN_BUF(buf) && __CPROVER_w_ok(val, sizeof(double))) '
                        '__CPROVER_ensures(__CPROVER_return_value == 0 || __CPROVER_return_value == 1) '
                        '__CPROVER_assigns(*val)') if contract else '',
              label='mp::decstring', nmatches=1)


def h_decstring():
    parts = [PRE, decstring_fn(), '''
void harness(void) { VP_INIT; vp_mkbuf(); size_t off = nondet_size_t(); __CPROVER_assume(off < g_n); double v;
  decstring(g_base + off, &v); VP_REACH("normal return"); }
''']
    return Harness('C14.decstring', 'C14', parts, enforce='decstring', stubs=['strtod'])


LGET_CONTRACT = ('__CPROVER_requires(__CPROVER_w_ok(sp, sizeof(char *)) && __CPROVER_w_ok(Lp, sizeof(int)) && VP_NUL_AT_OR_AFTER(*sp)) '
                 '__CPROVER_ensures(__CPROVER_return_value == 0 || __CPROVER_return_value == 1) '
                 '__CPROVER_ensures(VP_NUL_AT_OR_AFTER(*sp)) '
                 '__CPROVER_ensures(__CPROVER_return_value == 0 ==> *Lp >= 0) '
                 '__CPROVER_assigns(*sp, *Lp)')
LGET_DECL = 'int Lget(char **sp, int *Lp)\n' + LGET_CONTRACT + ';\n'


def lget_fn(contract=True, loops=True):
    inv = 'VP_NUL_AT_OR_AFTER(s)'
    dec = '__CPROVER_decreases(__CPROVER_POINTER_OFFSET(g_nul_ptr) - __CPROVER_POINTER_OFFSET(s))'
    return Fn(HPP, r'^Lget\(char \*\*sp, int \*Lp\)', 'int Lget(char **sp, int *Lp)',
              contract=LGET_CONTRACT if contract else '',
              loops={0: '__CPROVER_assigns(s) __CPROVER_loop_invariant(%s) %s' % (inv, dec),
                     1: '__CPROVER_assigns(s, c, L) __CPROVER_loop_invariant(%s && L >= 0) %s' % (inv, dec)} if loops else None,
              label='mp::Lget', nmatches=1)


def h_lget():
    parts = [PRE, lget_fn(), '''
void harness(void) { VP_INIT; vp_mkbuf(); size_t off = nondet_size_t(), z = nondet_size_t();
  __CPROVER_assume(off <= z && z < g_n && g_base[z] == 0);
  g_nul_ptr = g_base + z;               /* some NUL at or after the cursor: all the function may rely on */
  char *s = g_base + off; int L;
  Lget(&s, &L); VP_REACH("normal return"); }
''']
    return Harness('C14.Lget', 'C14', parts, enforce='Lget', loop_contracts=True, expect_loop_obligations=2)


# ---------------------------------------------------------------------------------------------
# Read(FILE*, binary, double&, err) / Read(FILE*, binary, pair<int,El>&, err) / VecReader::ReadNext

ERR_SUBST = [(r'err\.resize\(512\);', '/* err is the 512-byte buffer */;', 1),
             (r'err\.data\(\)', 'err', -1), (r'err\.size\(\)', '((size_t)512)', 1), (r'err\.c_str\(\)', 'err', -1)]

ERR_OK = '(__CPROVER_w_ok(%s, 512) && __CPROVER_OBJECT_SIZE(%s) == 512 && __CPROVER_POINTER_OFFSET(%s) == 0)'

READ_CONTRACT = ('__CPROVER_requires(' + ERR_OK % ('err', 'err', 'err') + ' && __CPROVER_w_ok(v_p, sizeof(*v_p))) '
                 '__CPROVER_ensures(__CPROVER_return_value == NLW2_SOLRead_OK || __CPROVER_return_value == NLW2_SOLRead_Early_EOF '
                 '|| __CPROVER_return_value == NLW2_SOLRead_Bad_Line) '
                 'VP_FREAD_REQ VP_FREAD_ENS(__CPROVER_return_value == NLW2_SOLRead_OK && binary, sizeof(*v_p) - VP_PAD) '
                 '__CPROVER_assigns(*v_p, __CPROVER_object_whole(err), g_nul_ptr VP_FREAD_ASSIGNS)')

KINDS = {   # kind -> (C value type, Read function, C++ instantiation)
    'double': ('double', 'Read_double', 'double'),
    'pair_int': ('struct pair_int_int', 'Read_pair_int', 'std::pair<int,int>'),
    'pair_double': ('struct pair_int_double', 'Read_pair_double', 'std::pair<int,double>'),
}

PAIRS = '''
struct pair_int_int { int first; int second; };
struct pair_int_double { int first; double second; };
'''


def read_fn(kind, contract=True):
    vt, name, inst = KINDS[kind]
    if kind == 'double':
        return Fn(HPP, r'inline NLW2_SOLReadResultCode Read\(\s*FILE\* f, int binary, double\s*&?\s*v, std::string\s*&?\s*err\)',
                  'NLW2_SOLReadResultCode Read_double(FILE *f, int binary, double *v_p, char *err)',
                  contract=READ_CONTRACT if contract else '', subst=ERR_SUBST, refs={'v': 'v_p'},
                  label='mp::Read(FILE*,int,double&,std::string&)', nmatches=1)
    El = 'int' if kind == 'pair_int' else 'double'
    return Fn(HPP, r'inline NLW2_SOLReadResultCode Read\(\s*FILE\* f, int binary,\s*std::pair<int, El>\s*&?\s*v, std::string\s*&?\s*err\)',
              'NLW2_SOLReadResultCode %s(FILE *f, int binary, %s *v_p, char *err)' % (name, vt),
              contract=READ_CONTRACT if contract else '', subst=ERR_SUBST,
              refs={'v': 'v_p'}, defines={'El': El, 'VP_IS_INTEGER_El': '1' if El == 'int' else '0',
                       'VP_MIN_El': 'INT_MIN' if El == 'int' else 'DBL_MIN', 'VP_MAX_El': 'INT_MAX' if El == 'int' else 'DBL_MAX'},
              label='mp::Read(FILE*,int,std::pair<int,El>&,std::string&)', inst='El=%s' % El, nmatches=1)


def h_read(kind):
    vt, name, inst = KINDS[kind]
    parts = [PRE, ENUM, PAIRS, decstring_fn(False), read_fn(kind), '''
void harness(void) { VP_INIT; FILE f; char *err = vp_malloc(512); %s v;
  %s(&f, nondet_int(), &v, err); VP_REACH("normal return"); }
''' % (vt, name)]
    return Harness('C14.Read.' + kind, 'C14', parts, enforce=name, stubs=['fgets', 'fread', 'strtod', 'strtol'], defines=['VP_TRACK_FREAD', 'VP_PAD=%d' % (4 if kind == 'pair_double' else 0)],
                   note='binary form: a value reported as read (OK) was read completely - fread delivered every byte of it')


VR = '''
/* VecReader<Value> / SuffixReader<El>: one C struct (err_msg_ is the 512-byte buffer Read() resizes it to) */
typedef struct VecReader { FILE *f_; int binary_; int n_; NLW2_SOLReadResultCode rr_; char *err_msg_; } VecReader;
#define VR_OK(vr) (__CPROVER_w_ok(vr, sizeof(VecReader)) && ''' + ERR_OK % ('(vr)->err_msg_', '(vr)->err_msg_', '(vr)->err_msg_') + ''')
'''


def readnext_fn(kind, contract=True):
    vt, rd, inst = KINDS[kind]
    c = ('__CPROVER_requires(VR_OK(vr) && vr->n_ >= 1) '
         '__CPROVER_ensures((vr->rr_ == NLW2_SOLRead_OK && vr->n_ == __CPROVER_old(vr->n_) - 1) || (vr->rr_ != NLW2_SOLRead_OK && vr->n_ == 0)) '
         '__CPROVER_assigns(vr->n_, vr->rr_, __CPROVER_object_whole(vr->err_msg_), g_nul_ptr)')
    return Fn(HPP, r'Value VecReader<Value>::ReadNext\(\)', '%s ReadNext_%s(VecReader *vr)' % (vt, kind),
              contract=c if contract else '',
              subst=[(r'Value v;', '%s v;' % vt, 1), (r'Read\(f_, binary_, v, err_msg_\)', '%s(vr->f_, vr->binary_, &v, vr->err_msg_)' % rd, 1),
                     (r'\bn_\b', 'vr->n_', 3), (r'\brr_\b', 'vr->rr_', 1)],
              label='mp::VecReader<Value>::ReadNext', inst='Value=%s' % inst, nmatches=1)


def h_readnext(kind):
    parts = [PRE, ENUM, PAIRS, VR, decstring_fn(False), read_fn(kind, False), readnext_fn(kind), '''
void harness(void) { VP_INIT; FILE f; VecReader vr; vr.f_ = &f; vr.binary_ = nondet_int(); vr.n_ = nondet_int();
  vr.rr_ = NLW2_SOLRead_OK; vr.err_msg_ = vp_malloc(512);
  ReadNext_%s(&vr); VP_REACH("normal return"); }
''' % kind]
    return Harness('C14.ReadNext.' + kind, 'C14', parts, enforce='ReadNext_' + kind, stubs=['fgets', 'fread', 'strtod', 'strtol'])


# ---------------------------------------------------------------------------------------------
# suffix header check

def structs():
    return [
        Braced(HPP, r'struct SufHead\s*\{', header='typedef struct SufHead', label='struct mp::SufHead'),
        Braced(HPP, r'struct SufRead\s*\{', subst=[(r'std::vector<char> xp;', 'char *xp_data; size_t xp_size;', 1),
                                                     (r'SufHead h;', 'struct SufHead h;', 1)],
               header='typedef struct SufRead', label='struct mp::SufRead'),
        '''
typedef struct SufHead SufHead; typedef struct SufRead SufRead;
size_t n;      /* SOLReader2 member `size_t len, n, n1, nbs, ui;` (sol-reader2.h): the name a function sees when it declares no local of that name */
/* std::vector<char>::resize on an empty vector: a zero-filled block of exactly n bytes.  DFCC forbids allocation
   inside loops that carry contracts, so the block is the pool g_big allocated once by the harness with an ARBITRARY
   size; the request is assumed to be exactly that size (every request size is covered by some pool size). */
static void vp_mkpool(void) {
  g_big_size = nondet_size_t(); __CPROVER_assume(g_big_size >= 1 && g_big_size <= (size_t)1 << 40);
  g_big = vp_malloc(g_big_size); g_big_hi = 0;
}
static void vp_xp_resize(SufRead *sr, size_t n) {
  __CPROVER_assume(n == g_big_size);
  sr->xp_data = g_big; sr->xp_size = n;
  g_big_hi = 0;                       /* fresh zero-filled block: nothing written yet */
}
int i;     /* SOLReader2::i */
''']


XP_SUBST = [(r'sr->xp\.resize\(', 'vp_xp_resize(sr, ', 1), (r'sr->xp\.data\(\)', 'sr->xp_data', 1)]
SUFHEAD_POST = ('(sr->h.kind >= 0 && sr->h.kind <= 15 && sr->h.n >= 0 && sr->h.namelen >= 2 && sr->h.tablen >= 0 && '
                '(sr->h.tablen > 0 ==> (sr->tablines >= 1 && (long)sr->tablines <= (long)sr->h.tablen + 1)) && '
                'sr->xp_size == (size_t)((long)sr->h.tablen + 2 * (long)sr->h.namelen + 6) && '
                '__CPROVER_OBJECT_SIZE(sr->xp_data) == sr->xp_size && __CPROVER_POINTER_OFFSET(sr->xp_data) == 0 && sr->xp_data == g_big && g_big_hi == 0 && '
                'sr->name == sr->xp_data && sr->table == sr->xp_data + sr->h.namelen && sr->tabname == sr->xp_data + sr->h.namelen + sr->h.tablen)')


def sufheadcheck_fn(contract=True):
    return Fn(HPP, r'int SOLReader2<SOLHandler>::sufheadcheck\(SufRead\* sr\)', 'int sufheadcheck(SufRead *sr)',
              contract=('__CPROVER_requires(__CPROVER_w_ok(sr, sizeof(*sr))) '
                        '__CPROVER_ensures(__CPROVER_return_value == 0 || __CPROVER_return_value == 1) '
                        '__CPROVER_ensures(__CPROVER_return_value == 0 ==> %s) '
                        '__CPROVER_assigns(i, n, sr->name, sr->table, sr->tabname, sr->xp_data, sr->xp_size, g_big_hi, __CPROVER_object_whole(g_big))' % SUFHEAD_POST) if contract else '',
              subst=XP_SUBST, label='mp::SOLReader2::sufheadcheck', nmatches=1)


def h_sufheadcheck():
    parts = [PRE, ENUM] + structs() + [sufheadcheck_fn(), '''
void harness(void) { VP_INIT; vp_mkpool(); SufRead SR;
  SR.h.kind = nondet_int(); SR.h.n = nondet_int(); SR.h.namelen = nondet_int(); SR.h.tablen = nondet_int(); SR.tablines = nondet_int();
  sufheadcheck(&SR); VP_REACH("normal return"); }
''']
    return Harness('C14.sufheadcheck', 'C14', parts, enforce='sufheadcheck', stubs=['std::vector<char>::resize (zero-filled block)'])



# ---------------------------------------------------------------------------------------------
# reader object (members as globals), Report*, CheckReader, handler stubs

MEMBERS = '''
typedef int Long; typedef unsigned int uLong; typedef uLong uiolen; typedef double real; typedef uLong integer;
/* members of SOLReader2 (one object) */
int binary; NLW2_SOLReadResultCode readresult_; const char *stub_; int internal_rv_;
int g_serror_calls;
/* serror(fmt, ...) formats with vsnprintf: the format must be a string of the source, never data (an error text built from a line of the
   file or supplied by the handler).  g_data_obj points to the reader's error-text buffer. */
const char *g_data_obj;
static void vp_check_fmt(const char *fmt) {
  __CPROVER_assert(g_data_obj == 0 || !__CPROVER_same_object(fmt, g_data_obj), "the printf-style format of an error report is not data from the file or the handler"); }
#ifdef VP_CHECK_FMT      /* only where the harness binds g_data_obj (C14.CheckReader: the one call whose format is not a literal) */
#define serror(fmt, ...) (vp_check_fmt(fmt), g_serror_calls = 1)
#else
#define serror(fmt, ...) (g_serror_calls = 1)
#endif
/* problem sizes from the NL header */
int g_num_vars, g_num_algebraic_cons;
int NumVars(void) { return g_num_vars; }
int NumAlgCons(void) { return g_num_algebraic_cons; }
'''


def report_fns():
    return [
        Fn(HPP, r'NLW2_SOLReadResultCode SOLReader2<SOLHandler>::ReportEarlyEof\(\)', 'NLW2_SOLReadResultCode ReportEarlyEof(void)',
           label='mp::SOLReader2::ReportEarlyEof', nmatches=1),
        Fn(HPP, r'NLW2_SOLReadResultCode SOLReader2<SOLHandler>::ReportBadFormat\(\)', 'NLW2_SOLReadResultCode ReportBadFormat(void)',
           label='mp::SOLReader2::ReportBadFormat', nmatches=1),
        Fn(HPP, r'NLW2_SOLReadResultCode SOLReader2<SOLHandler>::\s*ReportBadLine\(const std::string& line\)',
           'NLW2_SOLReadResultCode ReportBadLine(const char *line)', subst=[(r'line\.c_str\(\)', 'line', 1)],
           label='mp::SOLReader2::ReportBadLine', nmatches=1),
    ]


def checkreader_fn(contract=True):
    c = ('__CPROVER_requires(__CPROVER_r_ok(rd, sizeof(VecReader)) && __CPROVER_w_ok(rr_p, sizeof(*rr_p)) && g_data_obj == rd->err_msg_) '
         '__CPROVER_ensures(__CPROVER_return_value == (rd->rr_ == NLW2_SOLRead_OK && rd->n_ == 0)) '
         '__CPROVER_ensures(!__CPROVER_return_value ==> *rr_p != NLW2_SOLRead_OK) '
         '__CPROVER_assigns(*rr_p, readresult_, g_serror_calls)')
    return Fn(H, r'bool CheckReader\(const Reader\s*&?\s*rd, NLW2_SOLReadResultCode\s*&?\s*rr\)',
              'bool CheckReader(const VecReader *rd, NLW2_SOLReadResultCode *rr_p)', contract=c if contract else '',
              subst=[(r'rd\.ReadResult\(\)', 'rd->rr_', 4), (r'rd\.Size\(\)', 'rd->n_', 1),
                     (r'rd\.ErrorMessage\(\)\.c_str\(\)', 'rd->err_msg_', 1), (r'rd\.ErrorMessage\(\)', 'rd->err_msg_', 1)],
              refs={'rr': 'rr_p'}, label='mp::SOLReader2::CheckReader', nmatches=1)


def h_checkreader():
    parts = [PRE, ENUM, VR, MEMBERS] + report_fns() + [checkreader_fn(), '''
void harness(void) { VP_INIT; VecReader vr; vr.n_ = nondet_int(); vr.rr_ = nondet_int(); vr.err_msg_ = vp_malloc(512); g_data_obj = vr.err_msg_;
  __CPROVER_assume(vr.rr_ >= -1 && vr.rr_ <= 7);
  NLW2_SOLReadResultCode rr = nondet_int();
  CheckReader(&vr, &rr); VP_REACH("normal return"); }
''']
    return Harness('C14.CheckReader', 'C14', parts, enforce='CheckReader', defines=['VP_CHECK_FMT'],
                   note='a reader with an error or unread values always yields a non-OK result')


HANDLER = '''
/* The handler "reads all, some or none of the offered values": abstract effect of any number of
   ReadNext calls (contract proved by C14.ReadNext.*) and of SetError. */
static void vp_consume(VecReader *r) {
  int k = nondet_int(); __CPROVER_assume(0 <= k && k <= r->n_);
  NLW2_SOLReadResultCode rr = nondet_int(); __CPROVER_assume(rr >= -1 && rr <= 7);
  r->n_ = k; r->rr_ = rr; if (rr != NLW2_SOLRead_OK) r->n_ = 0;
}
char g_errbuf[512];
static VecReader vp_VecReader(FILE *f, int b, int n) { VecReader r; r.f_ = f; r.binary_ = b; r.n_ = n; r.rr_ = NLW2_SOLRead_OK; r.err_msg_ = g_errbuf; return r; }
void vp_OnSuffix(VecReader *r, int is_real) {
  __CPROVER_assert(r->n_ >= 0, "suffix reader offers a non-negative number of values");
  vp_consume(r);
}
void vp_OnDualSolution(VecReader *r) {
  __CPROVER_assert(r->n_ >= 0 && r->n_ <= NumAlgCons(), "handler is never offered more dual values than the problem has constraints");
  vp_consume(r);
}
void vp_OnPrimalSolution(VecReader *r) {
  __CPROVER_assert(r->n_ >= 0 && r->n_ <= NumVars(), "handler is never offered more primal values than the problem has variables");
  vp_consume(r);
}
'''

SUFINFO = '''
/* SuffixInfo(kind, std::string(name), std::string(table)): both strings are scanned up to their first NUL;
   the block sized from the validated header ends in a zero byte that is never written, so the scans stay inside it */
void vp_SuffixInfo(SufRead *sr) {
  __CPROVER_assert(__CPROVER_same_object(sr->name, sr->xp_data) && __CPROVER_same_object(sr->table, sr->xp_data)
                   && __CPROVER_POINTER_OFFSET(sr->table) < sr->xp_size, "suffix name and table point into the suffix buffer");
  __CPROVER_assert(sr->xp_data == g_big && g_big_hi < sr->xp_size, "the zero byte at the end of the suffix buffer was never overwritten (name/table strings end inside it)");
}
'''

SUF_SUBST = [
    (r'SuffixInfo si\(SR\.h\.kind, SR\.name, SR\.table\);', 'vp_SuffixInfo(&SR);', 1),
    (r'SuffixReader<double> sr\(std::move\(si\), f, (\w+), SR\.h\.n\);', r'VecReader sr = vp_VecReader(f, \1, SR.h.n);', 1),
    (r'SuffixReader<int> sr\(std::move\(si\), f, (\w+), SR\.h\.n\);', r'VecReader sr = vp_VecReader(f, \1, SR.h.n);', 1),
    (r'Handler\(\)\.OnDblSuffix\(sr\);', 'vp_OnSuffix(&sr, 1);', 1),
    (r'Handler\(\)\.OnIntSuffix\(sr\);', 'vp_OnSuffix(&sr, 0);', 1),
    (r'CheckReader\(\s*sr, readresult_\s*\)', 'CheckReader(&sr, &readresult_)', 2),
]
SUF_POST = ('(__CPROVER_return_value == NLW2_SOLRead_OK || __CPROVER_return_value == NLW2_SOLRead_Bad_Suffix || '
            '__CPROVER_return_value == readresult_)')
CODES = ('(__CPROVER_return_value == NLW2_SOLRead_OK || __CPROVER_return_value == NLW2_SOLRead_Early_EOF || '
         '__CPROVER_return_value == NLW2_SOLRead_Bad_Format || __CPROVER_return_value == NLW2_SOLRead_Bad_Line || '
         '__CPROVER_return_value == NLW2_SOLRead_Bad_Suffix || __CPROVER_return_value == NLW2_SOLRead_Vector_Not_Finished || '
         '__CPROVER_return_value == NLW2_SOLRead_Bad_Options || __CPROVER_return_value == NLW2_SOLRead_Fail_Open || '
         '__CPROVER_return_value == NLW2_SOLRead_Result_Not_Set)')
XP_INV = ('__CPROVER_same_object(s, SR.xp_data) && __CPROVER_OBJECT_SIZE(SR.xp_data) == SR.xp_size && '
          '__CPROVER_POINTER_OFFSET(SR.xp_data) == 0 && '
          '__CPROVER_POINTER_OFFSET(s) >= (size_t)SR.h.namelen && __CPROVER_POINTER_OFFSET(s) < (size_t)SR.h.namelen + (size_t)SR.h.tablen && '
          'se == SR.xp_data + SR.h.namelen + SR.h.tablen && SR.xp_data == g_big && g_big_hi <= (size_t)SR.h.namelen + (size_t)SR.h.tablen && '
          'SR.xp_size == (size_t)SR.h.tablen + 2 * (size_t)SR.h.namelen + 6 && SR.h.namelen >= 2 && SR.h.tablen >= 1')


def gsufread_fn(contract=True):
    c = ('__CPROVER_requires(__CPROVER_r_ok(f, sizeof(FILE))) __CPROVER_ensures(' + CODES + ' && ' + SUF_POST + ') '
         '__CPROVER_assigns(readresult_, i, g_serror_calls, g_nul_ptr, g_big_hi, __CPROVER_object_whole(g_big))')
    return Fn(HPP, r'NLW2_SOLReadResultCode SOLReader2<SOLHandler>::gsufread\(FILE\* f\)', 'NLW2_SOLReadResultCode gsufread(FILE *f)',
              contract=c if contract else '',
              subst=SUF_SUBST + [(r'strcpy\(SR\.name, buf\)', 'vp_strcpy_big(SR.name, buf)', 1),
                                 (r'fgets\(s, ([^;]*?), f\)', r'vp_fgets_big(s, \1, f)', 1),      # the size expression is kept as written
                                 (r'memcpy\(s, buf, L\)', 'vp_memcpy_big(s, buf, L)', 1),
                                 (r'buf\[SR\.h\.namelen-1\] = 0;',
                                  'buf[SR.h.namelen-1] = 0; /* ghost */ g_nul_ptr = &buf[SR.h.namelen-1];', 1)],
              one_iteration=0,    # R21: outer `while (fgets(...))`: invariant true, first statement of the function
              loops={0: '__CPROVER_assigns(i, s, g_nul_ptr, g_big_hi, __CPROVER_object_whole(g_big)) '
                        '__CPROVER_loop_invariant(i >= 1 && ' + XP_INV + ') __CPROVER_decreases((long)SR.tablines - i)'},
              label='mp::SOLReader2::gsufread', nmatches=1)


def suffix_parts():
    return [PRE, ENUM, VR, MEMBERS] + structs() + report_fns() + [HANDLER, SUFINFO, checkreader_fn(False), LGET_DECL,
                                                                    sufheadcheck_fn(False)]


def h_gsufread():
    parts = suffix_parts() + [gsufread_fn(), '''
void harness(void) { VP_INIT; vp_mkpool(); FILE f; binary = 0; readresult_ = nondet_int(); i = nondet_int();
  g_nul_ptr = nondet_ptr(); g_big_hi = nondet_size_t();     /* arbitrary state at the loop head (R21) */
  gsufread(&f); VP_REACH("normal return"); }
''']
    return Harness('C14.gsufread', 'C14', parts, enforce='gsufread', loop_contracts=True, expect_loop_obligations=1,
                   replace=['Lget', 'vp_strlen'],
                   timeout=900,
                   stubs=['fgets', 'strlen', 'strcpy', 'memcpy', 'strncmp', 'SuffixInfo ctor (sink)', 'SOLHandler::OnIntSuffix/OnDblSuffix (reads all, some or none)'],
                   note='modular: Lget by its contract (proved by C14.Lget); strlen/strcpy by contract stubs')


def bsufread_fn(contract=True):
    c = ('__CPROVER_requires(__CPROVER_r_ok(f, sizeof(FILE))) __CPROVER_ensures(' + CODES + ' && ' + SUF_POST + ') '
         '__CPROVER_assigns(readresult_, i, g_serror_calls, g_big_hi, __CPROVER_object_whole(g_big))')
    return Fn(HPP, r'NLW2_SOLReadResultCode SOLReader2<SOLHandler>::bsufread\(FILE\* f\)', 'NLW2_SOLReadResultCode bsufread(FILE *f)',
              contract=c if contract else '',
              subst=SUF_SUBST + [(r'fread\(SR\.name, ', 'vp_fread_big(SR.name, ', 1), (r'fread\(SR\.table, ', 'vp_fread_big(SR.table, ', 1)],
              loops={0: '__CPROVER_assigns(L, L1, readresult_, i, g_serror_calls, g_big_hi, __CPROVER_object_whole(g_big)) __CPROVER_loop_invariant(1)'},
              label='mp::SOLReader2::bsufread', nmatches=1)


def h_bsufread():
    parts = suffix_parts() + [bsufread_fn(), '''
void harness(void) { VP_INIT; vp_mkpool(); FILE f; binary = 1; readresult_ = nondet_int();
  bsufread(&f); VP_REACH("normal return"); }
''']
    return Harness('C14.bsufread', 'C14', parts, enforce='bsufread', loop_contracts=True, expect_loop_obligations=1, timeout=600,
                   stubs=['fread', 'strncmp', 'SuffixInfo ctor (sink)', 'SOLHandler::OnIntSuffix/OnDblSuffix (reads all, some or none)'])



# ---------------------------------------------------------------------------------------------
# ReadSOLFile: the whole 330-line member function

RSF_MEMBERS = '''
/* further members of SOLReader2 */
char *b1, buf[512], *s, *se;
Long Objno[2]; Long nOpts, Options[14], *z;
uiolen L, L1, L2;
int bs, have_options, j, je, need_vbtol, nsv, objno, sstatus_seen;
double vbtol, x;
size_t n, n1, nbs, ui;
FILE g_file; int g_file_ok;
/* sinks */
void vp_msg_append(const char *p, size_t len) {
  __CPROVER_assert(len == 0 || __CPROVER_r_ok(p, len), "solve message bytes appended are inside the line buffer");
}
void vp_send_message(size_t nbs_) {}
void vp_options_assign(const Long *first, const Long *last) {
  __CPROVER_assert(__CPROVER_same_object(first, Options) && __CPROVER_same_object(last, Options) &&
                   __CPROVER_POINTER_OFFSET(last) <= sizeof(Options) && first <= last, "AMPL options handed over are inside Options[14]");
}
int vp_OnAMPLOptions(void) { return nondet_int(); }
void vp_OnObjno(int o) {}
void vp_OnSolveCode(int c) {}
'''

RSF_SUBST = [
    (r'File file;', '', 1),
    (r'stub_ = name\.c_str\(\);', 'stub_ = name;', 1),
    (r'file\.Open\(stub_, "rb"\);', 'g_file_ok = nondet_bool();', 1),
    (r'if \(!file\)', 'if (!g_file_ok)', 1),
    (r'FILE\* f = file\.GetHandle\(\);', 'FILE *f = &g_file;', 1),
    (r'solve_msg_\.append\(b1, n1\);', 'vp_msg_append(b1, n1);', 2),
    # R18 block stub: trimming of leading backspaces and hand-over of the message string (std::string iterators)
    (r'if \(nbs\) \{\s*auto b=solve_msg_\.begin\(\);.*?Handler\(\)\.OnSolveMessage\(\s*solve_msg_\.c_str\(\), nbs\);\s*\}',
     'vp_send_message(nbs);', 1),
    (r'typename SOLHandler::AMPLOptions ao;', '', 1),
    (r'ao\.options_\.assign\(Options, Options\+nOpts\+5\);', 'vp_options_assign(Options, Options+nOpts+5);', 1),
    (r'ao\.has_vbtol_ = need_vbtol;', '', 1),
    (r'ao\.vbtol_ = vbtol;', '', 1),
    (r'if \(auto rv = Handler\(\)\.OnAMPLOptions\(ao\)\)', 'int rv = vp_OnAMPLOptions(); if (rv)', 1),
    (r'VecReader<double> vr\(f, binary, (\w+)\);', r'VecReader vr = vp_VecReader(f, binary, \1);', 3),
    (r'Handler\(\)\.OnDualSolution\(vr\);', 'vp_OnDualSolution(&vr);', 1),
    (r'Handler\(\)\.OnPrimalSolution\(vr\);', 'vp_OnPrimalSolution(&vr);', 2),
    (r'CheckReader\(\s*vr, readresult_\s*\)', 'CheckReader(&vr, &readresult_)', 3),
    (r'Handler\(\)\.OnObjno\(objno\);', 'vp_OnObjno(objno);', 2),
    (r'Handler\(\)\.OnSolveCode\(Objno\[1\]\);', 'vp_OnSolveCode(Objno[1]);', 2),
]

BUFW = '__CPROVER_object_whole(buf)'
MSG_ASSIGNS = 'L, L1, n, n1, b1, bs, nbs, se, g_nul_ptr, ' + BUFW
RSF_LOOPS = {
    # binary solve message
    0: '__CPROVER_assigns(' + MSG_ASSIGNS + ', readresult_, g_serror_calls) __CPROVER_loop_invariant(1)',
    1: '__CPROVER_assigns(' + MSG_ASSIGNS + ') __CPROVER_loop_invariant(L != 0)',
    2: '__CPROVER_assigns(n) __CPROVER_loop_invariant(n <= sizeof(buf) && (n == 0 ==> buf[0] == \' \')) __CPROVER_decreases(n)',
    3: '__CPROVER_assigns(n1, b1) __CPROVER_loop_invariant(n1 >= 1 && n1 <= n && n <= sizeof(buf) && b1 == buf + (n - n1)) __CPROVER_decreases(n1)',
    # text solve message
    4: '__CPROVER_assigns(' + MSG_ASSIGNS + ', readresult_, g_serror_calls) __CPROVER_loop_invariant(1)',
    5: '__CPROVER_assigns(se, ' + BUFW + ') __CPROVER_loop_invariant(VP_NUL_AT_OR_AFTER(se) && __CPROVER_same_object(se, buf)) '
       '__CPROVER_decreases(__CPROVER_POINTER_OFFSET(g_nul_ptr) - __CPROVER_POINTER_OFFSET(se))',
    6: '__CPROVER_assigns(n1, b1) __CPROVER_loop_invariant(n1 >= 1 && n1 <= n && n <= sizeof(buf) && b1 == buf + (n - n1)) __CPROVER_decreases(n1)',
    7: '__CPROVER_assigns(j) __CPROVER_loop_invariant(1)',
    8: '__CPROVER_assigns(j, se, g_nul_ptr, ' + BUFW + ', __CPROVER_object_whole(Options)) __CPROVER_loop_invariant(0 <= j && j <= 4) __CPROVER_decreases(4 - j)',
    9: '__CPROVER_assigns(j, se, g_nul_ptr, ' + BUFW + ', __CPROVER_object_whole(Options)) __CPROVER_loop_invariant(4 <= j && j <= je && je <= 14) __CPROVER_decreases(je - j)',
    10: '__CPROVER_assigns(L) __CPROVER_loop_invariant(1)',
}
SUFREAD_DECL = '''
NLW2_SOLReadResultCode gsufread(FILE *f) __CPROVER_requires(__CPROVER_r_ok(f, sizeof(FILE))) __CPROVER_ensures(%s)
__CPROVER_assigns(readresult_, i, g_serror_calls, g_nul_ptr, g_big_hi, __CPROVER_object_whole(g_big));
NLW2_SOLReadResultCode bsufread(FILE *f) __CPROVER_requires(__CPROVER_r_ok(f, sizeof(FILE))) __CPROVER_ensures(%s)
__CPROVER_assigns(readresult_, i, g_serror_calls, g_big_hi, __CPROVER_object_whole(g_big));
''' % (CODES + ' && ' + SUF_POST, CODES + ' && ' + SUF_POST)


def readsolfile_fn():
    c = ('__CPROVER_requires(g_num_vars >= 0 && g_num_algebraic_cons >= 0 && __CPROVER_r_ok(name, 1)) __CPROVER_ensures(' + CODES + ') '
         '__CPROVER_assigns(stub_, internal_rv_, g_file_ok, L, L1, L2, binary, have_options, need_vbtol, bs, nbs, n, n1, b1, ' + BUFW + ', '
         's, se, j, je, nOpts, __CPROVER_object_whole(Options), z, vbtol, x, i, nsv, sstatus_seen, ui, __CPROVER_object_whole(Objno), objno, '
         'readresult_, g_serror_calls, g_nul_ptr, g_big_hi, __CPROVER_object_whole(g_big), __CPROVER_object_whole(g_errbuf))')
    return Fn(HPP, r'SOLReader2<SOLHandler>::ReadSOLFile\(\s*const std::string& name\)',
              'NLW2_SOLReadResultCode ReadSOLFile(const char *name)', contract=c, subst=RSF_SUBST, loops=RSF_LOOPS,
              label='mp::SOLReader2::ReadSOLFile', nmatches=1)


def h_readsolfile():
    parts = [PRE, ENUM, VR, MEMBERS, RSF_MEMBERS] + structs() + report_fns() + [HANDLER, checkreader_fn(False), SUFREAD_DECL,
                                                                                 readsolfile_fn(), '''
void harness(void) { VP_INIT; vp_mkpool();
  g_num_vars = nondet_int(); g_num_algebraic_cons = nondet_int();
  __CPROVER_assume(g_num_vars >= 0 && g_num_algebraic_cons >= 0);
  readresult_ = NLW2_SOLRead_Result_Not_Set; objno = -2; Objno[0] = -2; Objno[1] = -2;
  ReadSOLFile("x.sol"); VP_REACH("normal return"); }
''']
    return Harness('C14.ReadSOLFile', 'C14', parts, enforce='ReadSOLFile', replace=['gsufread', 'bsufread'], loop_contracts=True,
                   expect_loop_obligations=11, timeout=1800, object_bits=10,
                   stubs=['File::Open', 'std::string solve_msg_ (append / trim / hand-over)', 'SOLHandler::OnAMPLOptions/OnObjno/OnSolveCode',
                          'SOLHandler::OnDualSolution/OnPrimalSolution (assert the declared sizes, read all/some/none)',
                          'gsufread / bsufread (contracts proved by C14.gsufread / C14.bsufread)'],
                   note='whole function; vectors offered <= declared sizes are precondition checks of the handler stubs at the real call sites')


_drv = [None]


def replay(lead, inputs, obs):
    """Contract counterexamples start from arbitrary stdio results, not from a file: the native replay runs the real
    mp::ReadSOLFile under ASan/UBSan on the recorded hostile inputs in replay/inputs/*.sol with several declared sizes
    and handler behaviours."""
    import glob
    import os
    import subprocess
    from vp.run import BUILD, VERIF
    repo = os.environ.get('VP_REPO', '/repo')
    if _drv[0] is None:
        out = os.path.join(BUILD, 'replay', 'c14_replay')
        os.makedirs(os.path.dirname(out), exist_ok=True)
        cmd = ['g++', '-std=c++17', '-g', '-O0', '-w', '-DNDEBUG', '-fsanitize=address,undefined,float-cast-overflow', '-fno-sanitize-recover=all',
               '-I', repo + '/nl-writer2/include', '-I', repo + '/include', os.path.join(VERIF, 'replay', 'c14_replay.cc'),
               repo + '/nl-writer2/src/nl-utils.cc', '-o', out]
        p = subprocess.run(cmd, capture_output=True, text=True)
        if p.returncode != 0:
            return False, 'replay driver build failed: ' + p.stderr[-1500:], ' '.join(cmd)
        _drv[0] = out
    tried = set()
    for f in sorted(glob.glob(os.path.join(VERIF, 'replay', 'inputs', '*.sol'))):
        for nv, nc in ((0, 0), (3, 2), (2, 1)):
            for mode in ('all', 'some'):
                args = [_drv[0], f, str(nv), str(nc), mode]
                p = subprocess.run(args, capture_output=True, text=True, timeout=120)
                tried.add(os.path.basename(f))
                if p.returncode != 0:
                    return True, (p.stdout + p.stderr)[-2500:], ' '.join(args)
    return False, 'not reproduced by the recorded inputs %s' % sorted(tried), ''


def harnesses(tier, seed):
    hs = _harnesses(tier, seed)
    for h in hs:
        h.replay = replay
    return hs


def _harnesses(tier, seed):
    hs = [h_decstring(), h_lget()]
    hs += [h_read(k) for k in KINDS]
    hs += [h_readnext(k) for k in KINDS]
    hs += [h_sufheadcheck(), h_checkreader(), h_gsufread(), h_bsufread(), h_readsolfile()]
    return hs
