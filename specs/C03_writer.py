"""C03 (continued) - structure of what NLWriter2 writes: the segments of constraint / objective expressions and the defined-variable lines.

The `apr(nm, "<fmt>", args)` calls of the real functions are expanded mechanically (R22p, see specs/C03_header.py; segment letters inside a
format are tokens, '#' starts a comment) and checked by ghost acceptors that state what the NL READER does with those lines:

  * NLWriter2::DefVarWriterFactory::StartDefVar: the line is `V <index> <nnz> <position>` and <position> - which the reader hands to
    EndCommonExpr unchanged - is, for the group k the feeder API defines (k = 0 common, k = i+1 only in constraint i, algebraic then logical,
    k = -j-1 only in objective j): 0, i+1, and num_algebraic_cons + num_logical_cons + j + 1 (the NL format numbers objectives after ALL
    constraints).
  * NLWriter2::WriteConObjExpressions (three loops, loop contracts): exactly the segments C0..C(n-1), L0..L(m-1), O0..O(p-1) in this order,
    each `O` line with the objective's type, each expression fed right after its segment line, and before each segment the defined variables
    of exactly that item are requested (k = combined constraint index + 1, k = -(objective index) - 1).
Feeder callbacks are arbitrary (ghost events).  Dropped: the ExprArgWriter object passed to the feeder (specs/C03.py covers the formatters).
"""
import re

from vp import extract
from vp.extract import Fn
from vp.run import Harness
from specs import C02
from specs.C03_header import translate_printf, W2H

APR = r'\b(?:nlw_\.|this->)?apr\((?:nlw_\.|this->)?nm,'


def apr_sub(where, least):
    def f(m):
        body = m.group(0)
        if not body:
            return ''
        # apr(nm, fmt, ...): the File argument is part of the matched prefix
        body, n = translate_printf(body, {}, where, pattern=APR, skip=0, letters=True, libc=False)
        if n < least:
            raise extract.ExtractionError('%s: R22p translated %d apr calls, expected at least %d' % (where, n, least))
        return body
    return f


PRE = '''#include "mp_shim.h"
int vp_one;
NLHeader h_in;
#define VP_HDR_OK (h_in.num_algebraic_cons >= 0 && h_in.num_logical_cons >= 0 && h_in.num_objs >= 0 && \\
  (long)h_in.num_algebraic_cons + h_in.num_logical_cons + h_in.num_objs < INT_MAX)
/* one line of tokens at a time */
double g_lt[6]; int g_lc;
static void vp_tok(double v) { __CPROVER_assert(g_lc < 6, "at most six tokens on a line of these segments"); g_lt[g_lc++] = v; }
#define VP_TOK(e) vp_tok((double)(e))
'''


def h_startdefvar():
    parts = [PRE.replace('#include "mp_shim.h"\nint vp_one;\n', '#include "mp_shim.h"\nint vp_one;\n' + C02.header_struct() + C02.HDR_CONSTS), '''
int k_; int g_lines;
static void VP_EOL(void) { g_lines++; }
''',
             Fn(W2H, r'StartDefVar\(int index, int nnz, const char\* descr\)', 'void StartDefVar(int index, int nnz, const char *descr)',
                contract='__CPROVER_requires(VP_HDR_OK && k_ >= -h_in.num_objs && k_ <= h_in.num_algebraic_cons + h_in.num_logical_cons && g_lc == 0 && g_lines == 0) '
                         '__CPROVER_ensures(g_lines == 1 && g_lc == 4 && g_lt[0] == \'V\' && g_lt[1] == index && g_lt[2] == nnz) '
                         '__CPROVER_ensures(g_lt[3] == (k_ >= 0 ? k_ : h_in.num_algebraic_cons + h_in.num_logical_cons + (-k_ - 1) + 1)) '
                         '__CPROVER_assigns(g_lc, g_lines, __CPROVER_object_whole(g_lt))',
                subst=[(r'.*', apr_sub('StartDefVar', 1), -1), (r'nlw_\.Hdr\(\)\.', 'h_in.', -1), (r'return DefVarWriter\(nlw_, nnz\);', 'return;', 1)],
                label='mp::NLWriter2::DefVarWriterFactory::StartDefVar', nmatches=1), '''
void harness(void) { vp_one = 1; k_ = nondet_int(); g_lc = 0; g_lines = 0; { NLHeader a; h_in = a; }
  StartDefVar(nondet_int(), nondet_int(), (const char *)0); VP_REACH("normal return"); }
''']
    h = Harness('C03.writer.StartDefVar', 'C03', parts, enforce='StartDefVar', stubs=['TextFormatter/BinaryFormatter::apr (R22p: expanded into tokens; the formatters themselves: C03.apr.*)'])
    return h


def h_conobj():
    NA, NL, NO = 'h_in.num_algebraic_cons', 'h_in.num_logical_cons', 'h_in.num_objs'
    ghost = 'g_done, g_open, g_dvk, g_dvreq, g_lc, __CPROVER_object_whole(g_lt)'
    parts = [PRE.replace('#include "mp_shim.h"\nint vp_one;\n', '#include "mp_shim.h"\nint vp_one;\n' + C02.header_struct() + C02.HDR_CONSTS), '''
/* ghost acceptor: what the reader does with these lines */
int g_done;          /* items (constraints, then objectives) completely written */
_Bool g_open;        /* a segment line has been written and its expression not yet */
int g_dvk; _Bool g_dvreq;   /* the group of defined variables requested last, and whether one was requested since the last item */
int g_objtype;
static void WriteDefinedVariables(int k) { __CPROVER_assert(!g_open, "defined variables are requested between items, not inside one"); g_dvk = k; g_dvreq = 1; }
static int Feeder_ObjType(int i) { return g_objtype; }
static void VP_EOL(void) {
  long n = h_in.num_algebraic_cons, m = h_in.num_logical_cons;
  __CPROVER_assert(!g_open, "one segment line per expression");
  __CPROVER_assert(g_dvreq, "the defined variables of the item are requested before its segment line");
  if (g_done < n) {
    __CPROVER_assert(g_lc == 2 && g_lt[0] == 'C' && g_lt[1] == g_done, "algebraic constraint i is written as segment C<i>, in order");
    __CPROVER_assert(g_dvk == g_done + 1, "before constraint i the defined variables of group i+1 are requested");
  } else if (g_done < n + m) {
    __CPROVER_assert(g_lc == 2 && g_lt[0] == 'L' && g_lt[1] == g_done - n, "logical constraint i is written as segment L<i>, after all C segments");
    __CPROVER_assert(g_dvk == g_done + 1, "before logical constraint i the defined variables of group num_algebraic_cons+i+1 are requested");
  } else {
    __CPROVER_assert(g_done < n + m + h_in.num_objs, "no segment after the last objective");
    __CPROVER_assert(g_lc == 3 && g_lt[0] == 'O' && g_lt[1] == g_done - n - m && g_lt[2] == g_objtype, "objective j is written as segment O<j> <type>, after all constraints");
    __CPROVER_assert(g_dvk == -(g_done - n - m) - 1, "before objective j the defined variables of group -j-1 are requested");
  }
  g_lc = 0; g_open = 1; g_dvreq = 0;
}
static void vp_feed_expr(int i, _Bool obj) {
  long n = h_in.num_algebraic_cons, m = h_in.num_logical_cons;
  __CPROVER_assert(g_open, "the expression follows its segment line");
  __CPROVER_assert(obj ? (g_done >= n + m && i == g_done - n - m) : (g_done < n + m && i == g_done), "the expression fed is the one of the segment just opened");
  g_open = 0; g_done++;
}
''',
             Fn(W2H, r'void NLWriter2<Params>::WriteConObjExpressions\(\)', 'void WriteConObjExpressions(void)',
                contract='__CPROVER_requires(VP_HDR_OK && g_done == 0 && !g_open && !g_dvreq && g_lc == 0) '
                         '__CPROVER_ensures(g_done == %s + %s + %s && !g_open) __CPROVER_assigns(%s)' % (NA, NL, NO, ghost),
                subst=[(r'.*', apr_sub('WriteConObjExpressions', 3), -1), (r'\bHdr\(\)\.', 'h_in.', -1),
                       (r'ExprArgWriter ew\(\*this, 1\);', '', 3),
                       (r'Feeder\(\)\.FeedConExpression\(i, ew\);', 'vp_feed_expr(i, 0);', 2), (r'Feeder\(\)\.FeedObjExpression\(i, ew\);', 'vp_feed_expr(i, 1);', 1),
                       (r'Feeder\(\)\.ConDescription\(i\)', '(const char *)0', 2), (r'Feeder\(\)\.ObjDescription\(i\)', '(const char *)0', 1),
                       (r'Feeder\(\)\.ObjType\(i\)', 'Feeder_ObjType(i)', 1)],
                loops={0: '__CPROVER_assigns(i, %s) __CPROVER_loop_invariant(0 <= i && i <= %s && g_done == i && !g_open && !g_dvreq && g_lc == 0) __CPROVER_decreases(%s - i)' % (ghost, NA, NA),
                       1: '__CPROVER_assigns(i, %s) __CPROVER_loop_invariant(%s <= i && i <= %s + %s && g_done == i && !g_open && !g_dvreq && g_lc == 0) __CPROVER_decreases(%s + %s - i)' % (ghost, NA, NA, NL, NA, NL),
                       2: '__CPROVER_assigns(i, %s) __CPROVER_loop_invariant(0 <= i && i <= %s && g_done == %s + %s + i && !g_open && !g_dvreq && g_lc == 0) __CPROVER_decreases(%s - i)' % (ghost, NO, NA, NL, NO)},
                label='mp::NLWriter2::WriteConObjExpressions', nmatches=1), '''
void harness(void) { vp_one = 1; { NLHeader a; h_in = a; } g_done = 0; g_open = 0; g_dvreq = 0; g_lc = 0; g_objtype = nondet_int();
  WriteConObjExpressions(); VP_REACH("normal return"); }
''']
    return Harness('C03.writer.ConObjExpressions', 'C03', parts, enforce='WriteConObjExpressions', loop_contracts=True, expect_loop_obligations=3,
                   stubs=['apr (R22p tokens)', 'feeder callbacks (ghost events)', 'WriteDefinedVariables (ghost event; its lines: C03.writer.StartDefVar)'])


NLR = 'include/mp/nl-reader.h'


def h_bounds_roundtrip(con):
    """NLWriter2::WriteBndRangeOrCompl -> tokens -> the real NLReader::ReadBounds (one item): the handler receives the bounds that were given
    to the writer, where the writer's own infinity convention applies (a bound <= -DBL_MAX / >= DBL_MAX is written as absent and read as
    -inf / +inf), and for a complementarity entry the flags and the variable index that were given."""
    from specs.C02_header import STREAM
    from specs.C02_items import HANDLE2
    parts = ['#include "mp_shim.h"\n#include <math.h>\n#include <float.h>\nint vp_one;\n' + C02.header_struct() + C02.HDR_CONSTS,
             STREAM.replace('NLHeader h_in;', 'NLHeader h_in; struct { int num_vars; } header_;'), '''
#define reader_ReportError(...) VP_THROW(ReadError)
static double Infty(void) { return DBL_MAX; }          /* NLWriter2::Infty() (checked below against the source) */
static double NegInfty(void) { return -Infty(); }
double g_L, g_U; int g_k, g_cvar; int g_seen;
static char reader_ReadChar(void) { __CPROVER_assert(vp_more(), "the reader finds the bound type"); return (char)g_tok[g_rd++]; }
static double reader_ReadDouble(void) { __CPROVER_assert(vp_more(), "the reader finds the bound it expects on this line"); return g_tok[g_rd++]; }
static int reader_ReadInt_int(void) { __CPROVER_assert(vp_more(), "the reader finds the complementarity flags"); return (int)g_tok[g_rd++]; }
static int reader_ReadUInt(void) { __CPROVER_assert(vp_more(), "the reader finds the variable number"); double v = g_tok[g_rd++]; __CPROVER_assert(v >= 0 && v <= INT_MAX, "a variable number written by the writer is a non-negative int"); return (int)v; }
static void reader_ReadTillEndOfLine(void) { ReadTillEndOfLine(); }
enum { VAR = 0, CON = 1 };
#define BoundHandler_TYPE %s
enum { ComplInfo_INF_UB = 1, ComplInfo_INF_LB = 2 };   /* mp::ComplInfo (common.h) */
static int bh_num_items(void) { return 1; }
static void bh_SetBounds(int index, double lb, double ub) {
  __CPROVER_assert(index == 0 && g_k <= 0, "one pair of bounds for the item that was written as bounds");
  __CPROVER_assert(lb == (g_L <= -DBL_MAX ? -INFINITY : g_L), "the lower bound is read back as written (below -DBL_MAX: none)");
  __CPROVER_assert(ub == (g_U >= DBL_MAX ? INFINITY : g_U), "the upper bound is read back as written (above DBL_MAX: none)");
  g_seen++; }
static void handler_OnComplementarity(int con_index, int var_index, int info) {
  __CPROVER_assert(con_index == 0 && g_k > 0, "a complementarity entry for the item that was written as one");
  __CPROVER_assert(var_index == g_cvar, "the complementing variable is read back as written");
  __CPROVER_assert(info == (g_k & 3), "the bound flags of the complementing variable are read back as written");
  g_seen++; }
''' % ('CON' if con else 'VAR'),
             Fn(W2H, r'void NLWriter2<Params>::WriteBndRangeOrCompl\(\s*File& nm,\s*double L, double U, int k, int cvar\)', 'void WriteBndRangeOrCompl(double L, double U, int k, int cvar)',
                subst=[(r'.*', apr_sub('WriteBndRangeOrCompl', 3), -1)], label='mp::NLWriter2::WriteBndRangeOrCompl', nmatches=1),
             Fn(NLR, r'void NLReader<Reader, Handler>::ReadBounds\(\)', 'void ReadBounds(void)',
                subst=[(r'BoundHandler bh\(\*this\);', '', 1), (r'\bbh\.', 'bh_', -1), (r'BoundHandler::TYPE', 'BoundHandler_TYPE', 1),
                       (r'ComplInfo\(flags & mask\)', '(flags & mask)', 1)] + HANDLE2,
                label='mp::internal::NLReader::ReadBounds<BoundHandler>', inst='BoundHandler::TYPE=%s' % ('CON' if con else 'VAR'), nmatches=1), '''
void harness(void) { vp_one = 1;
  g_L = nondet_double(); g_U = nondet_double(); g_k = nondet_int(); g_cvar = nondet_int(); header_.num_vars = nondet_int(); g_seen = 0;
  __CPROVER_assume(g_L == g_L && g_U == g_U);
  __CPROVER_assume(g_k <= 0 || (BoundHandler_TYPE == CON && g_cvar >= 0 && g_cvar < header_.num_vars));   /* complementarity: constraints only, with a variable of the model */
  g_nt = 0; g_wline = 0; VP_EOL();                          /* the segment line (b / r) has been written */
  WriteBndRangeOrCompl(g_L, g_U, g_k, g_cvar);              /* writer: one item */
  g_rd = 0; g_rline = 0;
  ReadBounds();                                             /* reader: one item */
  __CPROVER_assert(g_seen == 1 && g_rd == g_nt, "the item was delivered once and every number written was consumed");
  VP_REACH("end");
}
''']
    return Harness('C03.writer.bounds.roundtrip.%s' % ('con' if con else 'var'), 'C03', parts, plain=True, flags=['--unwind', '3'], timeout=900,
                   stubs=['apr (R22p tokens; %g / %.16g = g_fmt shortest round-trip form, C03.g_fmt)', 'leaf readers over the token stream (C02.text.* / C02.binary.*)'],
                   note='one item: the reader loop runs once (unwinding 3 is complete for num_items = 1)')


def infty_check():
    src = extract.blank_comments(extract.read_repo(W2H))
    if not re.search(r'double NLWriter2<Params>::Infty\(\) const \{\s*return std::numeric_limits<double>::max\(\);', src):
        raise extract.ExtractionError('NLWriter2::Infty() is no longer numeric_limits<double>::max(): the bounds round trip states it as DBL_MAX')


W2 = 'nl-writer2/include/mp/nl-writer2.h'

LINE_PRE = '''#include "mp_shim.h"
int vp_one;
#define assert(x) __CPROVER_assert(x, "assert(" #x ") of the source holds")
/* what was written: tokens of the current line, number of completed lines, tokens of the first line when there are two */
double g_lt[8]; int g_lc; int g_lines; double g_l1[8]; int g_l1c; const char *g_str;
static void vp_tok(double v) { __CPROVER_assert(g_lc < 8, "at most eight tokens on one of these lines"); g_lt[g_lc++] = v; }
#define VP_TOK(e) vp_tok((double)(e))
#define VP_STR(e) (g_str = (e), vp_tok(-1.0))
static void VP_EOL(void) { if (g_lines == 0) { for (int k = 0; k < 8; ++k) g_l1[k] = g_lt[k]; g_l1c = g_lc; g_lc = 0; } g_lines++; }
#define LINE1(n) (g_lines >= 1 && g_l1c == (n))
'''
GHOST = 'g_lc, g_lines, g_l1c, g_str, __CPROVER_object_whole(g_lt), __CPROVER_object_whole(g_l1)'


def h_line(name, file, anchor, proto, requires, ensures, subst=(), decl='', call='', label=None, ordinal=0, extra_assigns='', pre_subst=()):
    """one writer function that writes one (or two) lines through apr: its tokens against what the NL reader expects on that line"""
    fname = re.match(r'\w[\w \*]*?(\w+)\(', proto).group(1)
    parts = [LINE_PRE, decl,
             Fn(file, anchor, proto, ordinal=ordinal,
                contract='__CPROVER_requires(g_lc == 0 && g_lines == 0 && (%s)) __CPROVER_ensures(%s) __CPROVER_assigns(%s%s)' % (requires, ensures, GHOST, extra_assigns),
                subst=list(pre_subst) + [(r'.*', apr_sub(name, 1), -1), (r'\bnlw_\.', '', -1)] + list(subst), label=label or ('mp::NLWriter2::' + name), nmatches=None),
             'void harness(void) { vp_one = 1; g_lc = 0; g_lines = 0; %s; VP_REACH("normal return"); }\n' % call]
    return Harness('C03.writer.line.' + name, 'C03', parts, enforce=fname, stubs=['apr (R22p tokens)'])


def line_harnesses():
    T = lambda *toks: 'LINE1(%d) && ' % len(toks) + ' && '.join('g_l1[%d] == %s' % (i, t) for i, t in enumerate(toks))
    RET = [(r'return ExprArgWriter\([^;]*\);', 'return;', 1)]
    hs = []
    hs.append(h_line('ExprWriter.VPut', W2H, r'void NLWriter2<Params>::ExprWriter::VPut\(\s*int v, const char\* descr\)', 'void VPut(int v, const char *descr)',
                     '1', 'g_lines == 1 && ' + T("'v'", 'v'), call='VPut(nondet_int(), (const char *)0)'))
    hs.append(h_line('ExprWriter.FuncPut', W2H, r'NLWriter2<Params>::ExprWriter::FuncPut\(\s*int index, int nArgs, const char\* descr\)', 'void FuncPut(int index, int nArgs, const char *descr)',
                     '1', 'g_lines == 1 && ' + T("'f'", 'index', 'nArgs'), subst=RET, call='FuncPut(nondet_int(), nondet_int(), (const char *)0)'))
    for k in (1, 2, 3):
        hs.append(h_line('ExprWriter.OPut%d' % k, W2H, r'NLWriter2<Params>::ExprWriter::OPut%d\(\s*int opcode, const char\* descr\)' % k, 'void OPut%d(int opcode, const char *descr)' % k,
                         '1', 'g_lines == 1 && ' + T("'o'", 'opcode'), subst=RET, call='OPut%d(nondet_int(), (const char *)0)' % k))
    # variable arity: the count line carries the number of arguments the reader will read (for a piecewise-linear term, opcode 64: the number of slopes = half)
    hs.append(h_line('ExprWriter.OPutN', W2H, r'NLWriter2<Params>::ExprWriter::OPutN\(\s*int opcode, int nArgs, const char\* descr\)', 'void OPutN(int opcode, int nArgs, const char *descr)',
                     'nArgs >= 0 && (opcode != 64 || nArgs % 2 == 0)',
                     'g_lines == 2 && ' + T("'o'", 'opcode') + ' && g_lc == 1 && g_lt[0] == (opcode == 64 ? nArgs / 2 : nArgs)', subst=RET, call='OPutN(nondet_int(), nondet_int(), (const char *)0)'))
    hs.append(h_line('WriteSparseEntry.int', W2H, r'WriteSparseEntry\(File& nm, int i, int v\)', 'void WriteSparseEntry_int(int i, int v)', '1', 'g_lines == 1 && ' + T('i', 'v'),
                     call='WriteSparseEntry_int(nondet_int(), nondet_int())'))
    hs.append(h_line('WriteSparseEntry.double', W2H, r'WriteSparseEntry\(File& nm, int i, double x\)', 'void WriteSparseEntry_double(int i, double x)', 'x == x', 'g_lines == 1 && ' + T('i', 'x'),
                     call='WriteSparseEntry_double(nondet_int(), nondet_double())'))
    for nm_, flt in (('StartIntSuffix', 0), ('StartDblSuffix', 1)):
        hs.append(h_line('SuffixWriterFactory.' + nm_, W2H, r'NLWriter2<Params>::SuffixWriterFactory::%s\(\s*const char\* name, int kind, int nnz\)' % nm_, 'void %s(const char *name, int kind, int nnz)' % nm_,
                         'nnz >= 0 && kind >= 0 && kind <= 7 && ((kind & 4) != 0) == %d' % flt,
                         '(nnz == 0 ? g_lines == 0 : (g_lines == 1 && ' + T("'S'", 'kind', 'nnz', '-1.0') + ' && g_str == name))',
                         subst=[(r'return Suffix(?:Int|Dbl)Writer\([^;]*\);', 'return;', 1)], call='%s((const char *)0, nondet_int(), nondet_int())' % nm_))
    # column sizes: cumulative (k) writes the running sum, plain (K) the size itself
    hs.append(h_line('ColSizeWriter.Write', W2, r'void Write\(int s\) \{\s*switch\(kind_\)', 'void ColSize_Write(int s)',
                     's >= 0 && (kind_ == 1 || kind_ == 2) && sum_ <= ((size_t)1 << 40) && nWrt_ >= 0 && nWrt_ < 1000000 && g_sum0 == sum_ && g_n0 == nWrt_',
                     'g_lines == 1 && LINE1(1) && g_l1[0] == (kind_ == 1 ? (double)(g_sum0 + (size_t)s) : (double)s) && sum_ == (kind_ == 1 ? g_sum0 + (size_t)s : g_sum0) && nWrt_ == g_n0 + 1',
                     decl='int kind_, nWrt_, g_n0; size_t sum_, g_sum0;\n', call='kind_ = nondet_int(); nWrt_ = nondet_int(); sum_ = nondet_size_t(); g_sum0 = sum_; g_n0 = nWrt_; ColSize_Write(nondet_int())',
                     label='mp::NLWriter2::ColSizeWriter::Write', extra_assigns=', sum_, nWrt_'))
    # k / K segment line: the reader insists on num_vars - 1 sizes
    IFDEF = [(r'#ifdef NL_LIB2_ORIG_HDR[^\n]*\n[\s\S]*?#else[^\n]*\n([\s\S]*?)#endif[^\n]*\n', r'\1', 1)]     # the branch compiled by default
    hs.append(h_line('WriteColumnSizes', W2H, r'void NLWriter2<Params>::WriteColumnSizes\(\)', 'void WriteColumnSizes(void)',
                     'g_nv >= 1 && g_nrand == 0 && !g_fed',
                     '(g_want == 0 ? (g_lines == 0 && !g_fed) : (g_lines == 1 && g_fed && LINE1(2) && g_l1[0] == (g_want == 1 ? \'k\' : \'K\') && g_l1[1] == g_nv - 1))',
                     pre_subst=IFDEF,
                     subst=[(r'Feeder\(\)\.WantColumnSizes\(\)', 'g_want', 1), (r'ColSizeWriter csw\(\*this, (\d)\);', r'int csw_kind = \1;', 2),
                            (r'Feeder\(\)\.FeedColumnSizes\(csw\);', 'vp_feed_colsizes(csw_kind);', 2), (r'csw\.GetNWritten\(\)', 'g_nwritten', 2),
                            (r'Hdr\(\)\.num_vars', 'g_nv', -1), (r'Hdr\(\)\.num_rand_vars', 'g_nrand', -1)],
                     decl='int g_want, g_nv, g_nrand, g_nwritten; _Bool g_fed;\n'
                          '/* the feeder writes exactly num_vars - 1 sizes through a ColSizeWriter of the announced kind (C03.writer.line.ColSizeWriter.Write) */\n'
                          'static void vp_feed_colsizes(int kind) { __CPROVER_assert(g_lines == 1, "the segment line precedes the sizes"); '
                          '__CPROVER_assert(kind == g_want, "the size writer works in the mode that was announced (k: cumulative, K: plain)"); g_nwritten = g_nv + g_nrand - 1; g_fed = 1; }\n',
                     call='g_want = nondet_int(); __CPROVER_assume(g_want >= 0 && g_want <= 2); g_nv = nondet_int(); g_nrand = 0; g_fed = 0; WriteColumnSizes()',
                     extra_assigns=', g_nwritten, g_fed'))
    return hs


def h_vec_headers(fn, letter, count, feed):
    """WriteLinearConExpr / WriteObjGradients: one sparse vector per constraint / objective, in order, each announced by `J<i> <nnz>` /
    `G<i> <nnz>` with the number of entries the feeder then writes.  The header printer is the lambda of the source (its body is kept, R22p);
    dropped: SingleSparseVecWrtFactory::MakeVectorWriter's dispatch to that printer (the feeder's call is a ghost event)."""
    parts = [PRE.replace('#include "mp_shim.h"\nint vp_one;\n', '#include "mp_shim.h"\nint vp_one;\n' + C02.header_struct() + C02.HDR_CONSTS), '''
int g_next; int g_nnz;
static int vp_nnz(int i) { g_nnz = nondet_int(); __CPROVER_assume(g_nnz >= 0); return g_nnz; }     /* the feeder chooses the number of entries */
static void VP_EOL(void) {
  __CPROVER_assert(g_lc == 3 && g_lt[0] == '%s' && g_lt[1] == g_next && g_lt[2] == g_nnz, "vector i is announced as %s<i> <number of entries>, in order");
  g_lc = 0; g_next++; }
''' % (letter, letter),
             Fn(W2H, r'void NLWriter2<Params>::%s\(\)' % fn, 'void %s(void)' % fn,
                contract='__CPROVER_requires(h_in.%s >= 0 && g_next == 0 && g_lc == 0) __CPROVER_ensures(g_next == h_in.%s) __CPROVER_assigns(g_next, g_nnz, g_lc, __CPROVER_object_whole(g_lt))' % (count, count),
                subst=[(r'SingleSparseDblVecWrtFactory\s+vwf\(\*this,\s*\[i, this\]\(int nnz\)\{\s*([\s\S]*?)\}\);\s*Feeder\(\)\.%s\(i, vwf\);' % feed, r'{ int nnz = vp_nnz(i); \1 }', 1),
                       (r'.*', apr_sub(fn, 1), -1), (r'\bHdr\(\)\.', 'h_in.', -1)],
                loops={0: '__CPROVER_assigns(i, g_next, g_nnz, g_lc, __CPROVER_object_whole(g_lt)) __CPROVER_loop_invariant(0 <= i && i <= h_in.%s && g_next == i && g_lc == 0) __CPROVER_decreases(h_in.%s - i)' % (count, count)},
                label='mp::NLWriter2::' + fn, nmatches=1),
             'void harness(void) { vp_one = 1; { NLHeader a; h_in = a; } g_next = 0; g_lc = 0; %s(); VP_REACH("normal return"); }\n' % fn]
    return Harness('C03.writer.' + fn, 'C03', parts, enforce=fn, loop_contracts=True, expect_loop_obligations=1, stubs=['apr (R22p tokens)', 'feeder (ghost: chooses the number of entries)'])


def replay_mode(mode):
    def r(lead, inputs, obs):
        return replay_defvar(lead, inputs, obs, mode)
    return r


def replay_defvar(lead, inputs, obs, mode='defvar'):
    import os
    import subprocess
    from specs.C03_header import replay_header
    from vp.run import BUILD
    ok, out, cmd = replay_header(lead, inputs, obs)     # builds the driver
    drv = os.path.join(BUILD, 'replay', 'c03_header_replay')
    if not os.path.exists(drv) or out.startswith('replay driver build failed'):
        return False, out, cmd
    p = subprocess.run([drv, mode], capture_output=True, text=True, timeout=300)
    return p.returncode == 10, (p.stdout + p.stderr)[-2000:], drv + ' ' + mode


def harnesses():
    a, b = h_startdefvar(), h_conobj()
    a.replay = replay_defvar
    b.replay = replay_defvar
    infty_check()
    rest = [h_bounds_roundtrip(False), h_bounds_roundtrip(True)] + line_harnesses() + [h_vec_headers('WriteLinearConExpr', 'J', 'num_algebraic_cons', 'FeedLinearConExpr'), h_vec_headers('WriteObjGradients', 'G', 'num_objs', 'FeedObjGradient')]
    for h in rest:
        h.replay = replay_mode('linear')
    return [a, b] + rest
