"""C03 (continued) - structure of what NLWriter2 writes: the segments of constraint / objective expressions and the defined-variable lines.

The `apr(nm, "<fmt>", args)` calls of the real functions are expanded mechanically (R22p, see specs/C03_header.py; segment letters inside a
format are tokens, '#' starts a comment) and checked by ghost acceptors that state what the NL READER does with those lines:

  * NLWriter2::DefVarWriterFactory::StartDefVar: the line is `V <index> <nnz> <position>` and <position> - which the reader hands to
    EndCommonExpr unchanged - is, for the group k the feeder API defines (k = 0 common, k = i+1 only in constraint i, algebraic then logical,
    k = -j-1 only in objective j): 0, i+1, and num_algebraic_cons + num_logical_cons + j + 1 (the NL format numbers objectives after ALL
    constraints).
  * NLWriter2::WriteConObjExpressions (three loops, loop contracts): exactly the segments C0..C(n-1), L0..L(m-1), O0..O(p-1) in this order,
    each `O` line with the objective's type, each expression fed right after its segment line, and before each segment the defined variables
    of exactly that item are requested (k = combined constraint index + 1, k = -(objective index) - 1).
Feeder callbacks are arbitrary (ghost events).  Dropped: the ExprArgWriter object passed to the feeder (specs/C03.py covers the formatters).
"""
import re

from vp import extract
from vp.extract import Fn
from vp.run import Harness
from specs import C02
from specs.C03_header import translate_printf, W2H

APR = r'\b(?:nlw_\.)?apr\((?:nlw_\.)?nm,'


def apr_sub(where, least):
    def f(m):
        body = m.group(0)
        if not body:
            return ''
        # apr(nm, fmt, ...): the File argument is part of the matched prefix
        body, n = translate_printf(body, {}, where, pattern=APR, skip=0, letters=True)
        if n < least:
            raise extract.ExtractionError('%s: R22p translated %d apr calls, expected at least %d' % (where, n, least))
        return body
    return f


PRE = '''#include "mp_shim.h"
int vp_one;
NLHeader h_in;
#define VP_HDR_OK (h_in.num_algebraic_cons >= 0 && h_in.num_logical_cons >= 0 && h_in.num_objs >= 0 && \\
  (long)h_in.num_algebraic_cons + h_in.num_logical_cons + h_in.num_objs < INT_MAX)
/* one line of tokens at a time */
double g_lt[6]; int g_lc;
static void vp_tok(double v) { __CPROVER_assert(g_lc < 6, "at most six tokens on a line of these segments"); g_lt[g_lc++] = v; }
#define VP_TOK(e) vp_tok((double)(e))
'''


def h_startdefvar():
    parts = [PRE.replace('#include "mp_shim.h"\nint vp_one;\n', '#include "mp_shim.h"\nint vp_one;\n' + C02.header_struct() + C02.HDR_CONSTS), '''
int k_; int g_lines;
static void VP_EOL(void) { g_lines++; }
''',
             Fn(W2H, r'StartDefVar\(int index, int nnz, const char\* descr\)', 'void StartDefVar(int index, int nnz, const char *descr)',
                contract='__CPROVER_requires(VP_HDR_OK && k_ >= -h_in.num_objs && k_ <= h_in.num_algebraic_cons + h_in.num_logical_cons && g_lc == 0 && g_lines == 0) '
                         '__CPROVER_ensures(g_lines == 1 && g_lc == 4 && g_lt[0] == \'V\' && g_lt[1] == index && g_lt[2] == nnz) '
                         '__CPROVER_ensures(g_lt[3] == (k_ >= 0 ? k_ : h_in.num_algebraic_cons + h_in.num_logical_cons + (-k_ - 1) + 1)) '
                         '__CPROVER_assigns(g_lc, g_lines, __CPROVER_object_whole(g_lt))',
                subst=[(r'.*', apr_sub('StartDefVar', 1), -1), (r'nlw_\.Hdr\(\)\.', 'h_in.', -1), (r'return DefVarWriter\(nlw_, nnz\);', 'return;', 1)],
                label='mp::NLWriter2::DefVarWriterFactory::StartDefVar', nmatches=1), '''
void harness(void) { vp_one = 1; k_ = nondet_int(); g_lc = 0; g_lines = 0; { NLHeader a; h_in = a; }
  StartDefVar(nondet_int(), nondet_int(), (const char *)0); VP_REACH("normal return"); }
''']
    h = Harness('C03.writer.StartDefVar', 'C03', parts, enforce='StartDefVar', stubs=['TextFormatter/BinaryFormatter::apr (R22p: expanded into tokens; the formatters themselves: C03.apr.*)'])
    return h


def h_conobj():
    NA, NL, NO = 'h_in.num_algebraic_cons', 'h_in.num_logical_cons', 'h_in.num_objs'
    ghost = 'g_done, g_open, g_dvk, g_dvreq, g_lc, __CPROVER_object_whole(g_lt)'
    parts = [PRE.replace('#include "mp_shim.h"\nint vp_one;\n', '#include "mp_shim.h"\nint vp_one;\n' + C02.header_struct() + C02.HDR_CONSTS), '''
/* ghost acceptor: what the reader does with these lines */
int g_done;          /* items (constraints, then objectives) completely written */
_Bool g_open;        /* a segment line has been written and its expression not yet */
int g_dvk; _Bool g_dvreq;   /* the group of defined variables requested last, and whether one was requested since the last item */
int g_objtype;
static void WriteDefinedVariables(int k) { __CPROVER_assert(!g_open, "defined variables are requested between items, not inside one"); g_dvk = k; g_dvreq = 1; }
static int Feeder_ObjType(int i) { return g_objtype; }
static void VP_EOL(void) {
  long n = h_in.num_algebraic_cons, m = h_in.num_logical_cons;
  __CPROVER_assert(!g_open, "one segment line per expression");
  __CPROVER_assert(g_dvreq, "the defined variables of the item are requested before its segment line");
  if (g_done < n) {
    __CPROVER_assert(g_lc == 2 && g_lt[0] == 'C' && g_lt[1] == g_done, "algebraic constraint i is written as segment C<i>, in order");
    __CPROVER_assert(g_dvk == g_done + 1, "before constraint i the defined variables of group i+1 are requested");
  } else if (g_done < n + m) {
    __CPROVER_assert(g_lc == 2 && g_lt[0] == 'L' && g_lt[1] == g_done - n, "logical constraint i is written as segment L<i>, after all C segments");
    __CPROVER_assert(g_dvk == g_done + 1, "before logical constraint i the defined variables of group num_algebraic_cons+i+1 are requested");
  } else {
    __CPROVER_assert(g_done < n + m + h_in.num_objs, "no segment after the last objective");
    __CPROVER_assert(g_lc == 3 && g_lt[0] == 'O' && g_lt[1] == g_done - n - m && g_lt[2] == g_objtype, "objective j is written as segment O<j> <type>, after all constraints");
    __CPROVER_assert(g_dvk == -(g_done - n - m) - 1, "before objective j the defined variables of group -j-1 are requested");
  }
  g_lc = 0; g_open = 1; g_dvreq = 0;
}
static void vp_feed_expr(int i, _Bool obj) {
  long n = h_in.num_algebraic_cons, m = h_in.num_logical_cons;
  __CPROVER_assert(g_open, "the expression follows its segment line");
  __CPROVER_assert(obj ? (g_done >= n + m && i == g_done - n - m) : (g_done < n + m && i == g_done), "the expression fed is the one of the segment just opened");
  g_open = 0; g_done++;
}
''',
             Fn(W2H, r'void NLWriter2<Params>::WriteConObjExpressions\(\)', 'void WriteConObjExpressions(void)',
                contract='__CPROVER_requires(VP_HDR_OK && g_done == 0 && !g_open && !g_dvreq && g_lc == 0) '
                         '__CPROVER_ensures(g_done == %s + %s + %s && !g_open) __CPROVER_assigns(%s)' % (NA, NL, NO, ghost),
                subst=[(r'.*', apr_sub('WriteConObjExpressions', 3), -1), (r'\bHdr\(\)\.', 'h_in.', -1),
                       (r'ExprArgWriter ew\(\*this, 1\);', '', 3),
                       (r'Feeder\(\)\.FeedConExpression\(i, ew\);', 'vp_feed_expr(i, 0);', 2), (r'Feeder\(\)\.FeedObjExpression\(i, ew\);', 'vp_feed_expr(i, 1);', 1),
                       (r'Feeder\(\)\.ConDescription\(i\)', '(const char *)0', 2), (r'Feeder\(\)\.ObjDescription\(i\)', '(const char *)0', 1),
                       (r'Feeder\(\)\.ObjType\(i\)', 'Feeder_ObjType(i)', 1)],
                loops={0: '__CPROVER_assigns(i, %s) __CPROVER_loop_invariant(0 <= i && i <= %s && g_done == i && !g_open && !g_dvreq && g_lc == 0) __CPROVER_decreases(%s - i)' % (ghost, NA, NA),
                       1: '__CPROVER_assigns(i, %s) __CPROVER_loop_invariant(%s <= i && i <= %s + %s && g_done == i && !g_open && !g_dvreq && g_lc == 0) __CPROVER_decreases(%s + %s - i)' % (ghost, NA, NA, NL, NA, NL),
                       2: '__CPROVER_assigns(i, %s) __CPROVER_loop_invariant(0 <= i && i <= %s && g_done == %s + %s + i && !g_open && !g_dvreq && g_lc == 0) __CPROVER_decreases(%s - i)' % (ghost, NO, NA, NL, NO)},
                label='mp::NLWriter2::WriteConObjExpressions', nmatches=1), '''
void harness(void) { vp_one = 1; { NLHeader a; h_in = a; } g_done = 0; g_open = 0; g_dvreq = 0; g_lc = 0; g_objtype = nondet_int();
  WriteConObjExpressions(); VP_REACH("normal return"); }
''']
    return Harness('C03.writer.ConObjExpressions', 'C03', parts, enforce='WriteConObjExpressions', loop_contracts=True, expect_loop_obligations=3,
                   stubs=['apr (R22p tokens)', 'feeder callbacks (ghost events)', 'WriteDefinedVariables (ghost event; its lines: C03.writer.StartDefVar)'])


def replay_defvar(lead, inputs, obs):
    import os
    import subprocess
    from specs.C03_header import replay_header
    from vp.run import BUILD
    ok, out, cmd = replay_header(lead, inputs, obs)     # builds the driver
    drv = os.path.join(BUILD, 'replay', 'c03_header_replay')
    if not os.path.exists(drv):
        return False, out, cmd
    p = subprocess.run([drv, 'defvar'], capture_output=True, text=True, timeout=300)
    return p.returncode == 10, (p.stdout + p.stderr)[-2000:], drv + ' defvar'


def harnesses():
    a, b = h_startdefvar(), h_conobj()
    a.replay = replay_defvar
    b.replay = replay_defvar
    return [a, b]
