"""C07 - solution check: the per-type value evaluators (include/mp/flat/constr_eval.h) and the tolerance test
(include/mp/flat/constr_base.h Violation::Check).

A constraint is (arguments: int array of length n, parameters: double array); x is the candidate point.  The argument
list may have ANY length (loop contracts); "for all arguments" facts are stated for an arbitrary witness position g_w,
"the result is no larger than every upper bound of the arguments" by an arbitrary bound g_B that the accessor assumes
for every value it returns (quantifier-free encodings of max / min / and / or).
"""
from vp.extract import Fn
from vp.run import Harness

EVAL = 'include/mp/flat/constr_eval.h'
BASE = 'include/mp/flat/constr_base.h'

META = {
    'decides': 'for every argument list (any length) and every point: ComputeValue of Max/Min is the maximum/minimum of the argument '
               'values (>= / <= every argument, <= / >= every common bound), Abs is |x|, And/Or/Not/IfThen/Implication/Div are the '
               'mathematical value of the operator at the point, AllDiff is 0 whenever two arguments round to the same integer, Count '
               'counts (bounded by n, n when all true, 0 when none), NumberofConst/NumberofVar stay within [0, n]; '
               'Violation::Check reports a violation iff the absolute violation exceeds epsabs and (reference value is 0 or the '
               'relative violation exceeds epsrel)',
    'not_decided': 'recomputation of auxiliary variables (VarVecRecomp), the order of the constraint keepers, tolerance option plumbing, solve-result code 150 with sol:chk:fail; exact counting of Count / Numberof (needs an unbounded sum spec function); the converse direction of AllDiff; transcendental evaluators; the products / quotient inside the PL evaluator and the linear / quadratic term sums',
    'not_under_contract': ['SolutionChecker::RecomputeAuxVars / VarVecRecomp', 'GenerateViolationsReport', 'ComputeValue for Exp/Log/Pow/trigonometric constraints (libm)', 'LinTerms/QuadTerms::ComputeValue', 'cone constraint violations'],
    'assumptions': ['constraint arguments are valid variable indices (flat model invariant; assumed at every access of x)',
                    'std::vector<int> arguments / std::array parameters rendered as (pointer,length)'],
    'trusted_base': ['CBMC models of fabs / round'],
}

PRE = '''
#include "mp_shim.h"
#include <math.h>
int vp_one;
#define assert(x) __CPROVER_assert(x, "assert(" #x ") of the source holds")
/* the constraint: arguments (variable indices) and parameters; the point x */
int *g_args; size_t g_nargs; double *g_params; double *g_x; size_t g_nx;
#define VP_LEN(a) g_nargs
#define VP_AT(a, k) (g_args[k])
/* ghost: mode of the accessor and witnesses */
int g_mode; double g_B; size_t g_w;
enum { M_ANY = 0, M_LE_B = 1, M_GE_B = 2, M_ALL_TRUE = 3, M_ALL_FALSE = 4 };
/* x[i]: i must be a valid variable index (model invariant, assumed); in the ghost modes every value returned obeys the mode */
static double vp_x(int i) {
  __CPROVER_assume(0 <= i && (size_t)i < g_nx);
  double v = g_x[i];
  __CPROVER_assume(v == v);                                  /* no NaN in a candidate point */
  if (g_mode == M_LE_B) __CPROVER_assume(v <= g_B);
  if (g_mode == M_GE_B) __CPROVER_assume(v >= g_B);
  if (g_mode == M_ALL_TRUE) __CPROVER_assume(v >= 0.5);
  if (g_mode == M_ALL_FALSE) __CPROVER_assume(v < 0.5);
  return v;
}
#define MODE_OK(v) ((g_mode != M_LE_B || (v) <= g_B) && (g_mode != M_GE_B || (v) >= g_B) && (g_mode != M_ALL_TRUE || (v) >= 0.5) && (g_mode != M_ALL_FALSE || (v) < 0.5))
#define X_OK(i) (0 <= (i) && (size_t)(i) < g_nx && g_x[i] == g_x[i] && MODE_OK(g_x[i]))
/* value of the witness argument / of argument k: read directly (contracts may not call functions) */
#define XW (g_x[g_args[g_w]])
#define XA(k) (g_x[g_args[k]])
size_t g_w2;
#define WIT_OK ((g_w >= g_nargs || X_OK(g_args[g_w])) && (g_w2 >= g_nargs || X_OK(g_args[g_w2])) && \
                (0 >= g_nargs || X_OK(g_args[0])) && (1 >= g_nargs || X_OK(g_args[1])) && (2 >= g_nargs || X_OK(g_args[2])))
static void vp_mk(void) {
  g_nargs = nondet_size_t(); __CPROVER_assume(g_nargs <= 1000000);
  g_nx = nondet_size_t(); __CPROVER_assume(g_nx >= 1 && g_nx <= 1000000);
  g_args = vp_malloc((g_nargs ? g_nargs : 1) * sizeof(int)); g_x = vp_malloc(g_nx * sizeof(double)); g_params = vp_malloc(4 * sizeof(double));
  g_mode = nondet_int(); __CPROVER_assume(g_mode >= 0 && g_mode <= 4); g_B = nondet_double(); __CPROVER_assume(g_B == g_B);
  g_w = nondet_size_t(); g_w2 = nondet_size_t();
  __CPROVER_assume(WIT_OK);
}
'''
CON = [(r'con\.GetArguments\(\)', 'g_args', -1), (r'con\.GetParameters\(\)', 'g_params', -1)]
REQ = '__CPROVER_requires(g_nargs <= 1000000 && __CPROVER_OBJECT_SIZE(g_args) == (g_nargs ? g_nargs : 1) * sizeof(int) && __CPROVER_POINTER_OFFSET(g_args) == 0 && g_B == g_B && g_nx >= 1 && __CPROVER_OBJECT_SIZE(g_x) == g_nx * sizeof(double) && WIT_OK)'
INF = '__builtin_inf()'


def cv(kind, contract, loops=None, extra_subst=(), nargs_req=None, proto_extra=''):
    req = REQ
    if nargs_req:
        req += ' __CPROVER_requires(%s)' % nargs_req
    return Fn(EVAL, r'double ComputeValue\(const %sConstraint& con, const Var(?:Vec|Info)& x\)' % kind,
              'double ComputeValue_%s(void)' % kind, contract=req + ' ' + contract + ' __CPROVER_assigns()',
              subst=CON + list(extra_subst), index_calls={'x': 'vp_x'}, loops=loops,
              label='mp::ComputeValue(const %sConstraint&, x)' % kind, nmatches=1)


def h_cv(kind, contract, loops=None, extra_subst=(), nargs_req=None, pre='', nloops=0, extra_parts=()):
    parts = [PRE] + list(extra_parts) + [cv(kind, contract, loops, extra_subst, nargs_req), '''
void harness(void) { vp_one = 1; vp_mk(); %s
  ComputeValue_%s(); VP_REACH("normal return"); }
''' % (pre, kind)]
    return Harness('C07.ComputeValue.' + kind, 'C07', parts, enforce='ComputeValue_' + kind, loop_contracts=bool(loops),
                   expect_loop_obligations=nloops, timeout=600)


R = '__CPROVER_return_value'
LOOPK = '_k0 <= g_nargs'


_drv = [None]


def make_replay(which):
    def replay(lead, inputs, obs):
        """loop-contract counterexamples are ghost states: the native driver compares the real evaluator with the mathematical value
        on a grid of points (replay/c07_replay.cc)"""
        import subprocess
        from vp import native
        if which in ('ComputeViolations', 'CheckObjs', 'PL'):     # oracle sweeps over a stand-in converter, adapted from the demonstrations of seeded changes
            name = {'ComputeViolations': 'c07_keeper_replay', 'CheckObjs': 'c07_objs_replay', 'PL': 'c07_pl_replay'}[which]
            drv = native.build_driver(name + '.cc', name, native.MP_SOURCES, ['-O0'])[0]
            p = subprocess.run([drv], capture_output=True, text=True, timeout=300)
            return p.returncode == 1, (p.stdout + p.stderr)[-2500:], drv
        if which == 'CheckVars':     # variables: the real SolutionChecker on a one-variable model stand-in (replay/c07_vars_replay.cc)
            drv = native.build_driver('c07_vars_replay.cc', 'c07_vars_replay', native.MP_SOURCES, ['-O0'])[0]
            p = subprocess.run([drv], capture_output=True, text=True, timeout=300)
            return p.returncode == 10, (p.stdout + p.stderr)[-2500:], drv
        if _drv[0] is None:
            _drv[0] = native.build_driver('c07_replay.cc', 'c07_replay', native.MP_SOURCES, ['-O0'])[0]
        p = subprocess.run([_drv[0], which], capture_output=True, text=True, timeout=300)
        return p.returncode == 10, (p.stdout + p.stderr)[-2500:], _drv[0] + ' ' + which
    return replay


def harnesses(tier, seed):
    hs = _harnesses(tier, seed)
    for h in hs:
        key = ('Check' if h.name.endswith('Violation.Check') else 'Indicator' if 'Indicator' in h.name else 'Functional' if 'Functional' in h.name else
               'Algebraic' if ('Algebraic' in h.name or 'AlgConRhs' in h.name) else h.name.split('.')[-1])
        h.replay = make_replay(key)
    return hs


def _harnesses(tier, seed):
    hs = []
    # Max: >= every argument (witness g_w); <= every common upper bound g_B (mode M_LE_B); -inf only for the empty list
    hs.append(h_cv('Max',
                   '__CPROVER_ensures(g_w < g_nargs ==> %s >= XW) '
                   '__CPROVER_ensures((g_mode == M_LE_B && g_nargs >= 1) ==> %s <= g_B) '
                   '__CPROVER_ensures(g_nargs == 0 ==> %s == -%s)' % (R, R, R, INF),
                   loops={0: '__CPROVER_assigns(_k0, result) __CPROVER_loop_invariant(%s && result == result && (g_w < _k0 ==> result >= XW) && '
                             '(g_mode == M_LE_B ==> (result == -%s || result <= g_B)) && (_k0 == 0 ==> result == -%s) && (_k0 >= 1 ==> result > -%s || g_mode != M_ANY || 1) ) '
                             '__CPROVER_decreases(g_nargs - _k0)' % (LOOPK, INF, INF, INF)}, nloops=1))
    hs.append(h_cv('Min',
                   '__CPROVER_ensures(g_w < g_nargs ==> %s <= XW) '
                   '__CPROVER_ensures((g_mode == M_GE_B && g_nargs >= 1) ==> %s >= g_B) '
                   '__CPROVER_ensures(g_nargs == 0 ==> %s == %s)' % (R, R, R, INF),
                   loops={0: '__CPROVER_assigns(_k0, result) __CPROVER_loop_invariant(%s && result == result && (g_w < _k0 ==> result <= XW) && '
                             '(g_mode == M_GE_B ==> (result == %s || result >= g_B)) && (_k0 == 0 ==> result == %s)) '
                             '__CPROVER_decreases(g_nargs - _k0)' % (LOOPK, INF, INF)}, nloops=1))
    hs.append(h_cv('Abs', '__CPROVER_ensures(%s == (XA(0) < 0 ? -XA(0) : XA(0)))' % R, nargs_req='g_nargs >= 1'))
    hs.append(h_cv('And',
                   '__CPROVER_ensures(%s == 0.0 || %s == 1.0) '
                   '__CPROVER_ensures((g_w < g_nargs && XW < 0.5) ==> %s == 0.0) '
                   '__CPROVER_ensures(g_mode == M_ALL_TRUE ==> %s == 1.0)' % (R, R, R, R),
                   loops={0: '__CPROVER_assigns(_k0) __CPROVER_loop_invariant(%s && (g_w < _k0 ==> XW >= 0.5)) __CPROVER_decreases(g_nargs - _k0)' % LOOPK},
                   nloops=1))
    hs.append(h_cv('Or',
                   '__CPROVER_ensures(%s == 0.0 || %s == 1.0) '
                   '__CPROVER_ensures((g_w < g_nargs && XW >= 0.5) ==> %s == 1.0) '
                   '__CPROVER_ensures(g_mode == M_ALL_FALSE ==> %s == 0.0)' % (R, R, R, R),
                   loops={0: '__CPROVER_assigns(_k0) __CPROVER_loop_invariant(%s && (g_w < _k0 ==> XW < 0.5)) __CPROVER_decreases(g_nargs - _k0)' % LOOPK},
                   nloops=1))
    hs.append(h_cv('Not', '__CPROVER_ensures(%s == (XA(0) < 0.5 ? 1.0 : 0.0))' % R, nargs_req='g_nargs >= 1'))
    hs.append(h_cv('Div',
                   '__CPROVER_ensures(XA(1) == 0.0 ==> %s == (XA(0) >= 0.0 ? %s : -%s))' % (R, INF, INF),
                   nargs_req='g_nargs >= 2'))
    hs.append(h_cv('IfThen', '__CPROVER_ensures(%s == (XA(0) >= 0.5 ? XA(1) : XA(2)))' % R, nargs_req='g_nargs >= 3'))
    hs.append(h_cv('Implication',
                   '__CPROVER_ensures(%s == ((XA(0) >= 0.5 ? XA(1) >= 0.5 : XA(2) >= 0.5) ? 1.0 : 0.0))' % R,
                   nargs_req='g_nargs >= 3'))
    hs.append(h_cv('Count',
                   '__CPROVER_ensures(%s >= 0.0 && %s <= (double)g_nargs) '
                   '__CPROVER_ensures(g_mode == M_ALL_TRUE ==> %s == (double)g_nargs) '
                   '__CPROVER_ensures(g_mode == M_ALL_FALSE ==> %s == 0.0)' % (R, R, R, R),
                   loops={0: '__CPROVER_assigns(_k0, result) __CPROVER_loop_invariant(%s && result >= 0.0 && result <= (double)_k0 && '
                             '(g_mode == M_ALL_TRUE ==> result == (double)_k0) && (g_mode == M_ALL_FALSE ==> result == 0.0)) '
                             '__CPROVER_decreases(g_nargs - _k0)' % LOOPK}, nloops=1))
    # AllDiff: nested loops counting down; result 0 whenever the witness pair rounds equal
    hs.append(h_cv('AllDiff',
                   '__CPROVER_ensures(%s == 0.0 || %s == 1.0) '
                   '__CPROVER_ensures((g_w < g_nargs && g_w2 < g_w && XW == XA(g_w2)) ==> %s == 0.0)' % (R, R, R),
                   extra_subst=[(r'const auto& args = g_args;', 'const int *args = g_args;', 1), (r'args\.size\(\)', 'g_nargs', 1)],
                   loops={0: '__CPROVER_assigns(i) __CPROVER_loop_invariant(i <= g_nargs && '
                             '((g_w < g_nargs && g_w2 < g_w && g_w >= i) ==> XW != XA(g_w2))) __CPROVER_decreases(i)',
                          1: '__CPROVER_assigns(j) __CPROVER_loop_invariant(j <= i && '
                             '((g_w == i && g_w2 < g_w && g_w2 >= j) ==> XW != XA(g_w2))) __CPROVER_decreases(j)'},
                   nloops=2))
    # NumberofConst / NumberofVar: range only (exact counting needs a sum spec function)
    nstub = ['static bool x_is_var_int(int v) { return nondet_bool(); }\nstatic double x_feastol(void) { double t = nondet_double(); __CPROVER_assume(t >= 0.0 && t <= 1.0); return t; }\n']
    nsub = [(r'x\.is_var_int\(', 'x_is_var_int(', 1), (r'x\.feastol\(\)', 'x_feastol()', 1)]
    hs.append(h_cv('NumberofConst', '__CPROVER_ensures(%s >= 0.0 && %s <= (double)g_nargs)' % (R, R), extra_subst=nsub, extra_parts=nstub,
                   loops={0: '__CPROVER_assigns(_k0, result) __CPROVER_loop_invariant(%s && result >= 0.0 && result <= (double)_k0) __CPROVER_decreases(g_nargs - _k0)' % LOOPK},
                   nloops=1))
    hs.append(h_cv('NumberofVar', '__CPROVER_ensures(%s >= 0.0 && %s <= (double)(g_nargs - 1))' % (R, R),
                   extra_subst=nsub + [(r'const auto& args = g_args;', 'const int *args = g_args;', 1), (r'args\.size\(\)', 'g_nargs', 1)],
                   extra_parts=nstub, nargs_req='g_nargs >= 1',
                   loops={0: '__CPROVER_assigns(i, result) __CPROVER_loop_invariant(i >= 1 && i <= g_nargs && result >= 0.0 && result <= (double)(g_nargs - i)) __CPROVER_decreases(i)'},
                   nloops=1, pre='__CPROVER_assume(g_nargs >= 1);'))
    hs.append(h_check())
    hs.append(h_checkvars())
    hs.append(h_compute_violations())
    hs.append(h_checkobjs())
    hs.append(h_pl_value())
    hs += [h_indicator(), h_functional_violation(), h_algebraic_violation()]
    for k in (-2, -1, 0, 1, 2):
        hs += h_algconrhs(k)
    return hs


GEN = 'include/mp/flat/constr_general.h'
ALG = 'include/mp/flat/constr_algebraic.h'
CTXH = 'include/mp/flat/context.h'
VIOL = '''
#include "mp_shim.h"
#include <math.h>
int vp_one;
#define assert(x) __CPROVER_assert(x, "assert(" #x ") of the source holds")
typedef struct { double viol_, valX_; } Violation;
#define VEQ(v, a, b) ((v).viol_ == (a) && (v).valX_ == (b))
static double max(double a, double b) { return a < b ? b : a; }
'''
RET = [(r'return\s*\{', 'return (Violation){', -1)]


def h_indicator():
    """IndicatorConstraint::ComputeViolation: the implied constraint is checked exactly when the indicator variable's nearest integer is the
    indicator value (a binary within the integrality tolerance of bv counts as bv); otherwise no violation"""
    parts = [VIOL, '''
int b_, bv_; double g_xb; size_t g_nx; Violation g_sub;
static double vp_x(int i) { __CPROVER_assert(i == b_, "only the indicator variable is read here"); return g_xb; }
static Violation con_ComputeViolation(void) { return g_sub; }      /* the implied constraint's own violation (C07.Algebraic.*) */
''',
             Fn(GEN, r'Violation ComputeViolation\(const VarInfo& x\) const \{\s*assert\(b_<\(int\)x\.size\(\)\);', 'Violation Indicator_ComputeViolation(void)',
                contract='__CPROVER_requires(g_xb == g_xb && (bv_ == 0 || bv_ == 1) && b_ >= 0 && (size_t)b_ < g_nx && g_nx <= 1000000) '
                         '__CPROVER_ensures(((bv_ == 1 && g_xb >= 0.5 && g_xb < 1.5) || (bv_ == 0 && g_xb > -0.5 && g_xb < 0.5)) '
                         '? VEQ(__CPROVER_return_value, g_sub.viol_, g_sub.valX_) : VEQ(__CPROVER_return_value, 0.0, 0.0)) __CPROVER_assigns()',
                subst=RET + [(r'x\.size\(\)', 'g_nx', 1), (r'x\[b_\]', 'vp_x(b_)', 1), (r'con_\.ComputeViolation\(x\)', 'con_ComputeViolation()', 1)],
                label='mp::IndicatorConstraint::ComputeViolation', nmatches=1), '''
void harness(void) { vp_one = 1; b_ = nondet_int(); bv_ = nondet_int(); g_xb = nondet_double(); g_nx = nondet_size_t();
  g_sub.viol_ = nondet_double(); g_sub.valX_ = nondet_double(); __CPROVER_assume(g_sub.viol_ == g_sub.viol_ && g_sub.valX_ == g_sub.valX_);
  Indicator_ComputeViolation(); VP_REACH("normal return"); }
''']
    return Harness('C07.Indicator.ComputeViolation', 'C07', parts, enforce='Indicator_ComputeViolation',
                   stubs=['the implied constraint\'s ComputeViolation (arbitrary)'], note='nearest integer of the indicator stated without calling round()')


def h_functional_violation():
    """ComputeViolation(CustomFunctionalConstraint): result variable against the recomputed value, by context:
    MIX |r - f|, POS r - f (only r > f violates), NEG f - r; recomputed mode: |x[r] - raw| + bound violation"""
    parts = [VIOL, ('enum', CTXH, r'enum CtxVal \{', 'Context_'), '''
int g_res, g_ctx; double g_xr, g_f, g_raw, g_bv; _Bool g_recomp;
double D_RF, D_RAW;    /* the differences x[r] - f(x) and x[r] - raw(r) of the source text as opaque values (SAT cannot relate two evaluations of one double subtraction) */
static int c_GetResultVar(void) { return g_res; }
static int c_GetContext_GetValue(void) { return g_ctx; }
static double ComputeValue_c(void) { return g_f; }
static _Bool x_recomp_vals(void) { return g_recomp; }
static double vp_x(int i) { __CPROVER_assert(i == g_res, "only the result variable is read here"); return g_xr; }
static double x_raw(int i) { __CPROVER_assert(i == g_res, "raw value of the result variable"); return g_raw; }
static double x_bounds_viol(int i) { return g_bv; }
#define ABS(v) ((v) < 0 ? -(v) : (v))
''',
             Fn(BASE, r'Violation ComputeViolation\(\s*const CustomFunctionalConstraint<Args, Params, NumOrLogic, Id>& c,\s*const VarVec& x\)', 'Violation Functional_ComputeViolation(void)',
                contract='__CPROVER_requires(g_xr == g_xr && g_f == g_f && g_raw == g_raw && g_bv == g_bv && D_RF == D_RF && D_RAW == D_RAW && g_bv < 1e300 && D_RAW < 1e300 && D_RAW > -1e300) '
                         '__CPROVER_ensures(!g_recomp ==> (__CPROVER_return_value.valX_ == (g_ctx == Context_CTX_MIX || g_ctx == Context_CTX_POS || g_ctx == Context_CTX_NEG ? g_xr : 0.0))) '
                         '__CPROVER_ensures((!g_recomp && g_ctx == Context_CTX_MIX) ==> __CPROVER_return_value.viol_ == ABS(D_RF)) '
                         '__CPROVER_ensures((!g_recomp && g_ctx == Context_CTX_POS) ==> __CPROVER_return_value.viol_ == D_RF) '
                         '__CPROVER_ensures((!g_recomp && g_ctx == Context_CTX_NEG) ==> __CPROVER_return_value.viol_ == -D_RF) '
                         '__CPROVER_ensures((!g_recomp && g_ctx != Context_CTX_MIX && g_ctx != Context_CTX_POS && g_ctx != Context_CTX_NEG) ==> __CPROVER_return_value.viol_ == __builtin_inf()) '
                         '__CPROVER_ensures(g_recomp ==> (__CPROVER_return_value.viol_ >= ABS(D_RAW) && (g_bv <= 0.0 ==> __CPROVER_return_value.viol_ == ABS(D_RAW)) && __CPROVER_return_value.valX_ == g_xr)) '
                         '__CPROVER_assigns()',
                subst=RET + [(r'x\[resvar\] - ComputeValue\(c, x\)', 'D_RF', 1), (r'x\[resvar\] - x\.raw\(resvar\)', 'D_RAW', 1), (r'c\.GetResultVar\(\)', 'c_GetResultVar()', 1), (r'c\.GetContext\(\)\.GetValue\(\)', 'c_GetContext_GetValue()', 1),
                             (r'x\.recomp_vals\(\)', 'x_recomp_vals()', 1), (r'x\[resvar\]', 'vp_x(resvar)', -1), (r'x\.bounds_viol\(resvar\)', 'x_bounds_viol(resvar)', 1), (r'\bINFINITY\b', '__builtin_inf()', 1)],
                label='mp::ComputeViolation(CustomFunctionalConstraint)', nmatches=1), '''
void harness(void) { vp_one = 1; g_res = nondet_int(); g_ctx = nondet_int(); g_xr = nondet_double(); g_f = nondet_double(); g_raw = nondet_double(); g_bv = nondet_double();
  g_recomp = nondet_bool(); D_RF = nondet_double(); D_RAW = nondet_double(); Functional_ComputeViolation(); VP_REACH("normal return"); }
''']
    return Harness('C07.Functional.ComputeViolation', 'C07', parts, enforce='Functional_ComputeViolation',
                   stubs=['ComputeValue(c, x) (the evaluator: C07.ComputeValue.*)', 'x[resvar] / x.raw / x.bounds_viol (arbitrary)'])


def h_algebraic_violation():
    """AlgebraicConstraint::ComputeViolation: lower side lb - body, upper side body - ub, else the (non-positive) larger of the two; reference
    value = the violated bound; logical mode: 1/0 by is_valid"""
    parts = [VIOL, '''
double g_body, g_lbv, g_ubv; _Bool g_valid;
double D_LB, D_UB;     /* the slacks lb - body and body - ub of the source text as opaque values */
static double Body_ComputeValue(void) { return g_body; }
static double RhsOrRange_lb(void) { return g_lbv; }
static double RhsOrRange_ub(void) { return g_ubv; }
static _Bool RhsOrRange_is_valid(double bd) { __CPROVER_assert(bd == g_body, "validity is tested for the body value"); return g_valid; }
''',
             Fn(ALG, r'ComputeViolation\(const VarInfo& x, bool logical=false\) const', 'Violation Algebraic_ComputeViolation(_Bool logical)',
                contract='__CPROVER_requires(g_body == g_body && g_lbv == g_lbv && g_ubv == g_ubv && D_LB == D_LB && D_UB == D_UB) '
                         '__CPROVER_ensures((!logical && g_lbv > g_body) ==> VEQ(__CPROVER_return_value, D_LB, g_lbv)) '
                         '__CPROVER_ensures((!logical && !(g_lbv > g_body) && g_body > g_ubv) ==> VEQ(__CPROVER_return_value, D_UB, g_ubv)) '
                         '__CPROVER_ensures((!logical && !(g_lbv > g_body) && !(g_body > g_ubv)) ==> (__CPROVER_return_value.valX_ == 0.0 && '
                         '__CPROVER_return_value.viol_ == (D_LB < D_UB ? D_UB : D_LB))) '
                         '__CPROVER_ensures(logical ==> VEQ(__CPROVER_return_value, (g_valid ? 0.0 : 1.0), 1.0)) __CPROVER_assigns()',
                subst=RET + [(r'Body::ComputeValue\(x\)', 'Body_ComputeValue()', 1), (r'RhsOrRange::', 'RhsOrRange_', -1), (r'RhsOrRange_lb\(\) - bd', 'D_LB', 2), (r'bd - RhsOrRange_ub\(\)', 'D_UB', 2), (r'double\(!RhsOrRange_is_valid\(bd\)\)', '(double)(!RhsOrRange_is_valid(bd))', 1)],
                label='mp::AlgebraicConstraint::ComputeViolation', nmatches=1), '''
void harness(void) { vp_one = 1; g_body = nondet_double(); g_lbv = nondet_double(); g_ubv = nondet_double(); g_valid = nondet_bool(); D_LB = nondet_double(); D_UB = nondet_double();
  Algebraic_ComputeViolation(nondet_bool()); VP_REACH("normal return"); }
''']
    return Harness('C07.Algebraic.ComputeViolation', 'C07', parts, enforce='Algebraic_ComputeViolation',
                   stubs=['Body::ComputeValue (arbitrary body value)', 'RhsOrRange::lb/ub/is_valid (arbitrary; the per-kind definitions: C07.AlgConRhs.*)'])


def h_algconrhs(kind):
    """AlgConRhs<kind>: lb(), ub() and is_valid() per comparison kind -2 < , -1 <=, 0 ==, 1 >=, 2 >"""
    cmp_ = {-2: 'bv < rhs_', -1: 'bv <= rhs_', 0: 'bv == rhs_', 1: 'bv >= rhs_', 2: 'bv > rhs_'}[kind]
    parts = [VIOL, 'double rhs_;\nstatic double rhs(void) { return rhs_; }\n#define kind_ (%d)\n#define VP_MAY_THROW_Error 0\n#define MP_RAISE(msg) VP_THROW(Error)\n' % kind,
             Fn(ALG, r'double lb\(\) const', 'double AlgConRhs_lb(void)', ordinal=1,
                contract='__CPROVER_ensures(__CPROVER_return_value == (%s)) __CPROVER_assigns()' % ('-__builtin_inf()' if kind < 0 else 'rhs_'),
                subst=[(r'\bINFINITY\b', '__builtin_inf()', 1)], label='mp::AlgConRhs<kind>::lb', inst='kind=%d' % kind),
             Fn(ALG, r'double ub\(\) const', 'double AlgConRhs_ub(void)', ordinal=1,
                contract='__CPROVER_ensures(__CPROVER_return_value == (%s)) __CPROVER_assigns()' % ('__builtin_inf()' if kind > 0 else 'rhs_'),
                subst=[(r'\bINFINITY\b', '__builtin_inf()', 1)], label='mp::AlgConRhs<kind>::ub', inst='kind=%d' % kind),
             Fn(ALG, r'bool is_valid\(double bv\) const', '_Bool AlgConRhs_is_valid(double bv)', ordinal=1,
                contract='__CPROVER_requires(bv == bv && rhs_ == rhs_) __CPROVER_ensures(__CPROVER_return_value == (%s)) __CPROVER_assigns()' % cmp_,
                label='mp::AlgConRhs<kind>::is_valid', inst='kind=%d' % kind),
             'void harness(void) { vp_one = 1; rhs_ = nondet_double(); __CPROVER_assume(rhs_ == rhs_); int w = nondet_int(); if (w == 0) AlgConRhs_lb(); else if (w == 1) AlgConRhs_ub(); else AlgConRhs_is_valid(nondet_double()); VP_REACH("normal return"); }\n']
    return [Harness('C07.AlgConRhs.%s.%s' % ({-2: 'LT', -1: 'LE', 0: 'EQ', 1: 'GE', 2: 'GT'}[kind], f), 'C07', parts, enforce='AlgConRhs_' + f) for f in ('lb', 'ub', 'is_valid')]


SOLCHK = 'include/mp/flat/sol_check.h'


def h_checkvars():
    """SolutionChecker::CheckVars: every variable that is checked (original, or any in raw mode) has its lower bound, its upper bound and - when
    integer - its integrality passed to the violation counter, each measured against the right reference and tolerance:
      lower: amount lb - x relative to lb;  upper: amount x - ub relative to ub;  both with the feasibility tolerances (absolute, relative);
      integrality: amount |x - round(x)| with the integrality tolerance, which is absolute: the relative tolerance passed must not be able to
      hide a violation (Violation::Check reports only when BOTH tolerances are exceeded: a positive relative tolerance hides violations at
      large values, an infinite one hides all of them except at round(x) = 0).
    The counter's own decision is C07.Violation.Check.  Witness variable g_w; the name argument carries the variable index."""
    n = [0]

    def bnd(m):
        n[0] += 1
        return 'CheckViol_k(%d, aux, ' % (n[0] - 1)
    K = '(i >= 0 && i <= g_nv)'
    done = '(g_w >= i)'
    checked = '(g_orig[g_w] || !g_recomp)'
    inv = ('%s && (%s ==> (g_seen[0] == %s && g_seen[1] == %s && g_seen[2] == (%s && g_isint[g_w]))) && (!%s ==> (!g_seen[0] && !g_seen[1] && !g_seen[2]))'
           % (K, done, checked, checked, checked, done))
    parts = [VIOL, '''
int g_nv, g_w; double *g_x, *g_lb, *g_ub; _Bool *g_orig, *g_isint; _Bool g_recomp; double g_tol, g_rel, g_inttol;
_Bool g_seen[3];
#define VP_MPCD(x) x
static int num_vars(void) { return g_nv; }
/* no NaN in the point or the bounds (model invariant, assumed at each access) */
static double chk_x(int i) { __CPROVER_assume(g_x[i] > -__builtin_inf() && g_x[i] < __builtin_inf()); return g_x[i]; }   /* a point has finite coordinates */
static double lb(int i) { __CPROVER_assume(g_lb[i] == g_lb[i]); return g_lb[i]; }
static double ub(int i) { __CPROVER_assume(g_ub[i] == g_ub[i]); return g_ub[i]; }
static _Bool is_var_original(int i) { return g_orig[i]; }
static _Bool is_var_integer(int i) { return g_isint[i]; }
static _Bool chk_if_recomputed(void) { return g_recomp; }
static double sol_feas_tol(void) { return g_tol; }
static double sol_feas_tol_rel(void) { return g_rel; }
static double sol_int_tol(void) { return g_inttol; }
/* chk.VarViolBnds().at(aux).CheckViol(...) / chk.VarViolIntty().at(aux).CheckViol(...): the violation counter (decision: C07.Violation.Check).
   k = 0 lower bound, 1 upper bound (order of the calls in the source), 2 integrality; nm = the variable index in place of its name */
static void CheckViol_k(int k, _Bool aux, Violation v, double epsabs, double epsrel, int nm) {
  __CPROVER_assert(nm >= 0 && nm < g_nv, "a variable of the model");
  __CPROVER_assert(aux == !g_orig[nm], "auxiliary variables are counted apart from the original ones");
  __CPROVER_assert(g_orig[nm] || !g_recomp, "auxiliary variables are not checked against recomputed values");
  double x = g_x[nm];
  if (k == 0) { __CPROVER_assert(v.valX_ == g_lb[nm], "a lower-bound violation is measured relative to the lower bound");
                __CPROVER_assert((v.viol_ > 0.0) == (g_lb[nm] > x) && (v.viol_ < 0.0) == (g_lb[nm] < x), "the lower-bound violation is positive exactly when x is below the bound (lb - x)"); }
  if (k == 1) { __CPROVER_assert(v.valX_ == g_ub[nm], "an upper-bound violation is measured relative to the upper bound");
                __CPROVER_assert((v.viol_ > 0.0) == (x > g_ub[nm]) && (v.viol_ < 0.0) == (x < g_ub[nm]), "the upper-bound violation is positive exactly when x is above the bound (x - ub)"); }
  if (k <= 1) __CPROVER_assert(epsabs == g_tol && epsrel == g_rel, "bounds are checked with the feasibility tolerances");
  if (k == 2) { __CPROVER_assert(g_isint[nm], "integrality is checked for integer variables");
                __CPROVER_assert(v.viol_ >= 0.0 && (v.viol_ > 0.0) == (x != v.valX_), "the integrality violation is positive exactly when x differs from the reference integer");
                __CPROVER_assert(epsabs == g_inttol, "integrality is checked with the integrality tolerance");
                __CPROVER_assert(epsrel <= 0.0, "the integrality tolerance is absolute: no relative tolerance may hide a violation that exceeds it"); }
  if (nm == g_w) g_seen[k] = 1;
}
''',
             Fn(SOLCHK, r'void CheckVars\(SolCheck& chk\)', 'void CheckVars(void)',
                contract='__CPROVER_requires(g_nv >= 0 && g_nv <= 1000000 && g_w >= 0 && g_w < g_nv && !g_seen[0] && !g_seen[1] && !g_seen[2] && g_tol == g_tol && g_rel == g_rel && g_inttol == g_inttol) '
                         '__CPROVER_requires(__CPROVER_is_fresh(g_x, (g_nv ? g_nv : 1) * sizeof(double)) && __CPROVER_is_fresh(g_lb, (g_nv ? g_nv : 1) * sizeof(double)) && '
                         '__CPROVER_is_fresh(g_ub, (g_nv ? g_nv : 1) * sizeof(double)) && __CPROVER_is_fresh(g_orig, g_nv ? g_nv : 1) && __CPROVER_is_fresh(g_isint, g_nv ? g_nv : 1)) '
                         '__CPROVER_ensures(g_seen[0] == %s && g_seen[1] == %s && g_seen[2] == (%s && g_isint[g_w])) __CPROVER_assigns(g_seen[0], g_seen[1], g_seen[2])' % (checked, checked, checked),
                subst=[(r'MPCD\(\s*', 'VP_MPCD(', -1), (r'chk\.x\(i\)', 'chk_x(i)', 1), (r'chk\.if_recomputed\(\)', 'chk_if_recomputed()', 1),
                       (r'chk\.VarViolBnds\(\)\.at\(aux\)\.CheckViol\(', bnd, 2), (r'chk\.VarViolIntty\(\)\.at\(aux\)\.CheckViol\(', 'CheckViol_k(2, aux, ', 1),
                       (r'VP_MPCD\(\s*GetModel\(\)\s*\)\.var_name\(i\)', 'i', 3), (r'\bINFINITY\b', '__builtin_inf()', -1), (r'(CheckViol_k\(\d, aux, )\s*\{', r'\1(Violation){', 3)],
                loops={0: '__CPROVER_assigns(i, g_seen[0], g_seen[1], g_seen[2]) __CPROVER_loop_invariant(%s) __CPROVER_decreases(i + 1)' % inv},
                label='mp::SolutionChecker::CheckVars', nmatches=1), '''
void harness(void) { vp_one = 1; g_nv = nondet_int(); g_w = nondet_int(); g_recomp = nondet_bool();
  g_tol = nondet_double(); g_rel = nondet_double(); g_inttol = nondet_double();
  CheckVars(); VP_REACH("normal return"); }
''']
    return Harness('C07.SolutionChecker.CheckVars', 'C07', parts, enforce='CheckVars', loop_contracts=True, expect_loop_obligations=1,
                   stubs=['ViolSummary::CheckViol (call-site obligations; its decision is C07.Violation.Check)', 'model / option accessors (arbitrary values)'])


CKEEP = 'include/mp/flat/constr_keeper.h'


def h_compute_violations():
    """ConstraintKeeper::ComputeViolations: which constraints of one type are checked, and under which heading a violation is counted.
    sol:chk:mode bits: 2 = constraints of the original model (top level), 4 = intermediate (reformulated away) auxiliary constraints,
    8 = constraints sent to the solver.  A constraint that is not unused is checked exactly when one of its classes is requested (a
    top-level constraint that also goes to the solver belongs to both); a violation is counted as original (0) for a top-level
    constraint, else solver-side (2) when sent to the solver, else intermediate (1).  Witness constraint g_w, loop contract."""
    TOP, SOLV = '(g_wdepth == 0)', '(!g_wbridged)'
    want = '(!g_wunused && ((%s && (g_mode & 2)) || (%s && (g_mode & 8)) || (!%s && !%s && (g_mode & 4))))' % (TOP, SOLV, TOP, SOLV)
    idx = '(%s ? 0 : %s ? 2 : 1)' % (TOP, SOLV)
    done = '(g_w >= i && g_w < g_n)'
    state = '(g_checked == %s && g_counted == (%s && g_wviol) && (g_counted ==> g_cidx == %s))' % (want, want, idx)
    parts = [VIOL, '''
int g_n, g_w, g_mode; _Bool g_wunused, g_wbridged, g_wviol; int g_wdepth;        /* the witness constraint: flags, depth, whether Check finds it violated */
_Bool g_checked, g_counted; int g_cidx; int g_cur;
struct pair_bool_double { _Bool first; double second; };
static _Bool c_IsUnused(int i) { return i == g_w ? g_wunused : nondet_bool(); }
static _Bool c_IsBridged(int i) { return i == g_w ? g_wbridged : nondet_bool(); }
static int c_GetDepth(int i) { int d = nondet_int(); __CPROVER_assume(d >= 0); return i == g_w ? g_wdepth : d; }
static Violation c_ComputeViolation(int i) { __CPROVER_assert(i >= 0 && i < g_n, "a constraint of this keeper"); g_cur = i; if (i == g_w) g_checked = 1; Violation v; v.viol_ = nondet_double(); v.valX_ = nondet_double(); return v; }
static struct pair_bool_double vp_check(Violation v, double ea, double er) { struct pair_bool_double r; r.first = g_cur == g_w ? g_wviol : nondet_bool(); r.second = nondet_double(); return r; }   /* C07.Violation.Check */
static void vp_count(int index, int i) { __CPROVER_assert(index >= 0 && index < 3, "one of the three headings"); if (i == g_w) { g_counted = 1; g_cidx = index; } }
static int chk_check_mode(void) { return g_mode; }
static double chk_GetFeasTol(void) { return nondet_double(); }
static double chk_GetFeasTolRel(void) { return nondet_double(); }
''',
             Fn(CKEEP, r'void ComputeViolations\(SolCheck& chk\) override \{\s*if \(cons_\.size\(\)\)', 'void ComputeViolations(void)',
                contract='__CPROVER_requires(g_n >= 0 && g_n <= 1000000 && g_w >= 0 && g_w < g_n && g_wdepth >= 0 && !g_checked && !g_counted) '
                         '__CPROVER_ensures(%s) __CPROVER_assigns(g_checked, g_counted, g_cidx, g_cur)' % state,
                subst=[(r'auto& conviolmap =\s*cons_\.front\(\)\.con_\.IsLogical\(\) \?\s*chk\.ConViolLog\(\) :\s*chk\.ConViolAlg\(\);', 'int conviolmap = nondet_bool() ? 1 : 2;', 1),
                       (r'const auto& x = chk\.x_ext\(\);', '', 1), (r'ViolSummArray<3>\* conviolarray \{nullptr\};', 'int conviolarray = 0;', 1),
                       (r'conviolarray =\s*(?://[^\n]*\n\s*)?&conviolmap\[GetShortTypeName\(\)\];', 'conviolarray = conviolmap;', 1),
                       (r'\(int\)conviolarray->size\(\)', '3', 1), (r'\(\*conviolarray\)\[index\]\.CountViol\(\s*viol, cr\.second, cons_\[i\]\.con_\.name\(\)\);', 'vp_count(index, i);', 1),
                       (r'cons_\.size\(\)', 'g_n', 2), (r'cons_\[i\]\.(IsUnused|IsBridged|GetDepth)\(\)', r'c_\1(i)', 3),
                       (r'cons_\[i\]\.con_\.ComputeViolation\(x\)', 'c_ComputeViolation(i)', 1), (r'viol\.Check\(', 'vp_check(viol, ', 1), (r'chk\.(\w+)\(\)', r'chk_\1()', -1)],
                loops={0: '__CPROVER_assigns(i, g_checked, g_counted, g_cidx, g_cur, conviolarray) __CPROVER_loop_invariant(i >= 0 && i <= g_n && (%s ==> %s) && (!%s ==> (!g_checked && !g_counted))) __CPROVER_decreases(i + 1)' % (done, state, done)},
                label='mp::ConstraintKeeper::ComputeViolations', nmatches=1), '''
void harness(void) { vp_one = 1; g_n = nondet_int(); g_w = nondet_int(); g_mode = nondet_int(); g_wunused = nondet_bool(); g_wbridged = nondet_bool(); g_wviol = nondet_bool(); g_wdepth = nondet_int();
  g_checked = 0; g_counted = 0; ComputeViolations(); VP_REACH("normal return"); }
''']
    return Harness('C07.ConstraintKeeper.ComputeViolations', 'C07', parts, enforce='ComputeViolations', loop_contracts=True, expect_loop_obligations=1,
                   stubs=['constraint flags / depth (arbitrary per constraint)', 'con_.ComputeViolation (C07.*.ComputeViolation)', 'Violation::Check (C07.Violation.Check)', 'the violation summary map (ghost)'])


def h_checkobjs():
    """SolutionChecker::CheckObjs: every objective that has a reported value (the first min(#objectives, #reported values) ones) is checked
    once: the violation is the distance between the reported value and the value recomputed at the point, measured relative to the recomputed
    value, with the feasibility tolerances in their places (absolute, relative).  Witness objective g_w, loop contract."""
    done = '(g_w >= i && g_w < g_m)'
    parts = [VIOL, '''
size_t g_nobj, g_nvals, g_m, g_w; double g_wval, g_wrep; double g_tol, g_rel; int g_seen;
#define VP_MPCD(x) x
static size_t objs_size(void) { return g_nobj; }
static size_t vals_size(void) { return g_nvals; }
static size_t min(size_t a, size_t b) { return b < a ? b : a; }
static double vp_value(size_t i) { double v = nondet_double(); __CPROVER_assume(v > -__builtin_inf() && v < __builtin_inf()); return i == g_w ? g_wval : v; }    /* ComputeValue(objs[i], x) */
static double vp_reported(size_t i) { double v = nondet_double(); __CPROVER_assume(v > -__builtin_inf() && v < __builtin_inf()); return i == g_w ? g_wrep : v; }  /* chk.obj_vals()[i] */
static double sol_feas_tol(void) { return g_tol; }
static double sol_feas_tol_rel(void) { return g_rel; }
static void vp_checkviol(Violation v, double epsabs, double epsrel, size_t nm) {
  __CPROVER_assert(nm < g_m, "an objective that has a reported value");
  __CPROVER_assert(epsabs == g_tol && epsrel == g_rel, "objective values are checked with the feasibility tolerances: absolute first, relative second");
  if (nm == g_w) {
    __CPROVER_assert(v.valX_ == g_wval, "the objective violation is measured relative to the recomputed objective value");
    __CPROVER_assert(v.viol_ >= 0.0 && (v.viol_ > 0.0) == (g_wrep != g_wval), "the objective violation is positive exactly when the reported value differs from the recomputed one");
    g_seen++; } }
''',
             Fn(SOLCHK, r'void CheckObjs\(SolCheck& chk\)', 'void CheckObjs(void)',
                contract='__CPROVER_requires(g_nobj <= 1000000 && g_nvals <= 1000000 && g_m == (g_nobj < g_nvals ? g_nobj : g_nvals) && g_seen == 0 && g_tol == g_tol && g_rel == g_rel && '
                         'g_wval > -__builtin_inf() && g_wval < __builtin_inf() && g_wrep > -__builtin_inf() && g_wrep < __builtin_inf()) '
                         '__CPROVER_ensures(g_seen == (g_w < g_m ? 1 : 0)) __CPROVER_assigns(g_seen)',
                subst=[(r'const auto& objs = MPCD\(\s*GetModel\(\)\s*\)\.get_objectives\(\);', '', 1), (r'MPCD\(\s*', 'VP_MPCD(', -1),
                       (r'std::min\(', 'min(', 1), (r'objs\.size\(\)', 'objs_size()', 1), (r'chk\.obj_vals\(\)\.size\(\)', 'vals_size()', 1),
                       (r'ComputeValue\(objs\[i\], chk\.x_ext\(\)\)', 'vp_value(i)', 1), (r'chk\.obj_vals\(\)\[i\]', 'vp_reported(i)', 1),
                       (r'chk\.ObjViols\(\)\.CheckViol\(\s*\{([^{}]*)\}', r'vp_checkviol((Violation){\1}', 1), (r'objs\[i\]\.name\(\)', 'i', 1)],
                loops={0: '__CPROVER_assigns(i, g_seen) __CPROVER_loop_invariant(i <= g_m && g_seen == (%s ? 1 : 0)) __CPROVER_decreases(i)' % done},
                label='mp::SolutionChecker::CheckObjs', nmatches=1), '''
void harness(void) { vp_one = 1; g_nobj = nondet_size_t(); g_nvals = nondet_size_t(); g_m = nondet_size_t(); g_w = nondet_size_t(); g_wval = nondet_double(); g_wrep = nondet_double();
  g_tol = nondet_double(); g_rel = nondet_double(); g_seen = 0; CheckObjs(); VP_REACH("normal return"); }
''']
    return Harness('C07.SolutionChecker.CheckObjs', 'C07', parts, enforce='CheckObjs', loop_contracts=True, expect_loop_obligations=1,
                   stubs=['ComputeValue of an objective / the reported objective values (arbitrary finite numbers)', 'ViolSummary::CheckViol (call-site obligations; decision: C07.Violation.Check)'])


def h_pl_value():
    """ComputeValue(PLConstraint): the piecewise-linear function through the points (x_k, y_k), extended to the left with the first slope and to
    the right with the last one.  At a breakpoint the value is y_k; left of the first point it lies BELOW y_front when the first slope times
    the distance is positive (y_front - slope * distance), right of the last point ABOVE y_back when the last slope times the distance is positive;
    inside a segment it is y_{k-1} plus the interpolation term.  The products / quotient are opaque ghost values (double multiplication and
    division are beyond the back ends): the obligations are the side each term moves the value to (non-strict: a tiny term can be absorbed by rounding).  Search loop under a loop contract."""
    parts = ['#include "mp_shim.h"\n#include <math.h>\nint vp_one;\n#define assert(x) __CPROVER_assert(x, "assert(" #x ") of the source holds")\n', '''
int g_n; double *g_px, *g_py; double g_x0;
double P_PRE, P_POST, P_MID;     /* PreSlope*(x_front - x0), PostSlope*(x0 - x_back), (dy)*(x0 - x_{i-1})/(dx): opaque */
int g_branch, g_i0;
static _Bool plp_empty(void) { return g_n == 0; }
#define R __CPROVER_return_value
''',
             Fn(EVAL, r'double ComputeValue\(const PLConstraint& con, const VarVec& x\)', 'double ComputeValue_PL(void)',
                contract='__CPROVER_requires(g_n >= 1 && g_n <= 1000 && __CPROVER_is_fresh(g_px, g_n * sizeof(double)) && __CPROVER_is_fresh(g_py, g_n * sizeof(double)) && g_x0 == g_x0 && '
                         'P_PRE == P_PRE && P_POST == P_POST && P_MID == P_MID && g_px[0] == g_px[0] && g_px[g_n - 1] == g_px[g_n - 1] && g_px[0] <= g_px[g_n - 1] && '
                         'g_py[0] > -1e300 && g_py[0] < 1e300 && g_py[g_n - 1] > -1e300 && g_py[g_n - 1] < 1e300 && P_PRE > -1e300 && P_PRE < 1e300 && P_POST > -1e300 && P_POST < 1e300) '
                         '__CPROVER_ensures(g_x0 < g_px[0] ==> ((P_PRE > 0.0 ==> R <= g_py[0]) && (P_PRE < 0.0 ==> R >= g_py[0]) && (P_PRE == 0.0 ==> R == g_py[0]))) '
                         '__CPROVER_ensures(g_x0 > g_px[g_n - 1] ==> ((P_POST > 0.0 ==> R >= g_py[g_n - 1]) && (P_POST < 0.0 ==> R <= g_py[g_n - 1]) && (P_POST == 0.0 ==> R == g_py[g_n - 1]))) '
                         '__CPROVER_ensures((g_x0 >= g_px[0] && g_x0 <= g_px[g_n - 1]) ==> (g_i0 >= 0 && g_i0 < g_n && !(g_x0 > g_px[g_i0]) && (g_px[g_i0] == g_x0 ==> (g_branch == 1 && (g_py[g_i0] == g_py[g_i0] ==> R == g_py[g_i0]))) && '
                         '(g_px[g_i0] != g_x0 ==> g_branch == 2))) __CPROVER_assigns(g_branch, g_i0)',
                subst=[(r'const auto& plp = con\.GetParameters\(\)\.GetPLPoints\(\);', '', 1), (r'plp\.empty\(\)', 'plp_empty()', 1),
                       (r'auto x0 = x\[con\.GetArguments\(\)\[0\]\];', 'double x0 = g_x0;', 1),
                       (r'plp\.PreSlope\(\)\*\(plp\.x_\.front\(\) - x0\)', 'P_PRE', 1), (r'plp\.PostSlope\(\)\*\(x0 - plp\.x_\.back\(\)\)', 'P_POST', 1),
                       (r'\(plp\.y_\[i0\]-plp\.y_\[i0-1\]\)\s*\* \(x0-plp\.x_\[i0-1\]\) / \(plp\.x_\[i0\]-plp\.x_\[i0-1\]\)', 'P_MID', 1),
                       (r'plp\.x_\.front\(\)', 'g_px[0]', -1), (r'plp\.x_\.back\(\)', 'g_px[g_n - 1]', -1), (r'plp\.y_\.front\(\)', 'g_py[0]', -1), (r'plp\.y_\.back\(\)', 'g_py[g_n - 1]', -1),
                       (r'plp\.x_\[', 'g_px[', -1), (r'plp\.y_\[', 'g_py[', -1),
                       (r'return g_px\[i0\]==x0\s*\? g_py\[i0\]\s*: \(g_py\[i0-1\]\s*\+ P_MID\);', 'g_i0 = i0; if (g_px[i0]==x0) { g_branch = 1; return g_py[i0]; } g_branch = 2; __CPROVER_assert(i0 >= 1, "an inner segment has a left end"); return (g_py[i0-1] + P_MID);', 1)],
                loops={0: '__CPROVER_assigns(i0) __CPROVER_loop_invariant(0 <= i0 && i0 < g_n) __CPROVER_decreases(g_n - i0)'},
                label='mp::ComputeValue(PLConstraint)', nmatches=1), '''
void harness(void) { vp_one = 1; g_n = nondet_int(); g_x0 = nondet_double(); P_PRE = nondet_double(); P_POST = nondet_double(); P_MID = nondet_double(); g_branch = 0;
  ComputeValue_PL(); VP_REACH("normal return"); }
''']
    return Harness('C07.ComputeValue.PL', 'C07', parts, enforce='ComputeValue_PL', loop_contracts=True, expect_loop_obligations=1, timeout=600,
                   stubs=['the slope * distance products and the interpolation term as opaque values', 'PLPoints as two arrays'])


def h_check():
    parts = ['#include "mp_shim.h"\n#include <math.h>\nint vp_one;\n', '''
double viol_, valX_;                 /* members of mp::Violation */
struct pair_bool_double { bool first; double second; };
''', Fn(BASE, r'std::pair<bool, double> Check\(\s*double epsabs, double epsrel\) const', 'struct pair_bool_double Check(double epsabs, double epsrel)',
        contract='__CPROVER_requires(viol_ == viol_ && valX_ == valX_ && epsabs == epsabs && epsrel == epsrel) '
                 '__CPROVER_ensures(__CPROVER_return_value.first == (viol_ > epsabs && (valX_ == 0.0 || fabs(viol_ / valX_) > epsrel))) '
                 '__CPROVER_ensures(!__CPROVER_return_value.first ==> __CPROVER_return_value.second == 0.0) '
                 '__CPROVER_assigns()',
        subst=[(r'double violRel \{0\.0\};', 'double violRel = 0.0;', 1),
               (r'return \{true, violRel\};', 'return (struct pair_bool_double){1, violRel};', 1),
               (r'return \{false, 0\.0\};', 'return (struct pair_bool_double){0, 0.0};', 1)],
        label='mp::Violation::Check', nmatches=1), '''
void harness(void) { vp_one = 1; viol_ = nondet_double(); valX_ = nondet_double();
  Check(nondet_double(), nondet_double()); VP_REACH("normal return"); }
''']
    return Harness('C07.Violation.Check', 'C07', parts, enforce='Check', timeout=900,
                   note='tolerance test: the relative part restates the same division')
