// Native replay driver (C06:down-propagation-of-logical-results), adapted from the demonstration of a seeded change (round 11): an oracle over the REAL code;
// exit 0 = as the property says, exit 1 = a discrepancy (printed).  Built by vp/native.py against VP_REPO's working tree.
// Demonstration for property C06 (inferred bounds of auxiliary variables
// never cut off a value): propagation of a result box into the arguments
// of a conjunction.
//
// Model:   x, y in [0, 10] (continuous)
//          a := (x >= 3),  b := (y >= 3)         (conditional comparisons)
//          r := a && b
//          n := !r
//          root logical constraint:  n is true,  i.e.  !(x>=3 && y>=3)
//
// The point x=5, y=0 is feasible: a=1, b=0, r=0, n=1. So after fixing
// n to true and propagating down, the domain of a must still contain 1
// (and, symmetrically with x=0, y=5, the domain of b must contain 1).
//
// Build:
//   c++ -std=c++17 -DMP_DATE=20240320 -Iinclude -Isrc demo.cc \
//       _build/lib/libmp.a -o demo
#include <cstdio>
#include <vector>

#include "mp/env.h"
#include "mp/flat/converter.h"
#include "mp/flat/model_api_base.h"

namespace {

class DemoBackend : public mp::BasicFlatModelAPI {
public:
  DemoBackend() { }
  DemoBackend(mp::Env& ) { }
  static constexpr const char* GetTypeName() { return "demo"; }
  void AddVariables(const mp::VarArrayDef& ) { }
  USE_BASE_CONSTRAINT_HANDLERS(mp::BasicFlatModelAPI)
};

using Converter = mp::FlatCvtImpl<mp::FlatConverter, DemoBackend>;

/// Value of every expression at a point (x, y), bottom-up
struct Point { double x, y, a, b, r, n; };
Point Eval(double x, double y) {
  Point p;
  p.x = x; p.y = y;
  p.a = x>=3.0; p.b = y>=3.0;
  p.r = (p.a!=0.0 && p.b!=0.0);
  p.n = !(p.r!=0.0);
  return p;
}

int Check(const Converter& cvt, const char* name, int var, double val,
          const Point& p) {
  if (val < cvt.lb(var) || val > cvt.ub(var)) {
    std::printf("FAIL: at x=%g y=%g (root constraint !(x>=3 && y>=3) holds)"
                " '%s' takes the value %g,\n      but its inferred"
                " domain is [%g, %g]\n",
                p.x, p.y, name, val, cvt.lb(var), cvt.ub(var));
    return 1;
  }
  return 0;
}

}  // namespace

int main() {
  mp::Env env;
  Converter cvt(env);

  cvt.AddVars({0.0, 0.0}, {10.0, 10.0},
              {mp::var::CONTINUOUS, mp::var::CONTINUOUS});
  const int x = 0, y = 1;

  int a = cvt.AssignResultVar2Args(
        mp::CondLinConGE{ { {{1.0}, {x}}, 3.0 } });
  int b = cvt.AssignResultVar2Args(
        mp::CondLinConGE{ { {{1.0}, {y}}, 3.0 } });
  int r = cvt.AssignResultVar2Args(mp::AndConstraint{ {a, b} });
  int n = cvt.AssignResultVar2Args(mp::NotConstraint{ {r} });

  std::printf("before: a in [%g,%g], b in [%g,%g], r in [%g,%g], "
              "n in [%g,%g]\n",
              cvt.lb(a), cvt.ub(a), cvt.lb(b), cvt.ub(b),
              cvt.lb(r), cvt.ub(r), cvt.lb(n), cvt.ub(n));

  try {
    cvt.FixAsTrue(n);          // what is done for a root logical constraint
  } catch (const std::exception& e) {
    std::printf("FAIL: exception: %s\n", e.what());
    return 2;
  }

  std::printf("after:  a in [%g,%g], b in [%g,%g], r in [%g,%g], "
              "n in [%g,%g]\n",
              cvt.lb(a), cvt.ub(a), cvt.lb(b), cvt.ub(b),
              cvt.lb(r), cvt.ub(r), cvt.lb(n), cvt.ub(n));

  int nfail = 0;
  for (double xv = 0.0; xv <= 10.0; xv += 0.5)
    for (double yv = 0.0; yv <= 10.0; yv += 0.5) {
      Point p = Eval(xv, yv);
      if (p.n != 1.0)          // root constraint violated: not a model point
        continue;
      int f = 0;
      f += Check(cvt, "a := (x>=3)", a, p.a, p);
      f += Check(cvt, "b := (y>=3)", b, p.b, p);
      f += Check(cvt, "r := a && b", r, p.r, p);
      f += Check(cvt, "n := !r", n, p.n, p);
      if (f && nfail >= 3)     // keep the output short
        return 1;
      nfail += f;
    }
  if (nfail)
    return 1;
  std::printf("OK: no feasible value was cut off\n");
  return 0;
}
