// Native replay for C14: the real mp::ReadSOLFile (sol-reader2.hpp) on a given file with a recording handler.
// Build with -fsanitize=address,undefined -fno-sanitize-recover=all: a memory error or UB aborts (exit != 0).
// usage: c14_replay <file.sol> <num_vars> <num_algebraic_cons> [read: all|some|none]
//   exit 10 = handler was offered more values than declared / partial vector reported complete
#include <cstdio>
#include <cstdlib>
#include <cstring>
#include <string>
#include "mp/sol-reader2.h"
#include "mp/sol-reader2.hpp"
#include "mp/nl-utils.h"

static int g_nv, g_nc, g_mode = 0;   // 0 all, 1 some, 2 none
static int violations = 0;
static bool complete = true;
static bool saw_vector_error = false;   // some vector reader ended with a non-OK ReadResult()
struct H : mp::SOLHandler {
  mp::NLHeader Header() const { mp::NLHeader h; h.num_vars = g_nv; h.num_algebraic_cons = g_nc; return h; }
  template <class VR> void consume(VR &rd, int limit, const char *what) {
    if (limit >= 0 && rd.Size() > limit) { fprintf(stderr, "VIOLATED: %s: offered %d values, problem has %d\n", what, rd.Size(), limit); violations++; }
    if (rd.Size() < 0) { fprintf(stderr, "VIOLATED: %s: a reader with a negative number of values (%d) was handed to the handler\n", what, rd.Size()); violations++; return; }
    int n = rd.Size();
    int take = g_mode == 0 ? n : (g_mode == 1 ? n / 2 : 0);
    for (int k = 0; k < take && rd.Size(); ++k) rd.ReadNext();
    if (rd.Size()) complete = false;
    if (rd.ReadResult() != NLW2_SOLRead_OK) saw_vector_error = true;
  }
  template <class VR> void OnDualSolution(VR &rd) { consume(rd, g_nc, "duals"); }
  template <class VR> void OnPrimalSolution(VR &rd) { consume(rd, g_nv, "primals"); }
  template <class SR> void OnIntSuffix(SR &sr) { (void)sr.SufInfo().Name().size(); (void)sr.SufInfo().Table().size(); consume(sr, -1, "int suffix"); }
  template <class SR> void OnDblSuffix(SR &sr) { (void)sr.SufInfo().Name().size(); (void)sr.SufInfo().Table().size(); consume(sr, -1, "dbl suffix"); }
};
int main(int argc, char **argv) {
  if (argc < 4) return 2;
  g_nv = atoi(argv[2]); g_nc = atoi(argv[3]);
  if (argc > 4) g_mode = !strcmp(argv[4], "some") ? 1 : !strcmp(argv[4], "none") ? 2 : 0;
  H h; mp::NLUtils u;
  auto r = mp::ReadSOLFile(argv[1], h, u);
  printf("result code %d%s%s\n", (int)r.first, r.second.empty() ? "" : ": ", r.second.c_str());
  if (r.first == NLW2_SOLRead_OK && !complete) { fprintf(stderr, "VIOLATED: a vector was not read completely but the result is OK\n"); violations++; }
  // recorded inputs named *cut_in_vector*: a binary file for 3 variables / 2 constraints that ends inside a value of a vector
  if (strstr(argv[1], "cut_in_vector") && g_nv == 3 && g_nc == 2 && g_mode == 0 && !saw_vector_error) {
    fprintf(stderr, "VIOLATED: the file ends inside a value of a vector, but every vector reader reported its vector as completely read (ReadResult() == OK)\n"); violations++; }
  return violations ? 10 : 0;
}
