// Native replay for C07: the real evaluators mp::ComputeValue(<constraint>, x) of include/mp/flat/constr_eval.h and the real
// mp::Violation::Check, compared with the mathematical value of the operator on a grid of points (the verifier's
// counterexamples are ghost states of loop contracts, not concrete points: this searches the neighbourhood natively).
// usage: c07_replay <Max|Min|Abs|And|Or|Not|Div|IfThen|Implication|Count|AllDiff|NumberofConst|NumberofVar|Check|Indicator|Algebraic|Functional|all>
//   exit 10 = an evaluator disagrees with the mathematical value
#include <cstdio>
#include <cstring>
#include <cmath>
#include <vector>
#include <array>
#include <string>
#include <algorithm>
#include "mp/flat/constr_std.h"
#include "mp/flat/constr_algebraic.h"
#include "mp/flat/constr_eval.h"
#include "mp/flat/constr_general.h"

struct X {
  std::vector<double> v; std::vector<bool> isint; double tol = 1e-6;
  double operator[](int i) const { return v[i]; }
  std::size_t size() const { return v.size(); }
  bool recomp_vals() const { return false; }
  double raw(int i) const { return v[i]; }
  double bounds_viol(int) const { return 0.0; }
  bool is_var_int(int i) const { return isint.empty() ? false : isint[i]; }
  double feastol() const { return tol; }
};
static int bad;
static void report(const char *what, const std::vector<double> &pt, double got, double want) {
  if (bad++ > 5) return;
  printf("VIOLATED: %s at (", what); for (size_t i = 0; i < pt.size(); ++i) printf("%s%g", i ? ", " : "", pt[i]); printf("): evaluator gives %g, the mathematical value is %g\n", got, want);
}
static const double G[] = {-2, -1, -0.5, 0, 0.3, 0.5, 0.7, 1, 2, 3};
static const int NG = sizeof G / sizeof *G;
// all points of G^n for n = 1..3
template <class F> static void points(int nmin, int nmax, F f) {
  for (int n = nmin; n <= nmax; ++n) {
    std::vector<int> idx(n, 0);
    for (;;) {
      std::vector<double> p(n); for (int i = 0; i < n; ++i) p[i] = G[idx[i]];
      f(p);
      int k = 0; while (k < n && ++idx[k] == NG) idx[k++] = 0;
      if (k == n) break;
    }
  }
}
static std::vector<int> iota_(int n) { std::vector<int> a(n); for (int i = 0; i < n; ++i) a[i] = i; return a; }

static void t_max() { points(1, 3, [](const std::vector<double> &p) { mp::MaxConstraint c(iota_(p.size())); X x{p}; double w = *std::max_element(p.begin(), p.end()); double g = mp::ComputeValue(c, x); if (g != w) report("Max", p, g, w); }); }
static void t_min() { points(1, 3, [](const std::vector<double> &p) { mp::MinConstraint c(iota_(p.size())); X x{p}; double w = *std::min_element(p.begin(), p.end()); double g = mp::ComputeValue(c, x); if (g != w) report("Min", p, g, w); }); }
static void t_abs() { points(1, 1, [](const std::vector<double> &p) { mp::AbsConstraint c({0}); X x{p}; double g = mp::ComputeValue(c, x), w = std::fabs(p[0]); if (g != w) report("Abs", p, g, w); }); }
static void t_and() { points(1, 3, [](const std::vector<double> &p) { mp::AndConstraint c(iota_(p.size())); X x{p}; bool w = true; for (double v : p) w = w && v >= 0.5; double g = mp::ComputeValue(c, x); if (g != (double)w) report("And", p, g, w); }); }
static void t_or() { points(1, 3, [](const std::vector<double> &p) { mp::OrConstraint c(iota_(p.size())); X x{p}; bool w = false; for (double v : p) w = w || v >= 0.5; double g = mp::ComputeValue(c, x); if (g != (double)w) report("Or", p, g, w); }); }
static void t_not() { points(1, 1, [](const std::vector<double> &p) { mp::NotConstraint c({0}); X x{p}; double g = mp::ComputeValue(c, x), w = p[0] < 0.5; if (g != w) report("Not", p, g, w); }); }
static void t_div() { points(2, 2, [](const std::vector<double> &p) { if (p[1] == 0) return; mp::DivConstraint c({0, 1}); X x{p}; double g = mp::ComputeValue(c, x), w = p[0] / p[1]; if (g != w) report("Div", p, g, w); }); }
static void t_ifthen() { points(3, 3, [](const std::vector<double> &p) { mp::IfThenConstraint c({0, 1, 2}); X x{p}; double g = mp::ComputeValue(c, x), w = p[0] >= 0.5 ? p[1] : p[2]; if (g != w) report("IfThen", p, g, w); }); }
static void t_impl() { points(3, 3, [](const std::vector<double> &p) { mp::ImplicationConstraint c({0, 1, 2}); X x{p}; double g = mp::ComputeValue(c, x), w = p[0] >= 0.5 ? (p[1] >= 0.5) : (p[2] >= 0.5); if (g != w) report("Implication", p, g, w); }); }
static void t_count() { points(1, 3, [](const std::vector<double> &p) { mp::CountConstraint c(iota_(p.size())); X x{p}; double w = 0; for (double v : p) w += v >= 0.5; double g = mp::ComputeValue(c, x); if (g != w) report("Count", p, g, w); }); }
static void t_alldiff() { points(1, 3, [](const std::vector<double> &p) { mp::AllDiffConstraint c(iota_(p.size())); X x{p}; bool w = true;
  for (size_t i = 0; i < p.size(); ++i) for (size_t j = 0; j < i; ++j) if (std::round(p[i]) == std::round(p[j])) w = false; double g = mp::ComputeValue(c, x); if (g != (double)w) report("AllDiff", p, g, w); }); }
static void t_nofc() { for (double k : {0.0, 1.0, 0.5}) for (int allint = 0; allint < 2; ++allint) points(1, 3, [&](const std::vector<double> &p) {
  mp::NumberofConstConstraint c(iota_(p.size()), {k}); X x{p}; x.isint.assign(p.size(), allint != 0); double w = 0;
  for (double v : p) w += (allint && std::round(v) == k) || std::fabs(v - k) <= 1e-6; double g = mp::ComputeValue(c, x); if (g != w) report("NumberofConst", p, g, w); }); }
static void t_nofv() { for (int allint = 0; allint < 2; ++allint) points(2, 3, [&](const std::vector<double> &p) {
  mp::NumberofVarConstraint c(iota_(p.size())); X x{p}; x.isint.assign(p.size(), allint != 0); double k = p[0], w = 0;
  for (size_t i = 1; i < p.size(); ++i) w += (allint && std::round(p[i]) == k) || std::fabs(p[i] - k) <= 1e-6; double g = mp::ComputeValue(c, x); if (g != w) report("NumberofVar", p, g, w); }); }
static void t_check() {
  const double V[] = {-5, -1, -1e-3, -1e-9, 0, 1e-9, 1e-7, 1e-3, 1, 5}, R[] = {-100, -1, -1e-6, 0, 1e-6, 1, 100}, E[] = {0, 1e-6, 1e-3};
  for (double viol : V) for (double ref : R) for (double ea : E) for (double er : E) {
    mp::Violation v{viol, ref}; bool got = v.Check(ea, er).first;
    bool want = viol > ea && (ref == 0 || std::fabs(viol / ref) > er);
    if (got != want) report("Violation::Check (viol, ref, epsabs, epsrel)", {viol, ref, ea, er}, got, want);
  }
}
// indicator constraints: the implied constraint counts exactly when the binary's nearest integer is the indicator value
static void t_indicator() {
  const double B[] = {0, 1, 1e-9, 1 - 1e-9, 3e-7, 1 - 3e-7, -2e-8, 1 + 2e-8, 0.4, 0.6}, XV[] = {-2, 0, 2.999, 3, 3.001, 4, 10};
  for (int bv = 0; bv < 2; ++bv) for (double b : B) for (double xv : XV) {
    mp::IndicatorConstraintLinLE ic(0, bv, mp::LinConLE({{1.0}, {1}}, 3.0)); X x{{b, xv}};
    bool got = ic.ComputeViolation(x).Check(1e-6, 1e-6).first, want = (std::round(b) == bv) && (xv - 3.0 > 1e-6);
    if (got != want) report("Indicator (b, x1; implied x1 <= 3)", {b, xv, (double)bv}, got, want);
  }
}
// algebraic constraints: lower / upper side, per comparison kind
static void t_algebraic() {
  const double BD[] = {-5, -1, 0, 0.999, 1, 1.001, 2, 3, 3.5}, R[] = {-1, 0, 1, 3};
  for (double bd : BD) for (double r : R) {
    X x{{bd}};
    { mp::LinConLE c({{1.0}, {0}}, r); auto v = c.ComputeViolation(x); double want = bd - r; if (v.viol_ != want) report("LinConLE violation (body, rhs)", {bd, r}, v.viol_, want); }
    { mp::LinConGE c({{1.0}, {0}}, r); auto v = c.ComputeViolation(x); double want = r - bd; if (v.viol_ != want) report("LinConGE violation (body, rhs)", {bd, r}, v.viol_, want); }
    { mp::LinConEQ c({{1.0}, {0}}, r); auto v = c.ComputeViolation(x); double want = std::fabs(bd - r); if ((v.viol_ > 0 ? v.viol_ : 0) != want) report("LinConEQ violation (body, rhs)", {bd, r}, v.viol_, want); }
    for (double u : R) if (u >= r) { mp::LinConRange c({{1.0}, {0}}, {r, u}); auto v = c.ComputeViolation(x); double want = r > bd ? r - bd : (bd > u ? bd - u : std::max(r - bd, bd - u));
      if (v.viol_ != want) report("LinConRange violation (body, lb, ub)", {bd, r, u}, v.viol_, want); }
  }
}
// functional constraints: result variable against the value, by context
static void t_functional() {
  const double RV[] = {-1, 0, 0.5, 1, 2, 3};
  points(2, 2, [&](const std::vector<double> &p) { for (double r : RV) for (int ctx = 0; ctx < 3; ++ctx) {
    mp::MaxConstraint c(2, {0, 1}); c.SetContext(ctx == 0 ? mp::Context::CTX_MIX : ctx == 1 ? mp::Context::CTX_POS : mp::Context::CTX_NEG);
    std::vector<double> q = p; q.push_back(r); X x{q}; double f = std::max(p[0], p[1]);
    double want = ctx == 0 ? std::fabs(r - f) : ctx == 1 ? r - f : f - r; double got = c.ComputeViolation(x).viol_;
    if (got != want) report("Max with result variable (x0, x1, result, context)", {p[0], p[1], r, (double)ctx}, got, want); } });
}
int main(int argc, char **argv) {
  std::string w = argc > 1 ? argv[1] : "all";
  struct { const char *n; void (*f)(); } T[] = {{"Max", t_max}, {"Min", t_min}, {"Abs", t_abs}, {"And", t_and}, {"Or", t_or}, {"Not", t_not}, {"Div", t_div}, {"IfThen", t_ifthen},
    {"Implication", t_impl}, {"Count", t_count}, {"AllDiff", t_alldiff}, {"NumberofConst", t_nofc}, {"NumberofVar", t_nofv}, {"Check", t_check}, {"Indicator", t_indicator}, {"Algebraic", t_algebraic}, {"Functional", t_functional}};
  int ran = 0;
  for (auto &t : T) if (w == "all" || w == t.n) { t.f(); ++ran; }
  if (!ran) { printf("unknown evaluator %s\n", w.c_str()); return 2; }
  if (bad) return 10;
  printf("ok: %s agrees with the mathematical value on the grid\n", w.c_str());
  return 0;
}
