// Native replay for C16: the real src/gsl/amplgsl.cc (compiled with the funcadd.h stub and linked with libgsl)
// registered through funcadd_ASL; calls one binding with given arguments and request mode under ASan/UBSan.
// usage: c16_replay <function> <mode: 0 value, 1 derivs, 2 derivs+hes> <arg>...       (arg "nan" allowed)
//        c16_replay sweep <function> <nargs> [<arg>...]   all three modes over a probe grid of arguments (plus the given point)
//   exit 10 = no error message but (a) NaN in the value or in a requested derivative, or (b) a GSL function with a status result
//             (*_e family) returned a failure status to the binding.  For (b) amplgsl.cc is compiled with -include <generated header>
//             that includes the GSL headers and then wraps every *_e call in vp_status() (same wrapping as in the CBMC harness).
//   GSL's own error handler is observed too, but only printed: GSL swallows some internal errors and the natural-form
//   functions hide the status from the binding, which the contracts (GSL arbitrary) do not decide.
#include <cstdio>
#include <cstdlib>
#include <cstring>
#include <cmath>
#include <cstdarg>
#include <map>
#include <string>
#include <vector>
#include <gsl/gsl_errno.h>
#include "funcadd.h"
extern "C" void funcadd_ASL(AmplExports *ae);
static std::map<std::string, rfunc> funcs; static std::map<std::string, int> arity;
static void add(const char *name, rfunc f, int, int nargs, void *, AmplExports *) { funcs[name] = f; arity[name] = nargs; }
static std::vector<void *> blocks;
static void atreset(AmplExports *, Exitfunc *, void *) {}
static void *tempmem(TMInfo *, size_t n) { void *p = malloc(n); blocks.push_back(p); return p; }
// observes GSL's own error reports; like the handler amplgsl.cc installs (gsl_set_error_handler_off) it does not change the flow
static int g_gsl_errors; static int g_gsl_errno; static std::string g_gsl_reason;
static void on_gsl_error(const char *reason, const char *, int, int gsl_errno) {
  // only "the value cannot be computed" counts; underflow / overflow / accuracy reports still come with the IEEE result (0, inf, approximation)
  if (gsl_errno != GSL_EDOM && gsl_errno != GSL_EINVAL && gsl_errno != GSL_EFAILED && gsl_errno != GSL_EFAULT && gsl_errno != GSL_ESANITY &&
      gsl_errno != GSL_EUNIMPL && gsl_errno != GSL_EUNSUP) return;
  ++g_gsl_errors; g_gsl_errno = gsl_errno; g_gsl_reason = reason ? reason : "";
}
static AmplExports ae;
static int g_status_failed, g_last_status;
extern "C" int vp_status(int s) { if (s != 0) { g_status_failed = 1; g_last_status = s; } return s; }

// returns 0 ok, 1 violated
static int call(const char *name, int mode, const std::vector<double> &args, bool verbose) {
  int n = (int)args.size();
  std::vector<double> ra(args), derivs(n + 1, 0.0), hes(n * (n + 1) / 2 + 1, 0.0);
  arglist al; memset(&al, 0, sizeof al); al.n = al.nr = n; al.ra = ra.data(); al.AE = &ae; al.funcinfo = (char *)name;
  if (mode >= 1) al.derivs = derivs.data();
  if (mode >= 2) al.hes = hes.data();
  g_gsl_errors = 0; g_status_failed = 0;
  double r = funcs[name](&al);
  int bad = 0;
  if (!al.Errmsg) {
    if (std::isnan(r)) bad = 1;
    if (al.derivs) for (int i = 0; i < n; ++i) if (std::isnan(derivs[i])) bad = 1;
    if (al.hes) for (int i = 0; i < n * (n + 1) / 2; ++i) if (std::isnan(hes[i])) bad = 1;
    if (!bad && g_status_failed) bad = 2;
  }
  if (verbose || bad) {
    printf("%s mode %d (", name, mode);
    for (int i = 0; i < n; ++i) printf("%s%.17g", i ? ", " : "", args[i]);
    printf(") -> %g, Errmsg: %s\n", r, al.Errmsg ? al.Errmsg : "(none)");
    if (bad == 1) printf("VIOLATED: no error reported but a NaN is returned\n");
    if (bad == 2) printf("VIOLATED: a GSL function returned failure status %d (%s) to the binding, which returned %g without an error message\n",
                         g_last_status, gsl_strerror(g_last_status), r);
    else if (verbose && g_gsl_errors && !al.Errmsg) printf("note: GSL's error handler was invoked (gsl_errno %d: %s)\n", g_gsl_errno, g_gsl_reason.c_str());
    if (!al.Errmsg) {
      for (int i = 0; al.derivs && i < n; ++i) printf("  d[%d] = %.17g\n", i, derivs[i]);
      for (int i = 0; al.hes && i < n * (n + 1) / 2; ++i) printf("  h[%d] = %.17g\n", i, hes[i]);
    }
  }
  return bad ? 1 : 0;
}

static double num(const char *s) { return !strcmp(s, "nan") ? NAN : strtod(s, 0); }

int main(int argc, char **argv) {
  if (argc < 3) return 2;
  memset(&ae, 0, sizeof ae); ae.Addfunc = add; ae.Tempmem = tempmem; ae.SnprintF = snprintf; ae.VsnprintF = vsnprintf; ae.AtReset = atreset;
  funcadd_ASL(&ae);
  gsl_set_error_handler(on_gsl_error);
  if (!strcmp(argv[1], "sweep")) {
    if (argc < 4 || !funcs.count(argv[2])) { printf("unknown function\n"); return 2; }
    const char *name = argv[2]; int n = atoi(argv[3]);
    if (argc >= 4 + n) {
      std::vector<double> pt; for (int i = 0; i < n; ++i) pt.push_back(num(argv[4 + i]));
      for (int mode = 0; mode < 3; ++mode) if (call(name, mode, pt, false)) return 10;
    }
    static const double V[] = {0, 1, -1, 0.5, 2, 3, -2, 10, 1e-3, -0.5, 100};
    const int NV = sizeof V / sizeof *V;
    long total = 1; bool full = true;
    for (int i = 0; i < n; ++i) { total *= NV; if (total > 30000) { full = false; break; } }
    std::vector<double> a(n);
    if (full) {
      for (long c = 0; c < total; ++c) {
        long t = c; for (int i = 0; i < n; ++i) { a[i] = V[t % NV]; t /= NV; }
        for (int mode = 0; mode < 3; ++mode) if (call(name, mode, a, false)) return 10;
      }
    } else {
      unsigned long long s = 88172645463325252ULL;
      for (long c = 0; c < 30000; ++c) {
        for (int i = 0; i < n; ++i) { s ^= s << 13; s ^= s >> 7; s ^= s << 17; a[i] = V[s % NV]; }
        for (int mode = 0; mode < 3; ++mode) if (call(name, mode, a, false)) return 10;
      }
    }
    printf("sweep of %s: no violation among the probe points\n", name);
    return 0;
  }
  if (!funcs.count(argv[1])) { printf("unknown function %s\n", argv[1]); return 2; }
  int mode = atoi(argv[2]); int n = argc - 3;
  std::vector<double> ra(n);
  for (int i = 0; i < n; ++i) ra[i] = num(argv[3 + i]);
  return call(argv[1], mode, ra, true) ? 10 : 0;
}
