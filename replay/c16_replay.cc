// Native replay for C16: the real src/gsl/amplgsl.cc (compiled with the funcadd.h stub and linked with libgsl)
// registered through funcadd_ASL; calls one binding with given arguments and request mode under ASan/UBSan.
// usage: c16_replay <function> <mode: 0 value, 1 derivs, 2 derivs+hes> <arg>...       (arg "nan" allowed)
//   exit 10 = no error message but NaN in the value or in a requested derivative
#include <cstdio>
#include <cstdlib>
#include <cstring>
#include <cmath>
#include <cstdarg>
#include <map>
#include <string>
#include <vector>
#include "funcadd.h"
extern "C" void funcadd_ASL(AmplExports *ae);
static std::map<std::string, rfunc> funcs; static std::map<std::string, int> arity;
static void add(const char *name, rfunc f, int, int nargs, void *, AmplExports *) { funcs[name] = f; arity[name] = nargs; }
static std::vector<void *> blocks;
static void atreset(AmplExports *, Exitfunc *, void *) {}
static void *tempmem(TMInfo *, size_t n) { void *p = malloc(n); blocks.push_back(p); return p; }
int main(int argc, char **argv) {
  if (argc < 3) return 2;
  AmplExports ae; memset(&ae, 0, sizeof ae); ae.Addfunc = add; ae.Tempmem = tempmem; ae.SnprintF = snprintf; ae.VsnprintF = vsnprintf; ae.AtReset = atreset;
  funcadd_ASL(&ae);
  if (!funcs.count(argv[1])) { printf("unknown function %s\n", argv[1]); return 2; }
  int mode = atoi(argv[2]); int n = argc - 3;
  std::vector<double> ra(n), derivs(n, 0.0), hes(n * (n + 1) / 2 + 1, 0.0);
  for (int i = 0; i < n; ++i) ra[i] = !strcmp(argv[3 + i], "nan") ? NAN : strtod(argv[3 + i], 0);
  arglist al; memset(&al, 0, sizeof al); al.n = al.nr = n; al.ra = ra.data(); al.AE = &ae; al.funcinfo = argv[1];
  if (mode >= 1) al.derivs = derivs.data();
  if (mode >= 2) al.hes = hes.data();
  double r = funcs[argv[1]](&al);
  printf("%s -> %g, Errmsg: %s\n", argv[1], r, al.Errmsg ? al.Errmsg : "(none)");
  int bad = 0;
  if (!al.Errmsg) {
    if (std::isnan(r)) bad = 1;
    if (al.derivs) for (int i = 0; i < n; ++i) if (std::isnan(derivs[i])) bad = 1;
    if (al.hes) for (int i = 0; i < n * (n + 1) / 2; ++i) if (std::isnan(hes[i])) bad = 1;
    if (bad) printf("VIOLATED: no error reported but a NaN is returned\n");
    for (int i = 0; al.derivs && i < n; ++i) printf("  d[%d] = %.17g\n", i, derivs[i]);
    for (int i = 0; al.hes && i < n * (n + 1) / 2; ++i) printf("  h[%d] = %.17g\n", i, hes[i]);
  }
  return bad ? 10 : 0;
}
