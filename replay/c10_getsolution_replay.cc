// Native replay driver (C10:known-infeasible-mark), adapted from the demonstration of seeded change M65-C10-known-infeasible-flag-inf-or-unb: an oracle sweep over the REAL code;
// exit 0 = everything as the property says, exit 1 = a discrepancy (printed).  Built by vp/native.py against VP_REPO's working tree.
// Demonstration for property C10 (solve-result codes are classified as
// documented), use site FlatBackend<>::GetSolution() in
// include/mp/flat/backend_flat.h.
//
// FlatBackend<>::GetSolution() tells the value postsolver (and through it the
// MP solution checker) whether the result is "known infeasible". According to
// the documented ranges this is the case exactly for solve codes 200-299.
// When the flag is set, the automatic solution check is skipped
// (SolutionChecker::CheckSolution returns at once unless sol:chk:infeas).
//
// The demo instantiates the real FlatBackend<> over a minimal base backend
// whose range predicates are those of StdBackend, runs GetSolution() for every
// code -200..999 x presence/absence of primal, dual and objective values,
// and compares the flag received by the postsolver with the documented range.
//
// Build (from the worktree root):
//   g++ -std=c++17 -DMP_DATE=20240320 -Iinclude demo.cc _build/lib/libmp.a \
//       -o demo && ./demo
// Exit code 0: all as documented. Non-zero: prints the offending codes.

#include <cstdio>
#include <vector>

#include "mp/flat/backend_flat.h"

namespace {

using mp::pre::VCString;    // for LIST_PRESOLVE_METHODS

/// Minimal base backend: status + the StdBackend range predicates
/// (copied verbatim from include/mp/backend-std.h, without asserts).
class BaseBackend {
public:
  virtual ~BaseBackend() = default;

  virtual mp::Solution GetSolution() = 0;
  virtual mp::ArrayRef<double> GetObjectiveValues() = 0;
  virtual mp::SensRanges GetSensRanges() = 0;

  int SolveCode() const { return code_; }
  void SetCode(int c) { code_ = c; }

  bool IsProblemSolved() const {
    return mp::sol::SOLVED<=SolveCode()
        && SolveCode()<=mp::sol::SOLVED_LAST;
  }
  bool IsProblemIndiffInfOrUnb() const {
    return mp::sol::LIMIT_INF_UNB<=SolveCode()
        && SolveCode()<=mp::sol::LIMIT_INF_UNB_LAST;
  }
  bool IsProblemInfOrUnb() const {
    auto sc = SolveCode();
    return
        (mp::sol::INFEASIBLE<=sc
         && mp::sol::UNBOUNDED_NO_FEAS_LAST>=sc)
        || IsProblemIndiffInfOrUnb();
  }
  bool IsProblemInfeasible() const {
    auto sc = SolveCode();
    return mp::sol::INFEASIBLE<=sc && mp::sol::INFEASIBLE_LAST>=sc;
  }
  bool IsProblemUnbounded() const {
    auto sc = SolveCode();
    return mp::sol::UNBOUNDED_FEAS<=sc
        && mp::sol::UNBOUNDED_NO_FEAS_LAST>=sc;
  }

private:
  int code_ = mp::sol::NOT_SET;
};

/// Value presolver recording the extra flag of PostsolveSolution()
class RecordingPresolver : public mp::pre::BasicValuePresolver {
public:
  RecordingPresolver(mp::Env& e) : mp::pre::BasicValuePresolver(e) { }

  template <class T>
  static mp::pre::MVOverEl<T> Copy(const mp::pre::MVOverEl<T>& mv) {
    return { mv.GetVarValues(), mv.GetConValues(), mv.GetObjValues() };
  }

#undef PRESOLVE_KIND
#define PRESOLVE_KIND(name, ValType) \
  mp::pre::MVOverEl<ValType> Presolve ## name ( \
      const mp::pre::MVOverEl<ValType> & mv) override \
  { return Copy(mv); } \
  mp::pre::MVOverEl<ValType> Postsolve ## name ( \
      const mp::pre::MVOverEl<ValType> & mv) override \
  { Record ## name (mv.ExtraData()); return Copy(mv); }

  void RecordGenericDbl(void*) { }
  void RecordGenericInt(void*) { }
  void RecordSolution(void* p) { ++n_postsolve_sol_; last_flag_ = (bool)p; }
  void RecordBasis(void*) { }
  void RecordIIS(void*) { }
  void RecordLazyUserCutFlags(void*) { }
  void RecordNames(void*) { }

  LIST_PRESOLVE_METHODS

  void Register(mp::pre::ValueNode* ) override { }
  void Deregister(mp::pre::ValueNode* ) override { }

  int n_postsolve_sol_ = 0;
  bool last_flag_ = false;
};

/// The backend under test: the real FlatBackend<> template
class TestBackend : public mp::FlatBackend<BaseBackend> {
public:
  TestBackend(RecordingPresolver& pre) { SetValuePresolver(&pre); }

  mp::ArrayRef<double> GetObjectiveValues() override { return obj_; }
  mp::ArrayRef<double> PrimalSolution() override { return x_; }
  mp::pre::ValueMapDbl DualSolution() override
  { return y_.empty() ? mp::pre::ValueMapDbl{} : mp::pre::ValueMapDbl{ y_ }; }

  std::vector<double> x_, y_, obj_;
};

}  // namespace


int main() {
  mp::BasicSolver env;
  RecordingPresolver pre(env);
  TestBackend be(pre);

  int n_bad = 0, n_checked = 0;
  int first_bad = 0, last_bad = 0;
  for (int code = -200; code <= 999; ++code) {
    for (int mask = 0; mask < 8; ++mask) {
      be.SetCode(code);
      be.x_ = (mask & 1) ? std::vector<double>{1.0, 2.0}
                         : std::vector<double>{};
      be.y_ = (mask & 2) ? std::vector<double>{0.5}
                         : std::vector<double>{};
      be.obj_ = (mask & 4) ? std::vector<double>{42.0}
                           : std::vector<double>{};
      int n0 = pre.n_postsolve_sol_;
      mp::Solution sol = be.GetSolution();
      ++n_checked;
      if (pre.n_postsolve_sol_ != n0+1) {
        std::printf("code %d: PostsolveSolution not called once\n", code);
        return 2;
      }
      /// What was handed over must come back
      if (sol.primal.size() != be.x_.size()
          || sol.dual.size() != be.y_.size()
          || sol.objvals.size() != be.obj_.size()) {
        std::printf("code %d, mask %d: solution sizes changed\n", code, mask);
        return 2;
      }
      /// Documented: infeasible <=> 200..299
      bool documented_infeasible = (200<=code && code<=299);
      if (pre.last_flag_ != documented_infeasible) {
        if (!n_bad++)
          first_bad = code;
        last_bad = code;
        if (n_bad <= 5 || (mask==0 && (code%50)==0))
          std::printf(
                "WRONG: solve code %d (primal %s, dual %s, obj %s): "
                "postsolver / solution checker told 'known infeasible' = %d, "
                "documented classification says %d\n",
                code, (mask&1)?"yes":"no", (mask&2)?"yes":"no",
                (mask&4)?"yes":"no",
                (int)pre.last_flag_, (int)documented_infeasible);
      }
    }
  }
  if (n_bad) {
    std::printf("%d of %d cases wrong, codes between %d and %d: "
                "results which are not in the documented infeasible range "
                "200-299 are passed on as 'known infeasible', so the "
                "automatic solution check is skipped for them.\n",
                n_bad, n_checked, first_bad, last_bad);
    return 1;
  }
  std::printf("OK: %d cases, 'known infeasible' flag set exactly "
              "for codes 200-299.\n", n_checked);
  return 0;
}
