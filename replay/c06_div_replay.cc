// Native replay for C06 (c): DivConstraint result box over 8281 numerator/denominator boxes against brute force on a grid, through the real
// ConstraintPreprocessors over a real FlatModel.  Adapted from the demonstration of the seeded change M40 (independent sub-agent).
// exit != 0 = a reachable quotient is cut off.
// Demo for C06: result bounds of DivConstraint (x / y) must contain every
// quotient reachable when x and y range over their own domains.
// Sweeps all sign patterns of numerator / denominator boxes and checks the
// inferred result box against brute force over sample points.
#include <cstdio>
#include <cmath>
#include <vector>

#include "mp/flat/converter_model.h"
#include "mp/flat/expr_bounds.h"
#include "mp/flat/constr_prepro.h"
#include "mp/flat/constr_std.h"
#include "mp/flat/preprocess.h"

struct M : mp::BoundComputations<M>, mp::ConstraintPreprocessors<M> {
  mp::FlatModel<> mdl;
  mp::FlatModel<>& GetModel() { return mdl; }
  const mp::FlatModel<>& GetModel() const { return mdl; }
  double lb(int v) const { return mdl.lb(v); }
  double ub(int v) const { return mdl.ub(v); }
  mp::var::Type var_type(int v) const { return mdl.var_type(v); }
  bool is_fixed(int v) const { return mdl.is_fixed(v); }
  double fixed_value(int v) const { return mdl.fixed_value(v); }
  static constexpr double PracticallyInf() { return 1e20; }
  static constexpr double PracticallyMinusInf() { return -1e20; }
  static constexpr double Infty() { return INFINITY; }
  static constexpr double MinusInfty() { return -INFINITY; }
};

int main() {
  const std::vector<double> pts
    { -8, -4, -3, -2, -1, -0.5, 0, 0.5, 1, 2, 3, 4, 8 };
  int nbad = 0, nchecked = 0;
  const int NS = 16;
  for (double l1: pts) for (double u1: pts) if (l1<=u1)
  for (double l2: pts) for (double u2: pts) if (l2<=u2) {
    M m;
    int x = m.mdl.AddVar__basic(l1, u1, mp::var::CONTINUOUS);
    int y = m.mdl.AddVar__basic(l2, u2, mp::var::CONTINUOUS);
    mp::DivConstraint c({x, y});
    mp::PreprocessInfo<mp::DivConstraint> p;
    m.PreprocessConstraint(c, p);
    ++nchecked;
    if (p.is_result_var_known()) {
      std::printf("FAIL: x in [%g,%g] / y in [%g,%g]: "
                  "replaced by a variable\n", l1, u1, l2, u2);
      ++nbad;
      continue;
    }
    bool bad = false;
    for (int i=0; i<=NS && !bad; ++i) {
      double xv = l1 + (u1-l1)*i/NS;
      for (int j=0; j<=NS && !bad; ++j) {
        double yv = l2 + (u2-l2)*j/NS;
        if (0.0==yv)
          continue;
        double q = xv / yv;
        double tol = 1e-9 * (1.0 + std::fabs(q));
        if (q < p.lb()-tol || q > p.ub()+tol) {
          std::printf("FAIL: x in [%g,%g] / y in [%g,%g]: result box "
                      "[%.17g, %.17g] (type %s) cuts off %g / %g = %.17g\n",
                      l1, u1, l2, u2, p.lb(), p.ub(),
                      mp::var::INTEGER==p.get_result_type() ? "int" : "cont",
                      xv, yv, q);
          bad = true;
        }
      }
    }
    if (bad)
      ++nbad;
  }
  // Integer arguments: quotient generally fractional, must stay continuous
  {
    M m;
    int x = m.mdl.AddVar__basic(-4, -2, mp::var::INTEGER);
    int y = m.mdl.AddVar__basic(-4, -1, mp::var::INTEGER);
    mp::DivConstraint c({x, y});
    mp::PreprocessInfo<mp::DivConstraint> p;
    m.PreprocessConstraint(c, p);
    ++nchecked;
    if (mp::var::INTEGER==p.get_result_type()) {
      std::printf("FAIL: int x / int y declared integer\n");
      ++nbad;
    }
    for (int xv=-4; xv<=-2; ++xv)
      for (int yv=-4; yv<=-1; ++yv) {
        double q = (double)xv/yv;
        if (q < p.lb()-1e-9 || q > p.ub()+1e-9) {
          std::printf("FAIL: int x in [-4,-2] / int y in [-4,-1]: result box "
                      "[%.17g, %.17g] cuts off %d / %d = %.17g\n",
                      p.lb(), p.ub(), xv, yv, q);
          ++nbad;
        }
      }
  }
  std::printf("%d domain combinations checked, %d violating\n",
              nchecked, nbad);
  return nbad ? 1 : 0;
}
