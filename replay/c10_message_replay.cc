// Native replay for C10 (solve message): the real mp::StdBackend::ReportSolution2AMPL through a minimal backend, for every solve code
// -199..999 and every presence combination of primal / dual / objective: classification predicates, the code handed to the .sol
// writer, and 'the objective is mentioned exactly when a solution candidate is indicated and an objective value exists'.
// (adapted from the demonstration of seeded change M56)  exit 1 = a discrepancy
#include <cstdio>
#include <string>
#include <vector>

#include "mp/backend-std.h"

namespace {

class DemoBackend : public mp::StdBackend<DemoBackend> {
public:
  mp::Solution sol_;
  int got_status_ = -12345;
  std::string got_msg_;
  bool got_x_ = false, got_y_ = false;
  int n_calls_ = 0;

  mp::Solution GetSolution() override { return sol_; }
  mp::ArrayRef<double> GetObjectiveValues() override { return sol_.objvals; }
  bool IsMIP() const override { return false; }
  void Solve() override { }
  void SetInterrupter(mp::Interrupter*) override { }
  static double Infinity() { return INFINITY; }
  static double MinusInfinity() { return -INFINITY; }

  /// Capture what would be sent to the .sol writer
  void HandleSolution(int status, fmt::CStringRef msg,
                      const double *x, const double *y, double ) override {
    ++n_calls_;
    got_status_ = status;
    got_msg_ = msg.c_str();
    got_x_ = x;
    got_y_ = y;
  }

  void Report(int code) {
    SetStatus( { code, "status text" } );
    ReportSolution2AMPL();
  }

  bool Solved() const { return IsProblemSolved(); }
  bool SolvedOrFeas() const { return IsProblemSolvedOrFeasible(); }
  bool Infeas() const { return IsProblemInfeasible(); }
  bool Unbnd() const { return IsProblemUnbounded(); }
  bool Indiff() const { return IsProblemIndiffInfOrUnb(); }
  bool InfOrUnb() const { return IsProblemInfOrUnb(); }
};

bool In(int c, int a, int b) { return a<=c && c<=b; }

int n_err = 0;

void Fail(const std::string& s) {
  if (++n_err <= 12)
    std::printf("FAIL: %s\n", s.c_str());
}

}  // namespace

int main() {
  for (int code = -199; code <= 999; ++code) {
    for (int mask = 0; mask < 8; ++mask) {
      const bool hasX = mask & 1, hasY = mask & 2, hasObj = mask & 4;
      DemoBackend be;
      if (hasX) be.sol_.primal = { 1.5, 2.5 };
      if (hasY) be.sol_.dual = { 0.25 };
      if (hasObj) be.sol_.objvals = { 42.125 };
      be.Report(code);

      char where[160];
      std::snprintf(where, sizeof(where),
                    "code %d, primal %s, dual %s, objective %s",
                    code, hasX ? "present" : "absent",
                    hasY ? "present" : "absent",
                    hasObj ? "present" : "absent");

      // Classification
      if (be.Solved() != In(code, 0, 99))
        Fail(std::string("IsProblemSolved wrong: ") + where);
      bool candidate = In(code, 0, 99) || In(code, 300, 349)
          || In(code, 400, 449);
      if (be.SolvedOrFeas() != candidate)
        Fail(std::string("IsProblemSolvedOrFeasible wrong: ") + where);
      if (be.Infeas() != In(code, 200, 299))
        Fail(std::string("IsProblemInfeasible wrong: ") + where);
      if (be.Unbnd() != In(code, 300, 399))
        Fail(std::string("IsProblemUnbounded wrong: ") + where);
      if (be.Indiff() != In(code, 450, 469))
        Fail(std::string("IsProblemIndiffInfOrUnb wrong: ") + where);
      if (be.InfOrUnb() != (In(code, 200, 399) || In(code, 450, 469)))
        Fail(std::string("IsProblemInfOrUnb wrong: ") + where);

      // What reaches the .sol writer
      if (1 != be.n_calls_)
        Fail(std::string("HandleSolution not called exactly once: ") + where);
      if (be.got_status_ != code)
        Fail(std::string("code sent to .sol is ")
             + std::to_string(be.got_status_) + ": " + where);
      if (be.got_x_ != hasX || be.got_y_ != hasY)
        Fail(std::string("primal/dual presence altered: ") + where);

      // Solve message
      bool mentions = std::string::npos != be.got_msg_.find("objective 42.125");
      bool expected = candidate && hasObj;
      if (mentions != expected)
        Fail(std::string("solve message ")
             + (mentions ? "mentions" : "does NOT mention")
             + " the objective, expected the opposite: " + where
             + "; message: \"" + be.got_msg_ + "\"");
    }
  }
  if (n_err) {
    std::printf("%d discrepancies in total\n", n_err);
    return 1;
  }
  std::printf("OK: all codes -199..999 x 8 presence combinations "
              "classified and reported as documented\n");
  return 0;
}
