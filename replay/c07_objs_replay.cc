// Native replay driver (C07: objective value check), adapted from the demonstration of a seeded change (round 10): an oracle sweep over the REAL
// mp::SolutionChecker::CheckSolution through a stand-in converter; exit 0 = as the property says, exit 1 = a discrepancy (printed).
// Demonstration for property C07 (automatic solution check):
// the objective value recomputed at the candidate point is compared
// with the value reported by the solver, using the ABSOLUTE tolerance
// sol:chk:feastol and the RELATIVE tolerance sol:chk:feastolrel.
//
// The real mp::SolutionChecker<Impl> mix-in is driven through a small
// stand-in converter (the same CRTP interface FlatConverter offers).
// Model: 1 variable x in [0, 1e6], objective  maximize x  (name "Obj").
//
// Build:
//   g++ -std=c++17 -I include demo.cc _build/lib/libmp.a -o demo
#include <cmath>
#include <cstdio>
#include <string>
#include <vector>

#include "mp/flat/sol_check.h"
#include "mp/flat/obj_std.h"

namespace {

struct DemoModel {
  std::vector<mp::var::Type> type_ { mp::var::CONTINUOUS };
  std::vector<double> lb_ { 0.0 }, ub_ { 1e6 };
  std::vector<mp::QuadraticObjective> objs_;
  DemoModel() {
    objs_.push_back(
          mp::QuadraticObjective{
            mp::LinearObjective{ mp::obj::MAX,
                                 std::vector<double>{1.0},
                                 std::vector<int>{0}, "Obj" },
            mp::QuadTerms{} });
  }
  const std::vector<mp::var::Type>& var_type_vec() const { return type_; }
  const std::vector<double>& var_lb_vec() const { return lb_; }
  const std::vector<double>& var_ub_vec() const { return ub_; }
  const std::vector<mp::QuadraticObjective>& get_objectives() const
  { return objs_; }
  const char* var_name(int ) const { return "x"; }
  void ComputeViolations(mp::SolCheck& ) { }   // no constraints
};

struct DemoEnv {
  const char* GetSolCheckWarningKey(bool ) const { return "SolCheck"; }
};

/// Never used: the model has no auxiliary variables
struct DemoCK {
  int GetResultVar(int ) const { return -1; }
  bool IsUnused(int ) const { return true; }
  double ComputeValue(int , const mp::VarInfoRecomp& ) { return 0.0; }
};
struct DemoInitExpr {
  DemoCK* GetCK() const { return nullptr; }
  int GetIndex() const { return 0; }
};

class DemoConverter : public mp::SolutionChecker<DemoConverter> {
public:
  // options
  int mode_ = 16;                 // sol:chk:mode: objective values only
  bool fail_ = false;             // sol:chk:fail
  double feastol_ = 1e-6;         // sol:chk:feastol
  double feastolrel_ = 1e-6;      // sol:chk:feastolrel

  int sol_check_mode() const { return mode_; }
  bool sol_check_infeas() const { return false; }
  bool sol_check_fail() const { return fail_; }
  double sol_feas_tol() const { return feastol_; }
  double sol_feas_tol_rel() const { return feastolrel_; }
  double sol_int_tol() const { return 1e-5; }
  int sol_round() const { return 100; }
  int sol_prec() const { return 100; }

  DemoModel& GetModel() { return model_; }
  const DemoModel& GetModel() const { return model_; }
  DemoEnv& GetEnv() { return env_; }
  int num_vars() const { return 1; }
  bool is_var_original(int ) const { return true; }
  bool is_var_integer(int ) const { return false; }
  double lb(int i) const { return model_.lb_[i]; }
  double ub(int i) const { return model_.ub_[i]; }
  bool HasInitExpression(int ) const { return false; }
  DemoInitExpr GetInitExpression(int ) const { return {}; }
  void AddWarning(std::string , std::string msg, bool =false)
  { warning_ = std::move(msg); }

  std::string warning_;
private:
  DemoModel model_;
  DemoEnv env_;
};

int n_bad = 0;

/// Expected outcome straight from the documented rule:
/// violated iff |reported-true| > epsabs and
///   (true==0 or |reported-true|/|true| > epsrel)
bool ExpectViolated(double x, double reported,
                    double epsabs, double epsrel) {
  double d = std::fabs(reported - x);
  return d > epsabs && (0.0==x || d/std::fabs(x) > epsrel);
}

/// One scenario, without and with sol:chk:fail
void Run(const char* what, double x, double reported,
         double epsabs, double epsrel, int mode) {
  bool expect = ExpectViolated(x, reported, epsabs, epsrel);
  for (int fail=0; fail<2; ++fail) {
    DemoConverter cvt;
    cvt.mode_ = mode;
    cvt.fail_ = fail;
    cvt.feastol_ = epsabs;
    cvt.feastolrel_ = epsrel;
    std::vector<double> xx {x}, obj {reported};
    bool ok = true;
    int code = 0;
    try {
      ok = cvt.CheckSolution(xx, mp::pre::ValueMapDbl{}, obj, nullptr);
    } catch (const mp::Error& e) {
      ok = false;
      code = e.exit_code();
    }
    bool reported_viol = !ok;
    bool good = (reported_viol == expect);
    if (fail)                // with the fail option: code 150 iff violated
      good = good && (code == (expect ? int(mp::sol::MP_SOLUTION_CHECK) : 0));
    else                     // warning iff violated
      good = good && (cvt.warning_.empty() == !expect);
    std::printf("%-4s %s: mode=%d fail=%d x=%.17g reported obj=%.17g "
                "feastol=%g feastolrel=%g: expected %s, check said %s"
                " (solve code %d)\n",
                good ? "ok" : "BAD", what, mode, fail, x, reported,
                epsabs, epsrel,
                expect ? "VIOLATION" : "no violation",
                reported_viol ? "VIOLATION" : "no violation", code);
    if (!good)
      ++n_bad;
  }
}

}  // namespace

int main() {
  // Default tolerances (both 1e-6): realistic and idealistic bit
  Run("default tolerances, wrong obj", 1000.0, 1000.5, 1e-6, 1e-6, 16);
  Run("default tolerances, wrong obj", 1000.0, 1000.5, 1e-6, 1e-6, 512);
  Run("default tolerances, exact obj", 1000.0, 1000.0, 1e-6, 1e-6, 16);
  Run("default tolerances, tiny diff", 1000.0, 1000.0 + 1e-7, 1e-6, 1e-6, 16);

  // Loose absolute, tight relative tolerance.
  // The reported objective is off by 0.5 (relative 5e-4):
  // above feastol=1e-3 and above feastolrel=1e-9 -> a violation.
  Run("abs 1e-3 / rel 1e-9, off by 0.5", 1000.0, 1000.5, 1e-3, 1e-9, 16);
  Run("abs 1e-3 / rel 1e-9, off by 0.5", 1000.0, 1000.5, 1e-3, 1e-9, 512);
  Run("abs 1e-3 / rel 1e-9, off by 0.5", 1000.0, 1000.5, 1e-3, 1e-9,
      1+2+512);
  // Off by 5e-4: below the absolute tolerance -> no violation.
  Run("abs 1e-3 / rel 1e-9, off by 5e-4", 1000.0, 1000.0005, 1e-3, 1e-9, 16);

  // Tight absolute, loose relative tolerance.
  // Off by 1e-5 at value 1e-3 (relative 1e-2):
  // above feastol=1e-9 and above feastolrel=1e-3 -> a violation.
  Run("abs 1e-9 / rel 1e-3, off by 1e-5", 1e-3, 1e-3 + 1e-5, 1e-9, 1e-3, 16);
  // Off by 0.5 at 1000 (relative 5e-4 < 1e-3) -> no violation.
  Run("abs 1e-9 / rel 1e-3, off by 0.5", 1000.0, 1000.5, 1e-9, 1e-3, 16);

  if (n_bad) {
    std::printf("FAILED: %d scenario(s): the objective check disagrees "
                "with the documented absolute/relative tolerance rule\n",
                n_bad);
    return 1;
  }
  std::printf("all scenarios agree\n");
  return 0;
}
