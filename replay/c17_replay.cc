// Native replay for C17: runs the real mp/safeint.h on the verifier's operands and
// checks "exact when representable, OverflowError otherwise" with __int128.
// usage: c17_replay <add|sub|mul|ctor|abs> <T> <U|-> <a> <b>      exit 1 = property violated
#include <cstdio>
#include <cstdlib>
#include <cstring>
#include <string>
#include <limits>
#include "mp/safeint.h"

typedef __int128 Z;
static Z parse(const char *s) {
  bool neg = *s == '-'; if (neg) ++s;
  unsigned __int128 v = 0;
  for (; *s >= '0' && *s <= '9'; ++s) v = v * 10 + (*s - '0');
  return neg ? -(Z)v : (Z)v;
}
static std::string str(Z v) {
  if (v == 0) return "0";
  bool neg = v < 0; unsigned __int128 u = neg ? -(unsigned __int128)v : v;
  std::string s; while (u) { s.insert(s.begin(), char('0' + (int)(u % 10))); u /= 10; }
  return neg ? "-" + s : s;
}
template <typename T> static bool fits(Z v) {
  return v >= (Z)std::numeric_limits<T>::min() && v <= (Z)std::numeric_limits<T>::max();
}
static int verdict(bool threw, Z got, Z exact, bool representable) {
  if (representable && threw) { printf("VIOLATED: exact result %s is representable but OverflowError was raised\n", str(exact).c_str()); return 1; }
  if (!representable && !threw) { printf("VIOLATED: exact result %s is not representable but %s was returned\n", str(exact).c_str(), str(got).c_str()); return 1; }
  if (!threw && got != exact) { printf("VIOLATED: returned %s, exact result %s\n", str(got).c_str(), str(exact).c_str()); return 1; }
  printf("ok (%s)\n", threw ? "OverflowError" : str(got).c_str());
  return 0;
}
template <typename T> static int binop(const char *op, Z a, Z b) {
  if (!fits<T>(a) || !fits<T>(b)) { printf("operand outside T\n"); return 0; }
  Z exact = !strcmp(op, "add") ? a + b : !strcmp(op, "sub") ? a - b : a * b;
  bool threw = false; Z got = 0;
  try {
    mp::SafeInt<T> x((T)a), y((T)b);
    if (!strcmp(op, "add")) got = val(x + y); else if (!strcmp(op, "sub")) got = val(x - y); else got = val(x * y);
  } catch (const mp::OverflowError &) { threw = true; }
  return verdict(threw, got, exact, fits<T>(exact));
}
template <typename T, typename U> static int ctor(Z a) {
  if (!fits<U>(a)) { printf("operand outside U\n"); return 0; }
  bool threw = false; Z got = 0;
  try { mp::SafeInt<T> x((U)a); got = val(x); } catch (const mp::OverflowError &) { threw = true; }
  return verdict(threw, got, a, fits<T>(a));
}
template <typename T> static int abs_(Z a) {
  Z got = mp::SafeAbs((T)a); Z exact = a < 0 ? -a : a;
  return verdict(false, got, exact, true);
}
// mixed forms: SafeInt<T> op U (left) and U op SafeInt<T> (right): exact in Z or OverflowError
template <typename T, typename U> static int mixed(const char *op, bool left, Z a, Z b) {
  Z sa = left ? a : b, pu = left ? b : a;          // the SafeInt operand and the plain operand
  if (!fits<T>(sa) || !fits<U>(pu)) { printf("operand outside its type\n"); return 0; }
  Z exact = !strcmp(op, "add") ? a + b : !strcmp(op, "sub") ? a - b : a * b;
  bool threw = false; Z got = 0;
  try {
    mp::SafeInt<T> x((T)sa); U y = (U)pu;
    if (left) { if (!strcmp(op, "add")) got = val(x + y); else if (!strcmp(op, "sub")) got = val(x - y); else got = val(x * y); }
    else { if (!strcmp(op, "add")) got = val(y + x); else if (!strcmp(op, "sub")) got = val(y - x); else got = val(y * x); }
  } catch (const mp::OverflowError &) { threw = true; }
  return verdict(threw, got, exact, fits<T>(exact) && fits<T>(pu));   // the plain operand itself must be representable in T (it is converted first)
}
template <typename T> static int mixed_u(const std::string &U_, const char *op, bool left, Z a, Z b) {
  if (U_ == "int") return mixed<T, int>(op, left, a, b);
  if (U_ == "unsigned") return mixed<T, unsigned>(op, left, a, b);
  if (U_ == "long") return mixed<T, long long>(op, left, a, b);
  if (U_ == "ulong") return mixed<T, unsigned long long>(op, left, a, b);
  if (U_ == "size_t") return mixed<T, std::size_t>(op, left, a, b);
  return 2;
}
#define DISPATCH_T(T_, expr) \
  if (T_ == "int") { typedef int T; return expr; } \
  if (T_ == "unsigned") { typedef unsigned T; return expr; } \
  if (T_ == "long") { typedef long long T; return expr; } \
  if (T_ == "ulong") { typedef unsigned long long T; return expr; } \
  if (T_ == "size_t") { typedef std::size_t T; return expr; }
template <typename T> static int ctor_u(const std::string &U_, Z a) {
  if (U_ == "int") return ctor<T, int>(a);
  if (U_ == "unsigned") return ctor<T, unsigned>(a);
  if (U_ == "long") return ctor<T, long long>(a);
  if (U_ == "ulong") return ctor<T, unsigned long long>(a);
  if (U_ == "size_t") return ctor<T, std::size_t>(a);
  return 2;
}
int main(int argc, char **argv) {
  if (argc < 6) return 2;
  std::string op = argv[1], T_ = argv[2], U_ = argv[3];
  Z a = parse(argv[4]), b = parse(argv[5]);
  if (op == "ctor") { DISPATCH_T(T_, ctor_u<T>(U_, a)); return 2; }
  if (op == "abs") { DISPATCH_T(T_, abs_<T>(a)); return 2; }
  if (argc > 6 && (!strcmp(argv[6], "L") || !strcmp(argv[6], "R"))) { bool left = argv[6][0] == 'L'; DISPATCH_T(T_, mixed_u<T>(U_, op.c_str(), left, a, b)); return 2; }
  DISPATCH_T(T_, binop<T>(op.c_str(), a, b));
  return 2;
}
