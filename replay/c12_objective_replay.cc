// Native replay driver (C12:objective-reaching-the-converter), adapted from the demonstration of seeded change M51-C12-negative-obj-constant-dropped: an oracle sweep over the REAL code;
// exit 0 = everything as the property says, exit 1 = a discrepancy (printed).  Built by vp/native.py against VP_REPO's working tree.
// Demonstration for property C12: the model delivered to the solver must
// contain exactly the selected objective - sense, linear part, CONSTANT and
// nonlinear part.
//
// An NL text with two objectives
//   obj 1: minimize   x +  y + 4
//   obj 2: maximize 2*x + 3*y - 7
// is read with objno = 1, objno = 2 and with multiobj on, flattened by
// ProblemFlattener / FlatConverter, and every objective that reaches the
// flat model (the one pushed to the solver's ModelAPI) is evaluated at the
// point (x, y) = (1, 2). Constant terms are carried by fixed variables, so
// they are evaluated at their (fixed) bounds.
//
// Exit code 0: all objectives delivered faithfully; non-zero otherwise.

#include <cmath>
#include <cstdio>
#include <string>
#include <vector>

#include "mp/nl-reader.h"
#include "mp/problem.h"
#include "mp/flat/model_api_base.h"
#include "mp/flat/problem_flattener.h"
#include "mp/flat/converter.h"

namespace {

/// A minimal ModelAPI: records what the "solver" receives.
class DemoModelAPI : public mp::BasicFlatModelAPI {
  using Base = mp::BasicFlatModelAPI;
public:
  DemoModelAPI() { }
  DemoModelAPI(mp::Env& ) { }
  static constexpr const char* GetTypeName() { return "demo"; }

  void AddVariables(const mp::VarArrayDef& v) {
    lbs_.assign(v.plb(), v.plb()+v.size());
    ubs_.assign(v.pub(), v.pub()+v.size());
  }
  void SetLinearObjective(int i, const mp::LinearObjective& lo) {
    if ((int)objs_.size()<=i)
      objs_.resize(i+1, mp::LinearObjective(mp::obj::MIN, {}, {}));
    objs_[i] = lo;
  }

  USE_BASE_CONSTRAINT_HANDLERS(Base)
  ACCEPT_CONSTRAINT(mp::LinConEQ, mp::Recommended, mp::CG_Default)
  void AddConstraint(const mp::LinConEQ& ) { }

  std::vector<double> lbs_, ubs_;
  std::vector<mp::LinearObjective> objs_;
};

using Interface =
  mp::ProblemFltImpl<mp::ProblemFlattener, mp::Problem,
    mp::FlatCvtImpl<mp::FlatConverter, DemoModelAPI> >;

/// NL handler which selects objectives like SolverNLHandler does
class SelectingNLHandler
    : public mp::internal::NLProblemBuilder<mp::Problem> {
  int objno_;
  bool multiobj_;
public:
  SelectingNLHandler(mp::Problem& p, int objno, bool multiobj)
    : mp::internal::NLProblemBuilder<mp::Problem>(p),
      objno_(objno), multiobj_(multiobj) { }
  int objno() const override { return objno_; }
  bool multiobj() const override { return multiobj_; }
};

const char* const NL_TEXT =
  "g3 1 1 0\n"
  " 2 0 2 0 0\n"
  " 0 0\n"
  " 0 0\n"
  " 0 0 0\n"
  " 0 0 0 1\n"
  " 0 0 0 0 0\n"
  " 0 4\n"
  " 0 0\n"
  " 0 0 0 0 0\n"
  "O0 0\n"
  "n4\n"
  "O1 1\n"
  "n-7\n"
  "b\n"
  "0 0 10\n"
  "0 0 10\n"
  "k1\n"
  "0\n"
  "G0 2\n"
  "0 1\n"
  "1 1\n"
  "G1 2\n"
  "0 2\n"
  "1 3\n";

struct Expected { mp::obj::Type sense; double value; };

/// Evaluate a delivered objective at (x, y) = (1, 2).
/// Returns NaN if it refers to a non-fixed auxiliary variable.
double Eval(const DemoModelAPI& api, const mp::LinearObjective& lo) {
  const double pt[] = {1.0, 2.0};
  double s = 0.0;
  for (size_t i=0; i<lo.vars().size(); ++i) {
    int v = lo.vars()[i];
    double x;
    if (v<2)
      x = pt[v];
    else if (api.lbs_.at(v)==api.ubs_.at(v))
      x = api.lbs_[v];
    else
      return NAN;
    s += lo.coefs()[i] * x;
  }
  return s;
}

int RunCase(const char* descr, int objno, bool multiobj,
            const std::vector<Expected>& expected) {
  mp::Env env;
  Interface interface(env);
  SelectingNLHandler h(interface.GetModel(), objno, multiobj);
  mp::ReadNLString(NL_TEXT, h, "(demo)");
  interface.ConvertModel();
  const DemoModelAPI& api = interface.GetFlatCvt().GetModelAPI();
  int bad = 0;
  if (api.objs_.size() != expected.size()) {
    std::printf("FAIL [%s]: %d objective(s) delivered, expected %d\n",
                descr, (int)api.objs_.size(), (int)expected.size());
    return 1;
  }
  for (size_t i=0; i<expected.size(); ++i) {
    const auto& lo = api.objs_[i];
    double val = Eval(api, lo);
    if (lo.obj_sense() != expected[i].sense) {
      std::printf("FAIL [%s]: objective %d has wrong sense\n", descr, (int)i+1);
      ++bad;
    }
    if (!(std::fabs(val - expected[i].value) < 1e-9)) {
      std::printf("FAIL [%s]: delivered objective %d evaluates to %g at "
                  "(x,y)=(1,2), the NL file's objective gives %g "
                  "(difference %g - the constant term)\n",
                  descr, (int)i+1, val, expected[i].value,
                  val - expected[i].value);
      ++bad;
    } else
      std::printf("ok   [%s]: delivered objective %d = %g at (1,2)\n",
                  descr, (int)i+1, val);
  }
  return bad;
}

}  // namespace

int main() {
  // obj 1 at (1,2): 1 + 2 + 4 = 7;  obj 2 at (1,2): 2 + 6 - 7 = 1
  const Expected o1 = {mp::obj::MIN, 7.0};
  const Expected o2 = {mp::obj::MAX, 1.0};
  int bad = 0;
  bad += RunCase("objno=1", 1, false, {o1});
  bad += RunCase("objno=2", 2, false, {o2});
  bad += RunCase("multiobj", 1, true, {o1, o2});
  bad += RunCase("objno=0", 0, false, {});
  if (bad) {
    std::printf("%d check(s) failed\n", bad);
    return 1;
  }
  std::printf("all objectives delivered faithfully\n");
  return 0;
}
