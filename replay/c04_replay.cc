// Native replay for C04: (1) the real ValueNode::SetNum conflict rule over permutations of value sequences, (2) a small conversion graph
// built from the real pre::ValuePresolver, pre::CopyLink and pre::RangeLinCon2Slack: IIS, basis, solution, generic suffix and lazy-flag
// transfers are compared with the documented slack mapping.  Adapted from the demonstrations of the seeded changes M12 and M27
// (written by independent sub-agents from the property text).   usage: c04_replay [setnum|graph|all]    exit 10 = a transfer differs
#include <cstring>
#include <algorithm>
#include "mp/env.h"
#include "mp/valcvt-node.h"
// Demonstration for property C04 (value transfer through presolve links).
//
// A range constraint  lb <= a'x <= ub  (lb<ub, both finite) is passed to a
// solver without native range rows as   a'x + s = ub,  0 <= s <= ub-lb
// and linked by pre::RangeCon2Slack (range_con.h).
// Documented slack mapping for IIS:  s at LOWER bound  <=> range at 'upp',
//                                    s at UPPER bound  <=> range at 'low',
//                                    s fixed           <=> range 'fix',
//                                    s not in IIS      -> row's own flag.
// Basis statuses low/upp are reversed the same way.
//
// The demo builds the small conversion graph
//    src vars --copy--> flat vars (x0,x1 + 3 slacks) --copy--> solver vars
//    src cons --copy--> flat range cons --Range2Slk--> flat eq cons
//                                                      --copy--> solver cons
// and checks all transfers.  Exit 0 iff all are as documented.

#include <cstdio>
#include <vector>
#include <deque>

#include "mp/valcvt.h"
#include "mp/flat/redef/std/range_con.h"
#include "mp/flat/constr_std.h"
#include "mp/common.h"

using namespace mp;

namespace {

struct DemoEnv : BasicSolver {
  DemoEnv() : BasicSolver("demo", "demo", 20240101, 0) { }
};

struct NoLog : BasicLogger {
  bool IsOpen() const override { return false; }
  bool Append(const char*) override { return true; }
};

struct FlatMdl : BasicFlatModel {
  VarBndVec lb, ub;
  const VarBndVec& GetVarLBs() const override { return lb; }
  const VarBndVec& GetVarUBs() const override { return ub; }
};

/// Minimal 'model converter' as needed by RangeCon2Slack
struct MiniMC {
  DemoEnv env;
  NoLog log;
  FlatMdl mdl;
  pre::ValuePresolver vp { mdl, env, log };
  std::deque<LinConRange> ranges;

  pre::ValuePresolver& GetValuePresolver() { return vp; }
  template <class Con>
  const Con& GetConstraint(int i) const { return ranges.at(i); }
};

int n_fail = 0;

template <class T>
void Check(const char* what, const std::vector<T>& got,
           const std::vector<T>& exp) {
  bool ok = got.size()==exp.size();
  for (size_t i=0; ok && i<got.size(); ++i)
    ok = got[i]==exp[i];
  if (!ok) {
    ++n_fail;
    std::printf("MISMATCH in %s:\n   got     :", what);
    for (auto v: got) std::printf(" %g", (double)v);
    std::printf("\n   expected:");
    for (auto v: exp) std::printf(" %g", (double)v);
    std::printf("\n");
  } else
    std::printf("ok: %s\n", what);
}

}  // namespace

static int graph_test() {
  MiniMC mc;
  auto& vp = mc.vp;

  // Three proper ranges  1 <= x0+x1 <= 4,  0 <= x0-x1 <= 2,  -1 <= x0 <= 5
  mc.ranges.push_back(LinConRange{ {{1.0, 1.0}, {0, 1}}, {1.0, 4.0} });
  mc.ranges.push_back(LinConRange{ {{1.0,-1.0}, {0, 1}}, {0.0, 2.0} });
  mc.ranges.push_back(LinConRange{ {{1.0},      {0}   }, {-1.0, 5.0} });
  mc.mdl.lb = {0, 0, 0, 0, 0};
  mc.mdl.ub = {10, 10, 3, 2, 6};        // x0, x1, slacks ub-lb

  // Intermediate (flat model) nodes
  pre::ValueNode n_vars(vp, "flat_vars");
  pre::ValueNode n_rng(vp, "flat_rng");
  pre::ValueNode n_eq(vp, "flat_eq");

  pre::CopyLink cl(vp);
  pre::RangeLinCon2Slack<MiniMC> r2s(mc, { &n_rng, &n_eq, &n_vars });

  auto& src_vars = vp.GetSourceNodes().GetVarValues()();
  auto& src_cons = vp.GetSourceNodes().GetConValues()();
  auto& dst_vars = vp.GetTargetNodes().GetVarValues()();
  auto& dst_cons = vp.GetTargetNodes().GetConValues()();

  // NL -> flat
  cl.AddEntry({ src_vars.Add(2), n_vars.Add(2) });
  cl.AddEntry({ src_cons.Add(3), n_rng.Add(3) });
  // range -> eq + slack
  for (int i=0; i<3; ++i) {
    int slk = n_vars.Add().GetSingleIndex();
    int ieq = n_eq.Add().GetSingleIndex();
    r2s.AddEntry({ i, ieq, slk });
  }
  // flat -> solver
  cl.AddEntry({ n_vars.Select(0, 5), dst_vars.Add(5) });
  cl.AddEntry({ n_eq.Select(0, 3), dst_cons.Add(3) });

  using VI = std::vector<int>;
  using VD = std::vector<double>;
  const int L = (int)IISStatus::low, U = (int)IISStatus::upp,
      F = (int)IISStatus::fix, M = (int)IISStatus::mem, N = 0;

  // ---- IIS, every slack status, row flags not set
  {
    pre::ModelValuesInt mv { VI{N, N, L, U, F}, VI{N, N, N} };
    auto r = vp.PostsolveIIS(mv);
    Check<int>("IIS cons, slacks {low,upp,fix}",
               r.GetConValues()(), VI{U, L, F});
    Check<int>("IIS vars, slacks {low,upp,fix}",
               r.GetVarValues()(), VI{N, N});
  }
  // ---- IIS, slack flag wins over the row's 'mem' flag, each status alone
  {
    pre::ModelValuesInt mv { VI{M, N, U, N, N}, VI{M, M, N} };
    auto r = vp.PostsolveIIS(mv);
    Check<int>("IIS cons, slack0 upp + rows {mem,mem,non}",
               r.GetConValues()(), VI{L, M, N});
    Check<int>("IIS vars, x0 mem", r.GetVarValues()(), VI{M, N});
  }
  {
    pre::ModelValuesInt mv { VI{N, N, N, N, L}, VI{N, M, M} };
    auto r = vp.PostsolveIIS(mv);
    Check<int>("IIS cons, slack2 low + rows {non,mem,mem}",
               r.GetConValues()(), VI{N, M, U});
  }
  // ---- Same graph again: transfers independent of history
  {
    pre::ModelValuesInt mv { VI{N, N, U, U, U}, VI{N, N, N} };
    auto r = vp.PostsolveIIS(mv);
    Check<int>("IIS cons, all slacks upp",
               r.GetConValues()(), VI{L, L, L});
  }

  // ---- Basis
  const int bB = (int)BasicStatus::bas, bL = (int)BasicStatus::low,
      bU = (int)BasicStatus::upp, bE = (int)BasicStatus::equ;
  {
    pre::ModelValuesInt mv { VI{bB, bL, bL, bU, bB}, VI{bE, bE, bE} };
    auto r = vp.PostsolveBasis(mv);
    Check<int>("basis cons (postsolve)", r.GetConValues()(), VI{bU, bL, bB});
    Check<int>("basis vars (postsolve)", r.GetVarValues()(), VI{bB, bL});
  }
  {
    pre::ModelValuesInt mv { VI{bU, bB}, VI{bL, bU, bB} };
    auto r = vp.PresolveBasis(mv);
    Check<int>("basis vars (presolve)",
               r.GetVarValues()(), VI{bU, bB, bU, bL, bB});
    Check<int>("basis cons (presolve)", r.GetConValues()(), VI{bE, bE, bE});
  }

  // ---- Solution: duals copied, primals of originals only
  {
    pre::ModelValuesDbl mv { VD{1.5, 0.5, 2.0, 1.0, 3.5}, VD{-1.0, 0.25, 7.0} };
    auto r = vp.PostsolveSolution(mv);
    Check<double>("duals (postsolve)", r.GetConValues()(), VD{-1.0, 0.25, 7.0});
    Check<double>("primals (postsolve)", r.GetVarValues()(), VD{1.5, 0.5});
  }
  {
    pre::ModelValuesDbl mv { VD{1.5, 0.5}, VD{-1.0, 0.25, 7.0} };
    auto r = vp.PresolveSolution(mv);
    // lower slacks: (2-1), (1-0), (1.5+1)
    Check<double>("primals+slacks (presolve)",
                  r.GetVarValues()(), VD{1.5, 0.5, 1.0, 1.0, 2.5});
    Check<double>("duals (presolve)", r.GetConValues()(), VD{-1.0, 0.25, 7.0});
  }

  // ---- Generic int suffix and lazy flags
  {
    pre::ModelValuesInt mv { VI{0, 0}, VI{3, 0, 5} };
    auto r = vp.PresolveGenericInt(mv);
    Check<int>("generic int cons (presolve)", r.GetConValues()(), VI{3, 0, 5});
    auto r2 = vp.PresolveLazyUserCutFlags(mv);
    Check<int>("lazy flags (presolve)", r2.GetConValues()(), VI{3, 0, 5});
  }

  if (n_fail) {
    std::printf("FAILED: %d transfer(s) differ from the documented mapping\n",
                n_fail);
    return 1;
  }
  std::printf("all transfers as documented\n");
  return 0;
}

namespace setnum {

struct NullLogger : mp::BasicLogger {
  bool IsOpen() const override { return false; }
  bool Append(const char* ) override { return true; }
};

int failures = 0;

/// Expected outcome of sending a sequence of values into one slot:
/// the maximum among the non-zero ones, or 0 if all are 0.
template <class T>
T Expected(const std::vector<T>& seq) {
  bool have = false;
  T r = 0;
  for (T v: seq)
    if (v) {
      r = have ? std::max(r, v) : v;
      have = true;
    }
  return r;
}

template <class T, class Setter, class Getter>
void CheckSeq(mp::pre::ValueNode& node, std::vector<T> seq,
              Setter set, Getter get, const char* kind) {
  std::sort(seq.begin(), seq.end());
  const T exp = Expected(seq);
  do {
    node.CleanUpAndRealloc();
    for (T v: seq)
      set(node, 0, v);
    const T got = get(node, 0);
    if (got != exp) {
      ++failures;
      std::printf("FAIL (%s): sequence [", kind);
      for (T v: seq)
        std::printf(" %g", (double)v);
      std::printf(" ] -> %g, expected %g\n", (double)got, (double)exp);
    }
  } while (std::next_permutation(seq.begin(), seq.end()));
}

}  // namespace setnum

static int setnum_test() {
  using namespace setnum;
  mp::Env env;
  NullLogger lg;
  mp::pre::ValuePresolverImpl vpre(env, lg);
  mp::pre::ValueNode node(vpre, "demo_node");
  node.Select(0, 2);          // declare 2 elements

  auto seti = [](mp::pre::ValueNode& n, size_t i, int v) { n.SetInt(i, v); };
  auto geti = [](mp::pre::ValueNode& n, size_t i) { return n.GetInt(i); };
  auto setd = [](mp::pre::ValueNode& n, size_t i, double v) { n.SetDbl(i, v); };
  auto getd = [](mp::pre::ValueNode& n, size_t i) { return n.GetDbl(i); };

  const std::vector< std::vector<int> > iseqs = {
    {0, 0}, {0, 3}, {1, 3}, {3, 3}, {0, 1, 4},
    {-2, 3}, {-2, 0}, {-2, 0, 5},
    {-2, -1}, {-3, -1, 0}, {-5, -3, -1}
  };
  for (const auto& s: iseqs)
    CheckSeq<int>(node, s, seti, geti, "int");

  const std::vector< std::vector<double> > dseqs = {
    {0.0, 0.0}, {0.0, 2.5}, {1.5, 2.5}, {-1.5, 2.5}, {-1.5, 0.0},
    {-2.5, -0.5}, {-2.5, -0.5, 0.0}, {-7.0, -2.5, -0.5}
  };
  for (const auto& s: dseqs)
    CheckSeq<double>(node, s, setd, getd, "dbl");

  if (failures) {
    std::printf("%d failure(s): SetNum conflict rule violated\n", failures);
    return 1;
  }
  std::printf("OK: SetNum conflict rule holds, order-independent\n");
  return 0;
}

// ---- links: consecutive One2ManyLink / Many2OneLink entries whose images are adjacent blocks of one value node: a value given to one
// item lands on the image of that item only, and comes back from that image only (Many2ManyLink::AddEntry merges entries)
namespace links {
struct DummyFlatModel : mp::BasicFlatModel {
  VarBndVec lbs_, ubs_;
  const VarBndVec& GetVarLBs() const override { return lbs_; }
  const VarBndVec& GetVarUBs() const override { return ubs_; }
};
struct NullLogger : mp::BasicLogger { bool IsOpen() const override { return false; } bool Append(const char* ) override { return true; } };
static int run() {
  int bad = 0;
  const int B[][3] = {{2, 2, 0}, {1, 2, 0}, {2, 1, 0}, {1, 1, 1}, {2, 2, 2}, {3, 1, 2}, {1, 3, 0}};
  for (auto &b : B) {
    int nsrc = b[2] ? 3 : 2, ntgt = b[0] + b[1] + b[2];
    for (int which = 0; which < nsrc; ++which) {
      mp::Env env; DummyFlatModel model; NullLogger lg;
      mp::pre::ValuePresolver vp(model, env, lg);
      mp::pre::One2ManyLink o2m(vp);
      auto& src = vp.GetSourceNodes().GetConValues().MakeSingleKey();
      auto& dst = vp.GetTargetNodes().GetConValues().MakeSingleKey();
      std::vector<mp::pre::NodeRange> ss, tt;
      for (int k = 0; k < nsrc; ++k) ss.push_back(src.Add());
      for (int k = 0; k < nsrc; ++k) tt.push_back(dst.Add(b[k]));
      for (int k = 0; k < nsrc; ++k) o2m.AddEntry({ss[k], tt[k]});
      // back: a flag on the last row of item `which` only
      std::vector<int> rows(ntgt, 0); int off = 0; for (int k = 0; k < which; ++k) off += b[k];
      rows[off + b[which] - 1] = 4;
      mp::pre::ModelValuesInt mv{ {}, rows, {} };
      std::vector<int> got = vp.PostsolveIIS(mv).GetConValues()();
      for (int k = 0; k < nsrc; ++k) if ((int)got.size() != nsrc || got[k] != (k == which ? 4 : 0)) {
        if (bad++ < 6) std::printf("VIOLATED: items with images of %d, %d, %d adjacent rows: a flag on a row of item %d comes back on item %d as %d\n", b[0], b[1], b[2], which, k, (int)got.size() == nsrc ? got[k] : -1); break; }
      // forth: a flag for item `which` only
      std::vector<int> flags(nsrc, 0); flags[which] = 1;
      mp::pre::ModelValuesInt mv2{ {}, flags, {} };
      std::vector<int> g2 = vp.PresolveLazyUserCutFlags(mv2).GetConValues()();
      for (int r = 0; r < ntgt; ++r) { int want = (r >= off && r < off + b[which]) ? 1 : 0;
        if ((int)g2.size() != ntgt || g2[r] != want) { if (bad++ < 6) std::printf("VIOLATED: items with images of %d, %d, %d adjacent rows: a flag given to item %d lands on row %d as %d\n", b[0], b[1], b[2], which, r, (int)g2.size() == ntgt ? g2[r] : -1); break; } }
    }
  }
  // one item whose image lies in two different value nodes with abutting index ranges (constraint rows [0,2) and variables [2,4)):
  // the two target ranges must stay two entries (ranges are adjacent only inside one node)
  {
    mp::Env env; DummyFlatModel model; NullLogger lg;
    mp::pre::ValuePresolver vp(model, env, lg);
    mp::pre::One2ManyLink o2m(vp);
    auto& src = vp.GetSourceNodes().GetConValues().MakeSingleKey();
    auto& dstc = vp.GetTargetNodes().GetConValues().MakeSingleKey();
    auto& dstv = vp.GetTargetNodes().GetVarValues().MakeSingleKey();
    auto s0 = src.Add();
    auto tc = dstc.Add(2); dstv.Add(2); auto tv = dstv.Add(2);
    o2m.AddEntry({s0, tc}); o2m.AddEntry({s0, tv});
    std::vector<int> rows(2, 0), cols(4, 0); cols[3] = 4;
    mp::pre::ModelValuesInt mv{ cols, rows, {} };
    std::vector<int> got = vp.PostsolveIIS(mv).GetConValues()();
    if (got.size() != 1 || got[0] != 4) { if (bad++ < 6) std::printf("VIOLATED: an item with images in two value nodes (rows [0,2), variables [2,4)): a flag on variable 3 comes back as %d\n", got.size() == 1 ? got[0] : -1); }
  }
  if (!bad) std::printf("OK: values stay with the image of their own item (adjacent images)\n");
  return bad != 0;
}
}  // namespace links

int main(int argc, char **argv) {
  const char *w = argc > 1 ? argv[1] : "all"; int bad = 0;
  if (!strcmp(w, "all") || !strcmp(w, "setnum")) bad |= setnum_test();
  if (!strcmp(w, "all") || !strcmp(w, "graph")) bad |= graph_test();
  if (!strcmp(w, "all") || !strcmp(w, "links")) bad |= links::run();
  if (bad) { std::printf("VIOLATED: a value transfer differs from the documented rule (see above)\n"); return 10; }
  return 0;
}
