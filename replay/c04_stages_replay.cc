// Native replay driver (C04: order of link entries in postsolve), adapted from the demonstration of a seeded change (round 12): a two-stage
// one-to-many conversion graph on the real ValuePresolver; exit 0 = values return to their items, exit 1 = a discrepancy (printed).
// Demonstration for property C04 (values return to the original items).
//
// Conversion graph (what a two-stage reformulation produces when all of its
// entries land in ONE One2ManyLink range, i.e. no entry of another link -
// CopyLink, Range2Slk - is registered in between):
//
//   orig con c0 --One2Many--> stage-1 items B[0], B[1]
//   B[0]        --One2Many--> solver rows  D[0], D[1]
//   B[1]        --One2Many--> solver rows  D[2], D[3]
//   orig con c1 --Copy------> solver row   D[4]
//
// Whatever the solver reports for rows D[0..3] (IIS flag, basis status, dual,
// generic suffix) has to arrive on c0; what it reports for D[4], on c1.
//
// Build:
//   g++ -std=c++17 -O1 -DNDEBUG -Iinclude demo.cc _build/lib/libmp.a -o demo
#include <cstdio>
#include <vector>

#include "mp/common.h"
#include "mp/valcvt.h"

namespace {

struct NullLogger : mp::BasicLogger {
  bool IsOpen() const override { return false; }
  bool Append(const char*) override { return true; }
};

struct NoModel : mp::BasicFlatModel {
  VarBndVec lb_, ub_;
  const VarBndVec& GetVarLBs() const override { return lb_; }
  const VarBndVec& GetVarUBs() const override { return ub_; }
};

int n_bad = 0;

template <class T>
void Expect(const char* what, const std::vector<T>& got,
            const std::vector<T>& want) {
  bool ok = got == want;
  std::printf("%-58s got [", what);
  for (auto v: got) std::printf(" %g", (double)v);
  std::printf(" ]  expected [");
  for (auto v: want) std::printf(" %g", (double)v);
  std::printf(" ]  %s\n", ok ? "ok" : "WRONG");
  if (!ok)
    ++n_bad;
}

/// The conversion graph. If \a interleave, a CopyLink entry is registered
/// between the two stages (this splits the One2Many entries into two
/// link ranges).
struct Graph {
  mp::BasicSolver env;
  NullLogger log;
  NoModel model;
  mp::pre::ValuePresolver vp{model, env, log};
  mp::pre::ValueNode stage1{vp, "stage1"};
  mp::pre::ValueNode side_a{vp, "side_a"}, side_b{vp, "side_b"};
  mp::pre::CopyLink copy{vp};
  mp::pre::One2ManyLink o2m{vp};

  explicit Graph(bool interleave) {
    auto& S = vp.GetSourceNodes().GetConValues()();
    auto& D = vp.GetTargetNodes().GetConValues()();
    vp.GetSourceNodes().GetVarValues()();       // empty var / obj nodes
    vp.GetTargetNodes().GetVarValues()();
    vp.GetSourceNodes().GetObjValues()();
    vp.GetTargetNodes().GetObjValues()();
    auto c0 = S.Add();
    auto c1 = S.Add();
    copy.AddEntry({ c1, D.Select(4) });
    auto b01 = stage1.Add(2);
    o2m.AddEntry({ c0, b01 });                  // c0 -> B[0..1]
    if (interleave)
      copy.AddEntry({ side_a.Add(), side_b.Add() });
    o2m.AddEntry({ stage1.Select(0), D.Select(0, 2) });   // B[0] -> D[0..1]
    o2m.AddEntry({ stage1.Select(1), D.Select(2, 2) });   // B[1] -> D[2..3]
  }
};

void Run(bool interleave) {
  std::printf("--- %s ---\n", interleave
              ? "control: a CopyLink entry registered between the two stages"
              : "both stages adjacent in one One2ManyLink range");
  Graph g(interleave);
  const std::vector<int> novars_i;
  const std::vector<double> novars_d;
  {
    std::vector<int> d = { 0, 0, 0, (int)mp::IISStatus::mem,
                           (int)mp::IISStatus::upp };
    auto mv = g.vp.PostsolveIIS({ novars_i, d });
    Expect<int>("PostsolveIIS: row D[3] is in the IIS -> c0, c1",
                mv.GetConValues()(),
                { (int)mp::IISStatus::mem, (int)mp::IISStatus::upp });
  }
  {
    std::vector<int> d = { (int)mp::BasicStatus::bas, 0, 0, 0,
                           (int)mp::BasicStatus::low };
    auto mv = g.vp.PostsolveBasis({ novars_i, d });
    Expect<int>("PostsolveBasis: row D[0] basic -> c0, c1",
                mv.GetConValues()(),
                { (int)mp::BasicStatus::bas, (int)mp::BasicStatus::low });
  }
  {
    std::vector<double> d = { 0.0, 0.0, 2.5, 0.0, 7.0 };
    auto mv = g.vp.PostsolveSolution({ novars_d, d });
    Expect<double>("PostsolveSolution: dual 2.5 on row D[2] -> c0, c1",
                   mv.GetConValues()(), { 2.5, 7.0 });
  }
  {
    std::vector<int> d = { 0, 6, 0, 0, 9 };
    auto mv = g.vp.PostsolveGenericInt({ novars_i, d });
    Expect<int>("PostsolveGenericInt: 6 on row D[1] -> c0, c1",
                mv.GetConValues()(), { 6, 9 });
  }
  {                    // the other direction keeps working
    std::vector<int> s = { 3, 8 };
    auto mv = g.vp.PresolveGenericInt({ novars_i, s });
    Expect<int>("PresolveGenericInt: c0=3, c1=8 -> rows D[0..4]",
                mv.GetConValues()(), { 3, 3, 3, 3, 8 });
  }
}

}  // namespace

int main() {
  Run(false);
  int bad_main = n_bad;
  Run(true);
  if (n_bad) {
    std::printf("\nFAILED: %d transfer(s) did not return the solver's value "
                "to the original constraint (%d of them in the adjacent-stages "
                "graph).\n", n_bad, bad_main);
    return 1;
  }
  std::printf("\nall transfers correct\n");
  return 0;
}
