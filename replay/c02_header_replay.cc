// Native replay for C02.header.roundtrip: random valid NL headers are written with the library's own formatter
// (operator<<(fmt::Writer&, const NLHeader&)) and read back with the real TextReader::ReadHeader; every field must come back as written.
// usage: c02_header_replay [seed] [count]      exit 10 = a field is reported differently
#include <cstdio>
#include <cstdlib>
#include <cstring>
#include <string>
#include "mp/nl-reader.h"
static unsigned long long rng = 88172645463325252ULL;
static unsigned rnd(unsigned n) { rng ^= rng << 13; rng ^= rng >> 7; rng ^= rng << 17; return (unsigned)((rng >> 11) % n); }
int main(int argc, char **argv) {
  unsigned long seed = argc > 1 ? strtoul(argv[1], 0, 10) : 1; int count = argc > 2 ? atoi(argv[2]) : 20000;
  rng ^= seed * 0x9E3779B97F4A7C15ULL; if (!rng) rng = 1;
  for (int it = 0; it < count; ++it) {
    mp::NLHeader h = mp::NLHeader();
    h.format = mp::NLHeader::TEXT;
    h.num_ampl_options = rnd(10); for (int i = 0; i < h.num_ampl_options; ++i) h.ampl_options[i] = (long)rnd(5) - 1;
    if (h.num_ampl_options >= 2 && rnd(3) == 0) { h.ampl_options[1] = 3; h.ampl_vbtol = 0.5 + rnd(4); }
    else if (h.num_ampl_options >= 2 && h.ampl_options[1] == 3) h.ampl_options[1] = 0;
    int *F[] = {&h.num_vars, &h.num_algebraic_cons, &h.num_objs, &h.num_ranges, &h.num_eqns, &h.num_logical_cons, &h.num_nl_cons, &h.num_nl_objs, &h.num_nl_compl_conds,
      &h.num_compl_dbl_ineqs, &h.num_compl_vars_with_nz_lb, &h.num_nl_net_cons, &h.num_linear_net_cons, &h.num_nl_vars_in_cons, &h.num_nl_vars_in_objs, &h.num_nl_vars_in_both,
      &h.num_linear_net_vars, &h.num_funcs, &h.flags, &h.num_linear_binary_vars, &h.num_linear_integer_vars, &h.num_nl_integer_vars_in_both, &h.num_nl_integer_vars_in_cons,
      &h.num_nl_integer_vars_in_objs, &h.max_con_name_len, &h.max_var_name_len, &h.num_common_exprs_in_both, &h.num_common_exprs_in_cons, &h.num_common_exprs_in_objs,
      &h.num_common_exprs_in_single_cons, &h.num_common_exprs_in_single_objs};
    for (int *f : F) *f = (int)rnd(50);
    h.num_compl_conds = h.num_nl_compl_conds + (int)rnd(20);
    h.num_con_nonzeros = rnd(1000); h.num_obj_nonzeros = rnd(1000);
    fmt::MemoryWriter w; w << h; std::string text = w.str();
    mp::NLHeader r = mp::NLHeader();
    try { mp::internal::TextReader<> reader(mp::NLStringRef(text.c_str(), text.size()), "(replay)"); reader.ReadHeader(r); }
    catch (const std::exception &e) { printf("VIOLATED: the reader rejects a header the library wrote: %s\n%s", e.what(), text.c_str()); return 10; }
    const char *bad = 0;
#define CMP(f) if (!bad && r.f != h.f) bad = #f;
    CMP(format) CMP(num_ampl_options) CMP(num_vars) CMP(num_algebraic_cons) CMP(num_objs) CMP(num_ranges) CMP(num_eqns) CMP(num_logical_cons) CMP(num_nl_cons) CMP(num_nl_objs)
    CMP(num_compl_conds) CMP(num_nl_compl_conds) CMP(num_compl_dbl_ineqs) CMP(num_compl_vars_with_nz_lb) CMP(num_nl_net_cons) CMP(num_linear_net_cons) CMP(num_nl_vars_in_cons)
    CMP(num_nl_vars_in_objs) CMP(num_nl_vars_in_both) CMP(num_linear_net_vars) CMP(num_funcs) CMP(flags) CMP(num_linear_binary_vars) CMP(num_linear_integer_vars)
    CMP(num_nl_integer_vars_in_both) CMP(num_nl_integer_vars_in_cons) CMP(num_nl_integer_vars_in_objs) CMP(num_con_nonzeros) CMP(num_obj_nonzeros) CMP(max_con_name_len)
    CMP(max_var_name_len) CMP(num_common_exprs_in_both) CMP(num_common_exprs_in_cons) CMP(num_common_exprs_in_objs) CMP(num_common_exprs_in_single_cons) CMP(num_common_exprs_in_single_objs)
    for (int i = 0; !bad && i < h.num_ampl_options; ++i) if (r.ampl_options[i] != h.ampl_options[i]) bad = "ampl_options";
    if (!bad && h.num_ampl_options >= 2 && h.ampl_options[1] == 3 && r.ampl_vbtol != h.ampl_vbtol) bad = "ampl_vbtol";
    if (bad) { printf("VIOLATED: header field %s is reported differently from what was written:\n%s", bad, text.c_str()); return 10; }
  }
  printf("ok: %d random headers written and read back field by field\n", count);
  return 0;
}
