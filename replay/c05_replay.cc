// Native replay for C05 (message clause): the real mp::internal::WriteMessage on every message over {'a',' ','\n'}
// up to length 6 (the verifier's loop-contract counterexample is not a concrete message; this searches the
// neighbourhood natively).  exit 10 = a message is not written as the format requires.
#include <cstdio>
#include <cstdlib>
#include <string>
#include <vector>
#include <unistd.h>
#include "mp/sol.h"
#include "mp/posix.h"

static std::string show(const std::string &s) { std::string r; for (char c : s) r += c == '\n' ? std::string("\\n") : std::string(1, c); return r; }
static bool check(const std::string &msg, const char *path) {
  { fmt::BufferedFile f(path, "w"); mp::internal::WriteMessage(f, msg.c_str()); }
  FILE *fp = fopen(path, "rb"); std::string out; int c; while ((c = fgetc(fp)) != EOF) out += (char)c; fclose(fp);
  // expected: each message line (split at '\n'; a final '\n' starts one more, empty, line ... as WriteMessage defines it)
  // reader view: text up to the first empty line
  std::vector<std::string> lines; size_t pos = 0; bool terminated = false;
  while (pos < out.size()) { size_t e = out.find('\n', pos); if (e == std::string::npos) break; std::string l = out.substr(pos, e - pos); pos = e + 1; if (l.empty()) { terminated = true; break; } lines.push_back(l); }
  for (size_t k = pos; k < out.size(); ++k) if (out[k] != '\n') { printf("VIOLATED: message \"%s\": text after the terminator line: \"%s\"\n", show(msg).c_str(), show(out).c_str()); return false; }
  if (!terminated) { printf("VIOLATED: message \"%s\": no empty line terminates the message: \"%s\"\n", show(msg).c_str(), show(out).c_str()); return false; }
  // message lines as the reader should see them
  std::vector<std::string> want; size_t p = 0;
  for (;;) { size_t e = msg.find('\n', p); std::string l = msg.substr(p, e == std::string::npos ? std::string::npos : e - p); if (e == std::string::npos) { if (!l.empty()) want.push_back(l); break; } want.push_back(l.empty() ? " " : l); p = e + 1; }
  if (want != lines) { printf("VIOLATED: message \"%s\" is read back differently: written \"%s\"\n", show(msg).c_str(), show(out).c_str()); return false; }
  return true;
}
int main() {
  char path[] = "/tmp/c05_replayXXXXXX"; int fd = mkstemp(path); if (fd < 0) return 2; close(fd);
  const char alpha[] = {'a', ' ', '\n'};
  int n = 0; std::vector<std::string> cur(1, "");
  for (int len = 0; len <= 6; ++len) {
    for (const std::string &m : cur) { ++n; if (!check(m, path)) { remove(path); return 10; } }
    std::vector<std::string> next; for (const std::string &m : cur) for (char c : alpha) next.push_back(m + c); cur.swap(next);
  }
  remove(path); printf("ok: %d messages written as required\n", n); return 0;
}
