// Native replay driver (C06:Pow-preprocessing), adapted from the demonstration of seeded change M48-C06-pow-minus-one-aliased: an oracle sweep over the REAL code;
// exit 0 = everything as the property says, exit 1 = a discrepancy (printed).  Built by vp/native.py against VP_REPO's working tree.
// Demonstration for property C06:
// an expression may be replaced by an existing variable only when it
// really equals that variable on the whole domain, and the bounds of a
// result variable must contain every value of the expression.
//
// Situation: PowConstraint with exponent -1 (x^-1) over a positive domain.
//
// Build (from the worktree root):
//   g++ -std=c++17 -Iinclude -I_build/include demo.cc _build/lib/libmp.a -o demo
#include <cmath>
#include <cstdio>
#include <vector>

#include "mp/flat/model_api_base.h"
#include "mp/flat/converter.h"

class DemoBackend : public mp::BasicFlatModelAPI {
  using Base = mp::BasicFlatModelAPI;
public:
  DemoBackend() { }
  DemoBackend(mp::Env& ) { }
  static constexpr const char* GetTypeName() { return "demo"; }
  void AddVariables(const mp::VarArrayDef& ) { }
  USE_BASE_CONSTRAINT_HANDLERS(Base)
  ACCEPT_CONSTRAINT(mp::LinConEQ, mp::Recommended, mp::CG_Default)
  void AddConstraint(const mp::LinConEQ& ) { }
};

using Cvt = mp::FlatCvtImpl<mp::FlatConverter, DemoBackend>;

static int failures = 0;

/// Convert r = x^pwr for x in [lbx, ubx] and check the result
/// against the values the expression really takes.
static void CheckPow(double lbx, double ubx, mp::var::Type tx, double pwr) {
  mp::Env env;
  Cvt cvt(env);
  int x = int( cvt.AddVar(lbx, ubx, tx) );
  auto res = cvt.AssignResult2Args(
        mp::PowConstraint( mp::PowConstraint::Arguments{ x },
                           mp::PowConstraint::Parameters{ pwr } ) );
  const int N = 200;
  for (int i=0; i<=N; ++i) {
    double xv = lbx + (ubx-lbx)*i/N;
    if (mp::var::INTEGER==tx)
      xv = std::round(xv);
    double yv = std::pow(xv, pwr);
    if (res.is_const()) {
      if (std::fabs(res.get_const()-yv) > 1e-9) {
        std::printf("FAIL: x^%g, x in [%g, %g]: replaced by constant %g, "
                    "but at x=%g the value is %g\n",
                    pwr, lbx, ubx, res.get_const(), xv, yv);
        ++failures;
        return;
      }
      continue;
    }
    int r = res.get_var();
    if (r==x) {                       // aliased to the argument
      if (std::fabs(xv-yv) > 1e-9) {
        std::printf("FAIL: x^%g, x in [%g, %g]: replaced by the argument "
                    "variable itself, but at x=%g the value is %g\n",
                    pwr, lbx, ubx, xv, yv);
        ++failures;
        return;
      }
      continue;
    }
    if (yv < cvt.lb(r)-1e-9 || yv > cvt.ub(r)+1e-9) {
      std::printf("FAIL: x^%g, x in [%g, %g]: result bounds [%g, %g] "
                  "cut off value %g at x=%g\n",
                  pwr, lbx, ubx, cvt.lb(r), cvt.ub(r), yv, xv);
      ++failures;
      return;
    }
    if (mp::var::INTEGER==cvt.var_type(r) && std::floor(yv)!=std::ceil(yv)) {
      std::printf("FAIL: x^%g, x in [%g, %g]: result declared integer, "
                  "but at x=%g the value is %g\n",
                  pwr, lbx, ubx, xv, yv);
      ++failures;
      return;
    }
  }
  std::printf("ok:   x^%g, x in [%g, %g]%s\n", pwr, lbx, ubx,
              mp::var::INTEGER==tx ? " integer" : "");
}

int main() {
  const auto C = mp::var::CONTINUOUS;
  const auto I = mp::var::INTEGER;
  // Exponents around the special cases 0 and 1
  for (double pwr: {1.0, 0.0, 2.0, 3.0, 0.5, -2.0, -3.0, -0.5, -1.0}) {
    CheckPow(1.0, 4.0, C, pwr);
    CheckPow(0.5, 8.0, C, pwr);
    CheckPow(2.0, 5.0, I, pwr);
  }
  if (failures) {
    std::printf("%d check(s) failed\n", failures);
    return 1;
  }
  std::printf("all checks passed\n");
  return 0;
}
