// Native replay for C06 (a): Min / Max / IfThen result bounds and type over all pairs of 10 argument domains, brute force over the
// reachable values, through the real ConstraintPreprocessors / BoundComputations over a real FlatModel.  Adapted from the demonstration of
// the seeded change M26 (written by an independent sub-agent from the property text).  exit != 0 = a reachable value is cut off.
// Demo for property C06: result bounds / integrality inferred by
// ConstraintPreprocessors must not cut off any reachable value.
//
// Builds a tiny Impl on top of the real FlatModel and the real CRTP mixins,
// preprocesses Min / Max / IfThen constraints over many argument domains,
// and compares inferred bounds + type with brute force over the domains.
//
// g++ -std=c++17 -w -DMP_DATE=20240101 -I/tmp/sa_C06b/include demo.cc \
//     /tmp/sa_C06b/_build/lib/libmp.a -o demo
#include <cstdio>
#include <cmath>
#include <vector>
#include <string>
#include <set>

#include "mp/flat/converter_model.h"
#include "mp/flat/expr_bounds.h"
#include "mp/flat/constr_prepro.h"
#include "mp/flat/constr_std.h"

struct M : mp::BoundComputations<M>, mp::ConstraintPreprocessors<M> {
  using Model = mp::FlatModel<>;
  Model model_;
  Model& GetModel() { return model_; }
  const Model& GetModel() const { return model_; }
  double lb(int v) const { return model_.lb(v); }
  double ub(int v) const { return model_.ub(v); }
  mp::var::Type var_type(int v) const { return model_.var_type(v); }
  bool is_fixed(int v) const { return model_.is_fixed(v); }
  double fixed_value(int v) const { return model_.fixed_value(v); }
};

struct Dom { double lb, ub; mp::var::Type t; const char* name; };

static std::vector<double> Samples(const Dom& d) {
  std::vector<double> s;
  if (mp::var::INTEGER == d.t) {
    for (double x = std::ceil(d.lb); x <= d.ub; x += 1.0) s.push_back(x);
  } else {
    s.push_back(d.lb);
    for (double x = d.lb; x < d.ub; x += 0.25) s.push_back(x);
    s.push_back(d.ub);
  }
  return s;
}

static int nfail = 0;
static std::set<std::string> reported;

static bool IsInt(double x) { return std::floor(x) == std::ceil(x); }

template <class Prepro>
static void CheckValue(const std::string& what, const Prepro& p, double val) {
  bool bad_bnd = val < p.lb() || val > p.ub();
  bool bad_int = mp::var::INTEGER == p.get_result_type() && !IsInt(val);
  if (bad_bnd || bad_int) {
    ++nfail;
    if (!reported.insert(what).second)
      return;                      // one line per constraint / domain pair
    std::printf("VIOLATION %s: reachable value %g, inferred [%g, %g] %s%s%s\n",
                what.c_str(), val, p.lb(), p.ub(),
                mp::var::INTEGER == p.get_result_type() ? "INTEGER" : "CONTINUOUS",
                bad_bnd ? "  <outside bounds>" : "",
                bad_int ? "  <non-integer value of an integer result>" : "");
  }
}

int main() {
  const auto I = mp::var::INTEGER;
  const auto C = mp::var::CONTINUOUS;
  const std::vector<Dom> doms = {
    {0, 3, I, "int[0,3]"},
    {-2, 1, I, "int[-2,1]"},
    {2, 2, I, "int[2,2]"},
    {0, 1, C, "cont[0,1]"},
    {-1.5, 2.25, C, "cont[-1.5,2.25]"},
    {2, 2, C, "cont[2,2]"},        // fixed continuous, integer value
    {-3, -3, C, "cont[-3,-3]"},
    {0, 0, C, "cont[0,0]"},
    {2.5, 2.5, C, "cont[2.5,2.5]"},  // fixed continuous, fractional value
    {-0.5, -0.5, C, "cont[-0.5,-0.5]"},
  };

  M m;
  std::vector<int> vars;
  for (const auto& d : doms)
    vars.push_back(m.GetModel().AddVar__basic(d.lb, d.ub, d.t));
  // a binary condition variable for if-then-else
  int bvar = m.GetModel().AddVar__basic(0, 1, I);

  const int n = (int)doms.size();
  for (int i = 0; i < n; ++i)
    for (int j = 0; j < n; ++j) {
      auto si = Samples(doms[i]), sj = Samples(doms[j]);
      std::string pair = std::string("(") + doms[i].name + ", " + doms[j].name + ")";
      {
        mp::MinConstraint c(std::vector<int>{vars[i], vars[j]});
        mp::PreprocessInfo<mp::MinConstraint> p;
        m.PreprocessConstraint(c, p);
        for (double a : si) for (double b : sj)
          CheckValue("min" + pair, p, std::min(a, b));
      }
      {
        mp::MaxConstraint c(std::vector<int>{vars[i], vars[j]});
        mp::PreprocessInfo<mp::MaxConstraint> p;
        m.PreprocessConstraint(c, p);
        for (double a : si) for (double b : sj)
          CheckValue("max" + pair, p, std::max(a, b));
      }
      {
        mp::IfThenConstraint c({bvar, vars[i], vars[j]});
        mp::PreprocessInfo<mp::IfThenConstraint> p;
        m.PreprocessConstraint(c, p);
        for (double a : si) CheckValue("ifthen-then" + pair, p, a);
        for (double b : sj) CheckValue("ifthen-else" + pair, p, b);
      }
    }

  if (nfail) {
    std::printf("FAILED: %d reachable values cut off\n", nfail);
    return 1;
  }
  std::printf("OK: all inferred bounds/types contain all reachable values\n");
  return 0;
}
