// Native replay for C15: builds the real src/solver.cc with -DAMPL_MP_VERIF and raises a real SIGINT
// at the named hook points taken from the verifier's trace.
// usage: c15_replay <set|ctor|third|dtor> <f1> <d1> <f2> <d2> <point>...      exit 10 = property violated (the handler itself may _exit(1))
#include <csignal>
#include <cstdio>
#include <cstdlib>
#include <cstring>
#include <string>
#include <vector>
#include <unistd.h>
#include <fcntl.h>
#include <sys/wait.h>
#include "mp/solver.h"
#include "mp/problem.h"
#include "mp/solver-app-base.h"

struct TS : mp::SolverImpl<mp::Problem> {
  TS() : SolverImpl("testsolver", "", 0, 0) {}
  int DoSolve(mp::Problem &, mp::SolutionHandler &) { return 0; }
  void ReadNL(fmt::StringRef) {}
};
static std::vector<std::string> points;   // pending delivery points, in order
static size_t next_point = 0;
static int raised = 0;
static bool armed = false;
struct Inv { int fn; void *data; };
static Inv log_[16]; static volatile int nlog = 0;
static bool cbA(void *d) { if (nlog < 16) { log_[nlog].fn = 1; log_[nlog].data = d; nlog++; } return true; }
static bool cbB(void *d) { if (nlog < 16) { log_[nlog].fn = 2; log_[nlog].data = d; nlog++; } return true; }
static mp::InterruptHandler pick(int c) { return c == 0 ? 0 : (c == 1 ? cbA : cbB); }
static int count_fd = -1;
static void do_raise() { ++raised; if (count_fd >= 0) { char c = 'r'; (void)!write(count_fd, &c, 1); } dprintf(2, "[raise %d]\n", raised); std::raise(SIGINT); }
extern "C" void mp_verif_signal_point(const char *name) {
  while (armed && next_point < points.size() && points[next_point] == name) { ++next_point; do_raise(); }
}
int main(int argc, char **argv) {
  if (argc < 6) return 2;
  std::string sc = argv[1];
  int f1 = atoi(argv[2]), f2 = atoi(argv[4]);
  void *d1 = (void*)(size_t)strtoul(argv[3], 0, 10), *d2 = (void*)(size_t)strtoul(argv[5], 0, 10);
  for (int i = 6; i < argc; ++i) points.push_back(argv[i]);
  int devnull = open("/dev/null", O_WRONLY); dup2(devnull, 1);   // the handler writes "<BREAK>" to fd 1
  TS solver;
  int rc = 0;
  if (sc == "set") {
    mp::internal::SignalHandler sh(solver);
    sh.SetHandler(pick(f1), d1);
    armed = true;
    sh.SetHandler(pick(f2), d2);
    armed = false;
    for (int i = 0; i < nlog; ++i) {
      bool legal = (f1 && log_[i].fn == f1 && log_[i].data == d1) || (f2 && log_[i].fn == f2 && log_[i].data == d2);
      if (!legal) { dprintf(2, "VIOLATED: signal during SetHandler invoked callback %d with data %p: registrations are (%d,%p) and (%d,%p)\n", log_[i].fn, log_[i].data, f1, d1, f2, d2); rc = 10; }
    }
    if (raised && !sh.Stop()) { dprintf(2, "VIOLATED: %d signal(s) delivered but Stop() is false\n", raised); rc = 10; }
  } else if (sc == "ctor") {
    armed = true;
    mp::internal::SignalHandler sh(solver);
    armed = false;
    // a raise before the handler is installed would have killed us; reaching here means all were handled
    if (raised && !sh.Stop()) { dprintf(2, "VIOLATED: %d signal(s) delivered to the installed handler during construction, but Stop() is false afterwards (signal lost)\n", raised); rc = 10; }
    if (!raised && sh.Stop()) { dprintf(2, "VIOLATED: no signal but Stop() is true\n"); rc = 10; }
  } else if (sc == "third") {
    int pfd[2]; if (pipe(pfd)) return 2;
    pid_t pid = fork();
    if (pid == 0) {
      close(pfd[0]); count_fd = pfd[1];
      armed = true;
      mp::internal::SignalHandler sh(solver);
      sh.SetHandler(pick(f2), d2);
      armed = false;
      while (raised < 3) do_raise();
      dprintf(2, "VIOLATED: three signals delivered and the process is still running\n");
      _exit(42);
    }
    close(pfd[1]);
    int st = 0; waitpid(pid, &st, 0);
    char buf[16]; int k = (int)read(pfd[0], buf, sizeof buf);
    if (WIFEXITED(st) && WEXITSTATUS(st) == 42) rc = 10;
    else if (WIFEXITED(st) && WEXITSTATUS(st) == 1) {
      if (k != 3) { dprintf(2, "VIOLATED: the process was terminated by the handler at signal %d, not at the third\n", k); rc = 10; }
      else dprintf(2, "ok: terminated at the third signal\n");
    } else { dprintf(2, "child ended with status %d\n", st); rc = 2; }
    return rc;
  } else if (sc == "dtor") {
    {
      mp::internal::SignalHandler sh(solver);
      sh.SetHandler(pick(f1), d1);
      armed = true;
    }
    armed = false;
    int before = nlog;
    do_raise();
    if (nlog != before) { dprintf(2, "VIOLATED: a signal after destruction invoked callback %d\n", log_[before].fn); rc = 10; }
  } else return 2;
  if (!rc) dprintf(2, "ok (%d signals raised, %d callbacks)\n", raised, nlog);
  return rc;
}
