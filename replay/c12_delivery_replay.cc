// Native replay driver (C12: what is delivered for each objective selection), adapted from the demonstration of seeded change M75: a two-objective
// model with nonlinear parts read through the real SolverNLHandler for six objno / multiobj settings: sense, linear and nonlinear part of each
// delivered objective and objno_used().  exit 0 = as the property says, exit 1 = a discrepancy (printed).
// Demonstration for property C12: the solver receives exactly the
// objective(s) the user selected.
//
// A text NL model with two objectives is read through the solver's NL
// handler (SolverNLHandler) for several objno / multiobj settings, and the
// objectives that arrive in the mp::Problem are compared with the file.
//
//   obj 1: minimize  v0*v0 + 3 v0
//   obj 2: maximize  v0*v1 + 2 v0 + 5 v1
//
// Build (from the worktree root, after the library is built in _build):
//   g++ -std=c++17 -O2 -DNDEBUG -DMP_DATE=20240320 -w -Iinclude demo.cc _build/lib/libmp.a -ldl -o demo
// Exit code 0: all objectives as expected; 1: mismatch (details printed).

#include <cstdio>
#include <string>
#include <vector>

#include "mp/nl-reader.h"
#include "mp/problem.h"
#include "mp/solver.h"
#include "mp/solver-io.h"

namespace {

const char *NL_TEXT =
  "g3 1 1 0\n"
  " 2 0 2 0 0\n"
  " 0 2\n"
  " 0 0\n"
  " 0 2 0\n"
  " 0 0 0 1\n"
  " 0 0 0 0 0\n"
  " 0 3\n"
  " 0 0\n"
  " 0 0 0 0 0\n"
  "O0 0\n"
  "o2\n"
  "v0\n"
  "v0\n"
  "O1 1\n"
  "o2\n"
  "v0\n"
  "v1\n"
  "b\n"
  "0 0 10\n"
  "0 0 10\n"
  "G0 1\n"
  "0 3\n"
  "G1 2\n"
  "0 2\n"
  "1 5\n";

struct DemoSolver : mp::SolverImpl<mp::Problem> {
  DemoSolver() : mp::SolverImpl<mp::Problem>(
                   "demosolver", "demosolver", 0, mp::Solver::MULTIPLE_OBJ) {}
};

/// What we expect of one delivered objective
struct ExpObj {
  mp::obj::Type sense;
  int nl_var0, nl_var1;                 // nonlinear part: var0 * var1
  std::vector< std::pair<int, double> > lin;
};

const ExpObj FILE_OBJ[2] = {
  { mp::obj::MIN, 0, 0, { {0, 3.0} } },
  { mp::obj::MAX, 0, 1, { {0, 2.0}, {1, 5.0} } }
};

int n_fail = 0;

void Fail(const std::string &cfg, const std::string &what) {
  std::printf("MISMATCH [%s]: %s\n", cfg.c_str(), what.c_str());
  ++n_fail;
}

void CheckObj(const std::string &cfg, mp::Problem &p, int i, const ExpObj &e) {
  auto o = p.obj(i);
  std::string pre = "delivered objective #" + std::to_string(i + 1) + ": ";
  if (o.type() != e.sense)
    Fail(cfg, pre + "sense is "
         + (o.type() == mp::obj::MAX ? "maximize" : "minimize")
         + ", the file says "
         + (e.sense == mp::obj::MAX ? "maximize" : "minimize"));
  // linear part
  std::vector< std::pair<int, double> > lin;
  for (auto it = o.linear_expr().begin(); it != o.linear_expr().end(); ++it)
    lin.push_back({ it->var_index(), it->coef() });
  if (lin != e.lin) {
    std::string s = "linear part is {";
    for (auto &t: lin)
      s += " " + std::to_string(t.second) + "*v" + std::to_string(t.first);
    s += " }, expected {";
    for (auto &t: e.lin)
      s += " " + std::to_string(t.second) + "*v" + std::to_string(t.first);
    Fail(cfg, pre + s + " }");
  }
  // nonlinear part
  mp::NumericExpr ne = o.nonlinear_expr();
  if (!ne) {
    Fail(cfg, pre + "nonlinear part is missing, expected v"
         + std::to_string(e.nl_var0) + "*v" + std::to_string(e.nl_var1));
    return;
  }
  if (ne.kind() != mp::expr::MUL) {
    Fail(cfg, pre + "nonlinear part is not a product");
    return;
  }
  auto be = mp::Cast<mp::BinaryExpr>(ne);
  auto l = mp::Cast<mp::Reference>(be.lhs()), r = mp::Cast<mp::Reference>(be.rhs());
  if (!l || !r || l.kind() != mp::expr::VARIABLE || r.kind() != mp::expr::VARIABLE
      || l.index() != e.nl_var0 || r.index() != e.nl_var1)
    Fail(cfg, pre + "nonlinear part is not v" + std::to_string(e.nl_var0)
         + "*v" + std::to_string(e.nl_var1));
}

/// objno < 0: not given.
void Run(int objno, bool multiobj, const std::vector<int> &expect_file_objs,
         int expect_objno_used) {
  std::string cfg = "objno=" + (objno < 0 ? std::string("(default)")
                                          : std::to_string(objno))
      + " multiobj=" + (multiobj ? "1" : "0");
  DemoSolver solver;
  if (objno >= 0)
    solver.SetIntOption("objno", objno);
  if (multiobj)
    solver.SetIntOption("multiobj", 1);
  mp::Problem problem;
  mp::internal::SolverNLHandler<DemoSolver> handler(problem, solver);
  try {
    mp::ReadNLString(NL_TEXT, handler, "(demo)");
  } catch (const std::exception &e) {
    Fail(cfg, std::string("exception while reading: ") + e.what());
    return;
  }
  if (problem.num_objs() != (int)expect_file_objs.size()) {
    Fail(cfg, "model has " + std::to_string(problem.num_objs())
         + " objective(s), expected " + std::to_string(expect_file_objs.size()));
    return;
  }
  for (int i = 0; i < problem.num_objs(); ++i)
    CheckObj(cfg, problem, i, FILE_OBJ[expect_file_objs[i]]);
  if (solver.objno_used() != expect_objno_used)
    Fail(cfg, "objno_used() is " + std::to_string(solver.objno_used())
         + ", expected " + std::to_string(expect_objno_used));
}

}  // namespace

int main() {
  Run(-1, false, {0},    1);
  Run( 0, false, {},     0);
  Run( 1, false, {0},    1);
  Run( 2, false, {1},    2);      // the second objective of the file
  Run(-1, true,  {0, 1}, 1);
  Run( 2, true,  {1},    2);      // explicit objno overrides multiobj
  if (n_fail) {
    std::printf("FAILED: %d mismatch(es)\n", n_fail);
    return 1;
  }
  std::printf("OK: every configuration delivered the selected objective(s)\n");
  return 0;
}
