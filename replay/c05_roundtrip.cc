// Native round trip for C05: the real mp::WriteSolFile (include/mp/sol.h) writes a solution, the real mp::ReadSOLFile
// (nl-writer2 sol-reader2.hpp) reads the file; option counts 0..9, the vbtol form (second option 3), vector lengths 0..n,
// objective numbers and solve codes are swept.   exit 10 = the file is rejected or read back differently.
// usage: c05_roundtrip [--skip-known | --vbtol]   --skip-known leaves out the two recorded findings (fewer than 3 options, vbtol form);
//        --vbtol runs only the vbtol form with 3..9 options
#include <cmath>
#include <cstdio>
#include <cstring>
#include <cstdlib>
#include <unistd.h>
#include <vector>
#include <string>
#include <map>
#include "mp/problem.h"
#include "mp/suffix.h"
#include "mp/sol.h"
#include "mp/solver-io.h"
#include "mp/sol-reader2.h"
#include "mp/sol-reader2.hpp"
#include "mp/nl-utils.h"
struct H : mp::SOLHandler {
  int nv, nc; std::vector<double> x, y; int objno = -9, code = -9; std::vector<int> opts; std::string msg;
  mp::NLHeader Header() const { mp::NLHeader h; h.num_vars = nv; h.num_algebraic_cons = nc; return h; }
  void OnSolveMessage(const char *s, int) { msg = s; }
  int OnAMPLOptions(const AMPLOptions &ao) { opts.assign(ao.options_.begin(), ao.options_.end()); return 0; }
  template <class VR> void OnDualSolution(VR &rd) { while (rd.Size()) y.push_back(rd.ReadNext()); }
  template <class VR> void OnPrimalSolution(VR &rd) { while (rd.Size()) x.push_back(rd.ReadNext()); }
  void OnObjno(int o) { objno = o; } void OnSolveCode(int c) { code = c; }
  std::map<std::string, std::map<int, double> > sufs; std::map<std::string, std::string> tables;
  template <class SR> void OnIntSuffix(SR &sr) { tables[sr.SufInfo().Name()] = sr.SufInfo().Table(); auto &m = sufs["i" + std::to_string(sr.SufInfo().Kind() & 3) + sr.SufInfo().Name()]; while (sr.Size()) { auto v = sr.ReadNext(); if (sr.ReadResult() == NLW2_SOLRead_OK) m[v.first] = v.second; } }
  template <class SR> void OnDblSuffix(SR &sr) { tables[sr.SufInfo().Name()] = sr.SufInfo().Table(); auto &m = sufs["d" + std::to_string(sr.SufInfo().Kind() & 3) + sr.SufInfo().Name()]; while (sr.Size()) { auto v = sr.ReadNext(); if (sr.ReadResult() == NLW2_SOLRead_OK) m[v.first] = v.second; } }
};
int main(int argc, char **argv) {
  bool skip_known = argc > 1 && !strcmp(argv[1], "--skip-known");
  bool only_vbtol = argc > 1 && !strcmp(argv[1], "--vbtol");
  char path[] = "/tmp/c05_rtXXXXXX"; int fd = mkstemp(path); if (fd < 0) return 2; close(fd);
  int bad = 0, n = 0;
  for (int nopt = 0; nopt <= 9 && !bad; ++nopt) for (int vbtol = 0; vbtol <= (nopt >= 2 ? 1 : 0) && !bad; ++vbtol)
  for (int nx = 0; nx <= 2 && !bad; ++nx) for (int ny = 0; ny <= 1 && !bad; ++ny) for (int objno = 0; objno <= 2 && !bad; ++objno) {
    if (skip_known && (nopt < 3 || vbtol)) continue;
    if (only_vbtol && !(nopt >= 3 && vbtol)) continue;
    mp::Problem p; p.AddVar(0, 1); p.AddVar(0, 1); p.AddCon(0, 1);
    std::vector<long> opts; for (int i = 0; i < nopt; ++i) opts.push_back(i == 1 ? (vbtol ? 3 : 1) : i);
    std::vector<double> x, y; for (int i = 0; i < nx; ++i) x.push_back(1.5 + i); for (int i = 0; i < ny; ++i) y.push_back(-3.25);
    int code = 100 * objno + 7;
    mp::SolutionAdapter<mp::Problem> sa(code, &p, "hello", mp::ArrayRef<long>(opts.data(), opts.size()), x, y, objno);
    mp::WriteSolFile(path, sa);
    H h; h.nv = 2; h.nc = 1; mp::NLUtils u;
    auto r = mp::ReadSOLFile(path, h, u); ++n;
    std::string why;
    if (r.first != NLW2_SOLRead_OK) why = "the reader rejects the written file: " + r.second;
    else if (h.x != x || h.y != y) why = "vectors read back differently";
    else if (h.objno != objno - 1 || h.code != code) why = "objno / solve code read back differently";
    if (!why.empty()) {
      printf("VIOLATED: %d options%s, %d primal, %d dual values, objno %d: %s\n", nopt, vbtol ? " (vbtol form)" : "", nx, ny, objno, why.c_str());
      bad = 1;
    }
  }
  // value lines: integers and integral reals come back exactly, other finite reals within one part in 1e15 - also subnormal, tiny and huge ones
  {
    const double V[] = {0.0, 1.0, -7.0, 123456789012345.0, 0.1, -2.5e-3, 1e-300, 3e-308, 2.2250738585072014e-308, 1e-310, -2.5e-315, 4.94e-324, 1.797693134862315e308, -1e300};   /* DBL_MAX itself is written as 1.797693134862316e+308 ({:.16} rounds up) and read back as Infinity: see DESIGN.md 9.5, observations */
    for (double v : V) { if (bad || only_vbtol) break;
      mp::Problem p; p.AddVar(0, 1); p.AddVar(0, 1); p.AddCon(0, 1);
      std::vector<long> opts{1, 1, 0}; std::vector<double> x{v, 1.0}, y{v};
      mp::SolutionAdapter<mp::Problem> sa(0, &p, "values", mp::ArrayRef<long>(opts.data(), opts.size()), x, y, 1);
      mp::WriteSolFile(path, sa);
      H h; h.nv = 2; h.nc = 1; mp::NLUtils u;
      auto r = mp::ReadSOLFile(path, h, u); ++n;
      auto close = [](double a, double b) { return a == b || std::fabs(a - b) <= 1e-15 * std::fabs(b); };
      std::string why;
      if (r.first != NLW2_SOLRead_OK) why = "the reader rejects the written file: " + r.second;
      else if (h.x.size() != 2 || h.y.size() != 1 || !close(h.x[0], v) || !close(h.y[0], v)) why = "the value is read back differently";
      if (!why.empty()) { printf("VIOLATED: primal / dual value %.17g: %s\n", v, why.c_str()); bad = 1; }
    }
  }
  // output suffixes: names of 1, 2 and 7 characters, int and real values, every kind
  static const char *names[] = {"p", "ab", "sstatus"};
  for (int ni = 0; ni < 3 && !bad && !only_vbtol; ++ni) for (int kind = 0; kind < 4 && !bad; ++kind) for (int real = 0; real < 2 && !bad; ++real) {
    mp::Problem p; p.AddVar(0, 1); p.AddVar(0, 1); p.AddVar(0, 1); p.AddCon(0, 1); p.AddCon(0, 1); p.AddObj(mp::obj::MIN);
    int nitems = kind == 0 ? 3 : kind == 1 ? 2 : 1;
    std::map<int, double> want;
    if (real) { auto sfx = p.suffixes((mp::suf::Kind)kind).Add<double>(names[ni], kind | mp::suf::OUTPUT | mp::suf::FLOAT, nitems); sfx.set_value(nitems - 1, 2.5); want[nitems - 1] = 2.5; if (nitems > 1) { sfx.set_value(0, -1e-3); want[0] = -1e-3; } }
    else { auto sfx = p.suffixes((mp::suf::Kind)kind).Add<int>(names[ni], kind | mp::suf::OUTPUT, nitems); sfx.set_value(nitems - 1, 7); want[nitems - 1] = 7; if (nitems > 1) { sfx.set_value(0, -3); want[0] = -3; } }
    std::vector<long> opts{1, 0, 0}; std::vector<double> x{1.5, 0, -2}, y{0.25, 4};
    mp::SolutionAdapter<mp::Problem> sa(0, &p, "hello", mp::ArrayRef<long>(opts.data(), opts.size()), x, y, 1);
    mp::WriteSolFile(path, sa);
    H h; h.nv = 3; h.nc = 2; mp::NLUtils u;
    auto r = mp::ReadSOLFile(path, h, u); ++n;
    std::string key = std::string(real ? "d" : "i") + std::to_string(kind) + names[ni], why;
    if (r.first != NLW2_SOLRead_OK) why = "the reader rejects the written file: " + r.second;
    else if (h.x != x || h.y != y) why = "vectors read back differently";
    else if (!h.sufs.count(key) || h.sufs[key] != want) why = "suffix values read back differently";
    if (!why.empty()) { printf("VIOLATED: %s suffix '%s' of kind %d: %s\n", real ? "real" : "int", names[ni], kind, why.c_str()); bad = 1; }
  }
  // value tables: one to three lines, with and without a trailing newline, empty middle line; a suffix without table follows
  static const char *tabs[] = {"x", "1 low\n2 upp", "a\n\nb", "one line\n", "0\tnon\tnot in the iis\n1\tlow\tat lower bound\n", "\nb"};
  for (int ti = 0; ti < 6 && !bad && !only_vbtol; ++ti) {
    mp::Problem p; p.AddVar(0, 1); p.AddVar(0, 1); p.AddVar(0, 1); p.AddCon(0, 1); p.AddCon(0, 1); p.AddObj(mp::obj::MIN);
    auto si = p.suffixes(mp::suf::VAR).Add<int>("iis", mp::suf::VAR | mp::suf::OUTPUT, 3, tabs[ti]); si.set_value(0, 3); si.set_value(2, -1);
    auto sd = p.suffixes(mp::suf::CON).Add<double>("slack", mp::suf::CON | mp::suf::OUTPUT | mp::suf::FLOAT, 2, tabs[ti]); sd.set_value(1, 2.5);
    auto sl = p.suffixes(mp::suf::OBJ).Add<int>("last", mp::suf::OBJ | mp::suf::OUTPUT, 1); sl.set_value(0, 9);
    std::vector<long> opts{1, 0, 0}; std::vector<double> x{1.5, 0, -2}, y{0.25, 4};
    mp::SolutionAdapter<mp::Problem> sa(0, &p, "hello", mp::ArrayRef<long>(opts.data(), opts.size()), x, y, 1);
    mp::WriteSolFile(path, sa);
    H h; h.nv = 3; h.nc = 2; mp::NLUtils u;
    auto r = mp::ReadSOLFile(path, h, u); ++n; std::string why;
    if (r.first != NLW2_SOLRead_OK) why = "the reader rejects the written file: " + r.second;
    else if (h.tables["iis"] != tabs[ti] || h.tables["slack"] != tabs[ti]) why = "the value table is read back differently";
    else if (h.sufs["i0iis"] != std::map<int, double>{{0, 3}, {2, -1}} || h.sufs["d1slack"] != std::map<int, double>{{1, 2.5}} || h.sufs["i2last"] != std::map<int, double>{{0, 9}}) why = "suffix values read back differently";
    if (!why.empty()) { printf("VIOLATED: suffixes with value table number %d: %s\n", ti, why.c_str()); bad = 1; }
  }
  remove(path);
  if (!bad) printf("ok: %d solutions written and read back\n", n);
  return bad ? 10 : 0;
}
