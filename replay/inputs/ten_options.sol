solver message

Options
10
1
1
0
0
0
0
0
0
0
0
1
1
2
2
0.5
1.5
2.5
objno 0 0
