msg

objno 0 0
suffix 0 1 4 0 2147483648
abc
0 1
