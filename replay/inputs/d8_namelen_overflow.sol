msg

objno 0 0
suffix 0 1 1073741824 5 1
ab
