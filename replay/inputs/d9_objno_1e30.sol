msg

objno 1e30 0
