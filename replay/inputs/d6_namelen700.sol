msg

objno 0 0
suffix 0 1 700 0 0
abc
