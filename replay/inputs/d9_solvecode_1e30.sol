msg

objno 0 1e30
