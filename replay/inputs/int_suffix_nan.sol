solver message

0.25
1.5
2.5
objno 0 0
suffix 0 1 4 0 0
foo
0 nan
