msg

objno 0 0
suffix 0 1 21474836484 0 0
abc
0 1
