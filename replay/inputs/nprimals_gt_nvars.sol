msg

Options
3
1
1
0
2
2
3
5
0.5
0.5
1
2
3
4
5
objno 0 0
