msg

objno 0 0
suffix 0 99999999999999 3 0 0
ab
