msg

objno 0 0
suffix 0 1 3 0 0
ab
0 1e30
