// Native replay for C03 (writer structure): the real mp::WriteNLFile (NLWriter2) -> the real mp::ReadNLFile.
//   c03_header_replay <seed> <n>        header mode: n random valid headers of a one-variable model (every header field that does not
//                                       drive a segment is random, options 0..9, vbtol form or not, text and binary): every field
//                                       reported by OnHeader must be the field given to the writer
//   c03_header_replay defvar            positions of defined variables: common group / single constraint (algebraic, logical) /
//                                       single objective, as EndCommonExpr reports them, against the NL format's definition
//   c03_header_replay linear            a small linear model in every column-size mode with several bound shapes: column sizes, variable
//                                       and constraint bounds and the J segments as the handler receives them
//   exit 10 = a field / position / value is not read back as written
#include <cstdio>
#include <cstdlib>
#include <cstring>
#include <map>
#include <random>
#include <string>
#include <vector>
#include <unistd.h>

#include "mp/nl-reader.h"
#include "mp/nl-feeder.h"
#include "mp/nl-utils.h"
#include "mp/nl-writer2.h"
#include "mp/nl-writer2.hpp"

static std::string stub() { const char *t = getenv("TMPDIR"); return std::string(t ? t : "/tmp") + "/vp_c03_hdr_" + std::to_string((long)getpid()); }

// ---------------------------------------------------------------- header mode
struct HFeeder : mp::NLFeeder<HFeeder, int> {
  mp::NLHeader h;
  mp::NLHeader Header() { return h; }
  int WantColumnSizes() const { return 0; }
  template <class W> void FeedVarBounds(W &w) { for (int i = 0; i < h.num_vars; ++i) w.WriteLbUb(0.0, 1.0); }
};
struct HHandler : mp::NullNLHandler<int> {
  mp::NLHeader got; bool seen = false;
  void OnHeader(const mp::NLHeader &x) { got = x; seen = true; }
};
static int bad;
#define CMP(FLD) do { if ((double)hd.got.FLD != (double)f.h.FLD) { if (bad++ < 8) printf("VIOLATED: header field " #FLD " written %.17g, read back %.17g (%s, %d options%s)\n", (double)f.h.FLD, (double)hd.got.FLD, f.h.format ? "binary" : "text", f.h.num_ampl_options, f.h.ampl_options[1] == 3 ? ", vbtol form" : ""); } } while (0)

static int header_mode(unsigned seed, int n) {
  std::mt19937_64 rng(seed);
  auto R = [&](int hi) { return (int)(rng() % (unsigned long)(hi + 1)); };
  const double VB[] = {0, 1e-6, 1.5e-7, 0.1, 1.0 / 3, 2.5e-9, 123456.789, 1e-300, 0.30000000000000004};
  for (int it = 0; it < n && bad < 8; ++it) {
    HFeeder f; mp::NLHeader &h = f.h; h = mp::NLHeader();
    h.format = (it & 1) ? mp::NLHeader::BINARY : mp::NLHeader::TEXT;
    h.num_vars = 1;
    h.num_ampl_options = R(9);
    for (int k = 0; k < h.num_ampl_options; ++k) h.ampl_options[k] = R(4) == 0 ? (long)(rng() % 2000001) - 1000000 : R(3);
    if (h.num_ampl_options > 1 && R(2) == 0) { h.ampl_options[1] = 3; h.ampl_vbtol = VB[R(8)]; }
    h.num_ranges = R(5); h.num_eqns = R(5);
    h.num_nl_net_cons = R(3); h.num_linear_net_cons = R(3);
    h.num_nl_vars_in_cons = R(1); h.num_nl_vars_in_objs = R(1); h.num_nl_vars_in_both = R(1);
    h.num_linear_net_vars = R(1);
    h.arith_kind = h.format == mp::NLHeader::BINARY ? mp::arith::GetKind() : 0;   /* a binary file states its arithmetic */
    h.flags = R(2) == 0 ? 1 : 0;
    h.num_linear_binary_vars = R(1); h.num_linear_integer_vars = R(1); h.num_nl_integer_vars_in_both = R(1); h.num_nl_integer_vars_in_cons = R(1); h.num_nl_integer_vars_in_objs = R(1);
    h.num_obj_nonzeros = 0; h.num_con_nonzeros = 0;
    h.max_con_name_len = R(40); h.max_var_name_len = R(40);
    h.prob_name = "vp";
    mp::NLUtils utl; std::string s = stub();
    auto res = mp::WriteNLFile(s, f, utl);
    if (res.first != NLW2_WriteNL_OK) { printf("write failed: %s\n", res.second.c_str()); return 2; }
    HHandler hd;
    try { mp::ReadNLFile(s + ".nl", hd); }
    catch (const std::exception &e) { if (!hd.seen) { if (bad++ < 8) printf("VIOLATED: the reader rejects the header the writer wrote: %s\n", e.what()); std::remove((s + ".nl").c_str()); continue; } }
    std::remove((s + ".nl").c_str());
    CMP(format); CMP(num_ampl_options);
    for (int k = 0; k < h.num_ampl_options; ++k) CMP(ampl_options[k]);
    if (h.num_ampl_options > 1 && h.ampl_options[1] == 3) CMP(ampl_vbtol);
    CMP(num_vars); CMP(num_algebraic_cons); CMP(num_objs); CMP(num_ranges); CMP(num_eqns); CMP(num_logical_cons);
    CMP(num_nl_cons); CMP(num_nl_objs); CMP(num_compl_conds); CMP(num_nl_compl_conds); CMP(num_nl_net_cons); CMP(num_linear_net_cons);
    CMP(num_nl_vars_in_cons); CMP(num_nl_vars_in_objs); CMP(num_nl_vars_in_both); CMP(num_linear_net_vars); CMP(num_funcs); CMP(flags);
    CMP(arith_kind);
    CMP(num_linear_binary_vars); CMP(num_linear_integer_vars); CMP(num_nl_integer_vars_in_both); CMP(num_nl_integer_vars_in_cons); CMP(num_nl_integer_vars_in_objs);
    CMP(num_con_nonzeros); CMP(num_obj_nonzeros);   /* the name lengths are recomputed by the writer from the names it writes */
    CMP(num_common_exprs_in_both); CMP(num_common_exprs_in_cons); CMP(num_common_exprs_in_objs); CMP(num_common_exprs_in_single_cons); CMP(num_common_exprs_in_single_objs);
  }
  if (bad) return 10;
  printf("ok: %d headers read back field by field\n", n);
  return 0;
}

// ---------------------------------------------------------------- defined-variable positions
struct Shape { int n_alg, n_log, n_obj; bool binary; };
struct DFeeder : mp::NLFeeder<DFeeder, int> {
  Shape s_; std::vector<int> items_;
  explicit DFeeder(Shape s) : s_(s) { items_.push_back(0); for (int i = 0; i < s.n_alg + s.n_log; ++i) items_.push_back(i + 1); for (int j = 0; j < s.n_obj; ++j) items_.push_back(-j - 1); }
  int nv() const { return 2; }
  mp::NLHeader Header() {
    mp::NLHeader h = mp::NLHeader();
    h.format = s_.binary ? mp::NLHeader::BINARY : mp::NLHeader::TEXT;
    h.num_vars = nv(); h.num_algebraic_cons = s_.n_alg; h.num_logical_cons = s_.n_log; h.num_objs = s_.n_obj;
    h.num_nl_cons = s_.n_alg; h.num_nl_objs = s_.n_obj; h.num_nl_vars_in_cons = nv(); h.num_nl_vars_in_objs = nv(); h.num_nl_vars_in_both = nv();
    h.num_con_nonzeros = 2 * s_.n_alg; h.num_common_exprs_in_both = 1; h.num_common_exprs_in_single_cons = s_.n_alg + s_.n_log; h.num_common_exprs_in_single_objs = s_.n_obj;
    h.prob_name = "vp";
    return h;
  }
  int WantColumnSizes() const { return 0; }
  int ObjType(int) { return 0; }
  template <class W> void FeedObjExpression(int j, W &ew) { ew.VPut(nv() + 1 + s_.n_alg + s_.n_log + j); }
  template <class W> void FeedConExpression(int i, W &ew) { if (i < s_.n_alg) ew.VPut(nv() + 1 + i); else { auto a = ew.OPut2(29, "ne"); a.VPut(nv() + 1 + i); a.NPut(0.0); } }
  template <class W> void FeedDefinedVariables(int k, W &dvw) {
    for (int d = 0; d < (int)items_.size(); ++d) { if (items_[d] != k) continue;
      auto dv = dvw.StartDefVar(nv() + d, 0, "dv"); { auto lw = dv.GetLinExprWriter(); (void)lw; } auto ew = dv.GetExprWriter(); auto a = ew.OPut2(2, "mul"); a.VPut(0); a.VPut(1); }
  }
  template <class W> void FeedVarBounds(W &w) { for (int i = 0; i < nv(); ++i) w.WriteLbUb(0.0, 10.0); }
  template <class W> void FeedConBounds(W &w) { for (int i = 0; i < s_.n_alg; ++i) { AlgConRange r; r.L = 0.0; r.U = 1.0; w.WriteAlgConRange(r); } }
  template <class W> void FeedLinearConExpr(int, W &f) { auto w = f.MakeVectorWriter(2); w.Write(0, 0.0); w.Write(1, 0.0); }
};
struct DHandler : mp::NullNLHandler<int> { std::map<int, int> pos; void EndCommonExpr(int index, int, int position) { pos[index] = position; } };

static int defvar_mode() {
  for (int binary = 0; binary < 2; ++binary) for (int na = 0; na <= 2; ++na) for (int nl = 0; nl <= 2; ++nl) for (int no = 0; no <= 2; ++no) {
    Shape s{na, nl, no, binary != 0}; DFeeder f(s); mp::NLUtils utl; std::string st = stub();
    auto res = mp::WriteNLFile(st, f, utl);
    if (res.first != NLW2_WriteNL_OK) { printf("write failed: %s\n", res.second.c_str()); return 2; }
    DHandler h;
    try { mp::ReadNLFile(st + ".nl", h); } catch (const std::exception &e) { if (bad++ < 8) printf("VIOLATED: the reader rejects what the writer wrote (%d alg, %d logical, %d obj): %s\n", na, nl, no, e.what()); }
    std::remove((st + ".nl").c_str());
    for (int d = 0; d < (int)f.items_.size(); ++d) {
      int k = f.items_[d], want = k >= 0 ? k : na + nl + (-k - 1) + 1, got = h.pos.count(d) ? h.pos[d] : -12345;
      if (got != want && bad++ < 8) printf("VIOLATED: defined variable fed for %s %d of a model with %d algebraic, %d logical constraints, %d objectives (%s): position read back %d, the NL format says %d\n",
                                            k == 0 ? "the common group" : k > 0 ? "constraint" : "objective", k > 0 ? k - 1 : -k - 1, na, nl, no, binary ? "binary" : "text", got, want);
    }
  }
  if (bad) return 10;
  printf("ok: defined-variable positions read back as the NL format defines them\n");
  return 0;
}

// ---------------------------------------------------------------- a small linear model: column sizes, bounds, J / G vectors as fed
struct LFeeder : mp::NLFeeder<LFeeder, int> {
  bool binary = false; int mode = 1; std::vector<int> cols; double lb[4], ub[4];
  mp::NLHeader Header() { mp::NLHeader h; h.format = binary ? mp::NLHeader::BINARY : mp::NLHeader::TEXT; h.num_vars = 4; h.num_algebraic_cons = 2; h.num_objs = 1; h.num_con_nonzeros = 6; h.num_obj_nonzeros = 1; return h; }
  int WantColumnSizes() const { return mode; }
  int ObjType(int) { return 0; }
  template <class W> void FeedObjGradient(int, W &f) { auto w = f.MakeVectorWriter(1); w.Write(0, 1.0); }
  template <class W> void FeedVarBounds(W &w) { for (int i = 0; i < 4; ++i) w.WriteLbUb(lb[i], ub[i]); }
  template <class W> void FeedConBounds(W &w) { AlgConRange r; r.L = -INFINITY; r.U = 10; w.WriteAlgConRange(r); r.L = 1.5; r.U = 1.5; w.WriteAlgConRange(r); }
  template <class W> void FeedLinearConExpr(int i, W &f) { auto w = f.MakeVectorWriter(3); w.Write(0, 1.0); w.Write(i == 0 ? 1 : 2, 0.25); w.Write(3, -3.0); }
  template <class W> void FeedColumnSizes(W &w) { if (mode) for (int s : cols) w.Write(s); }
  // suffixes: a real one with an entry, and a real and an integer one without entries (nothing is to be written for those)
  template <class W> void FeedSuffixes(W &swf) { { auto sw = swf.StartDblSuffix("wgt", 0 | 4, 1); sw.Write(1, 0.25); } { auto sw = swf.StartDblSuffix("ctol", 1 | 4, 0); (void)sw; } { auto sw = swf.StartIntSuffix("cprio", 1, 0); (void)sw; } { auto sw = swf.StartIntSuffix("prio", 0, 2); sw.Write(0, -7); sw.Write(2, 12345); } }
};
struct LHandler : mp::NullNLHandler<int> {
  std::vector<int> sizes; std::vector<double> vlb, vub, clb, cub; std::vector<std::pair<int, double>> jac;
  struct ColumnSizeHandler { std::vector<int> *v; void Add(int s) { v->push_back(s); } };
  ColumnSizeHandler OnColumnSizes() { return ColumnSizeHandler{&sizes}; }
  void OnVarBounds(int, double l, double u) { vlb.push_back(l); vub.push_back(u); }
  void OnConBounds(int, double l, double u) { clb.push_back(l); cub.push_back(u); }
  std::vector<std::pair<int, int>> isuf;
  struct IntSuffixHandler { std::vector<std::pair<int, int>> *v; void SetValue(int i, int val) { v->push_back({i, val}); } };
  IntSuffixHandler OnIntSuffix(fmt::StringRef, mp::suf::Kind, int) { return IntSuffixHandler{&isuf}; }
  struct LinearConHandler { std::vector<std::pair<int, double>> *v; void AddTerm(int i, double c) { v->push_back({i, c}); } };
  LinearConHandler OnLinearConExpr(int, int) { return LinearConHandler{&jac}; }
};
static int linear_mode() {
  const double B[][2] = {{0, 1}, {-INFINITY, 5}, {2.5, INFINITY}, {-INFINITY, INFINITY}, {3, 3}, {-1e-300, 1.7976931348623157e308}, {0.1, 0.30000000000000004}};
  for (int binary = 0; binary < 2; ++binary) for (int mode = 0; mode <= 2; ++mode) for (int b0 = 0; b0 < 7; ++b0) {
    LFeeder f; f.binary = binary; f.mode = mode; f.cols = {2, 1, 1};
    for (int i = 0; i < 4; ++i) { f.lb[i] = B[(b0 + i) % 7][0]; f.ub[i] = B[(b0 + i) % 7][1]; }
    mp::NLUtils utl; std::string st = stub();
    auto res = mp::WriteNLFile(st, f, utl);
    if (res.first != NLW2_WriteNL_OK) { printf("write failed: %s\n", res.second.c_str()); return 2; }
    LHandler h;
    try { mp::ReadNLFile(st + ".nl", h); } catch (const std::exception &e) { if (bad++ < 8) printf("VIOLATED: the reader rejects what the writer wrote: %s\n", e.what()); }
    std::remove((st + ".nl").c_str());
    std::vector<int> want = mode ? f.cols : std::vector<int>();
    if (h.sizes != want && bad++ < 8) { printf("VIOLATED: column sizes (mode %d, %s): fed {2,1,1}, read back {", mode, binary ? "binary" : "text"); for (int s : h.sizes) printf("%d,", s); printf("}\n"); }
    for (int i = 0; i < 4 && i < (int)h.vlb.size(); ++i) {
      double wl = f.lb[i] <= -1.7976931348623157e308 ? -INFINITY : f.lb[i], wu = f.ub[i] >= 1.7976931348623157e308 ? INFINITY : f.ub[i];
      if ((h.vlb[i] != wl || h.vub[i] != wu) && bad++ < 8) printf("VIOLATED: bounds of variable %d written [%.17g, %.17g], read back [%.17g, %.17g]\n", i, f.lb[i], f.ub[i], h.vlb[i], h.vub[i]);
    }
    if (h.vlb.size() != 4 && bad++ < 8) printf("VIOLATED: %d variable bounds read back, 4 written\n", (int)h.vlb.size());
    if ((h.clb.size() != 2 || h.clb[0] != -INFINITY || h.cub[0] != 10 || h.clb[1] != 1.5 || h.cub[1] != 1.5) && bad++ < 8) printf("VIOLATED: constraint bounds are not read back as written\n");
    std::vector<std::pair<int, double>> wj = {{0, 1.0}, {1, 0.25}, {3, -3.0}, {0, 1.0}, {2, 0.25}, {3, -3.0}};
    if (h.isuf != std::vector<std::pair<int, int>>{{0, -7}, {2, 12345}} && bad++ < 8) printf("VIOLATED: the integer suffix values (0: -7, 2: 12345) are not read back as written (%s)\n", binary ? "binary" : "text");
    if (h.jac != wj && bad++ < 8) printf("VIOLATED: the linear parts of the constraints (J segments) are not read back as written\n");
  }
  if (bad) return 10;
  printf("ok: column sizes, bounds and linear parts read back as fed\n");
  return 0;
}

int main(int argc, char **argv) {
  if (argc > 1 && !strcmp(argv[1], "defvar")) return defvar_mode();
  if (argc > 1 && !strcmp(argv[1], "linear")) return linear_mode();
  return header_mode(argc > 1 ? atoi(argv[1]) : 1, argc > 2 ? atoi(argv[2]) : 2000);
}
