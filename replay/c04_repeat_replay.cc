// Native replay for C04 (repeated transfers): a graph with CopyLinks and a One2ManyLink on the real ValuePresolver; several transfers in a
// row (warm start then solution, two answers, an answer without duals, a suffix then a solution) must each give the result of the
// documented rule, independent of the transfers before.  Adapted from the demonstration of the seeded change M42 (independent sub-agent).
// exit != 0 = a transfer depends on an earlier one.
// Demonstration for C04: every value transfer through the presolve links
// must be independent of the transfers performed before it.
//
// Graph:
//   src vars[0..2)  --CopyLink-->  dst vars[0..2)
//   src cons[0]     --One2Many-->  mid[0..2)  --CopyLink-->  dst cons[0..2)
//
// Documented rules: CopyLink copies; One2Many postsolve takes the max among
// the non-zero destination values; nodes are cleaned before each transfer.
#include <cstdio>
#include <cmath>
#include <limits>
#include <vector>
#include <memory>

#include "mp/valcvt.h"
#include "mp/flat/redef/std/range_con.h"
#include "mp/flat/constr_std.h"
#include "mp/env.h"

namespace {

struct NoLog : mp::BasicLogger {
  bool IsOpen() const override { return false; }
  bool Append(const char*) override { return true; }
};

struct Mdl : mp::BasicFlatModel {
  VarBndVec lb, ub;
  const VarBndVec& GetVarLBs() const override { return lb; }
  const VarBndVec& GetVarUBs() const override { return ub; }
};

/// A small conversion graph
struct Graph {
  mp::Env env;
  NoLog lg;
  Mdl model;
  mp::pre::ValuePresolver vp{model, env, lg};
  mp::pre::ValueNode mid{vp, "mid"};
  mp::pre::CopyLink cl_vars{vp};
  mp::pre::One2ManyLink o2m{vp};
  mp::pre::CopyLink cl_cons{vp};

  Graph() {
    const double inf = std::numeric_limits<double>::infinity();
    model.lb.assign(2, -inf);
    model.ub.assign(2, inf);
    auto& svars = vp.GetSourceNodes().GetVarValues()();
    auto& dvars = vp.GetTargetNodes().GetVarValues()();
    auto& scons = vp.GetSourceNodes().GetConValues()();
    auto& dcons = vp.GetTargetNodes().GetConValues()();
    cl_vars.AddEntry({ svars.Add(2), dvars.Add(2) });
    auto sc = scons.Add(1);
    auto md = mid.Add(2);
    o2m.AddEntry({ sc, md });
    cl_cons.AddEntry({ md, dcons.Add(2) });
  }
};

int nfail = 0;

void CheckVec(const char* what, const std::vector<double>& got,
              const std::vector<double>& exp) {
  bool ok = got.size()==exp.size();
  for (size_t i=0; ok && i<got.size(); ++i)
    ok = (got[i]==exp[i]);
  if (!ok) {
    ++nfail;
    std::printf("FAIL %s:\n  got     ", what);
    for (auto v: got) std::printf(" %g", v);
    std::printf("\n  expected");
    for (auto v: exp) std::printf(" %g", v);
    std::printf("\n");
  } else
    std::printf("ok   %s\n", what);
}

void CheckVecI(const char* what, const std::vector<int>& got,
               const std::vector<int>& exp) {
  CheckVec(what, std::vector<double>(got.begin(), got.end()),
           std::vector<double>(exp.begin(), exp.end()));
}

using MVD = mp::pre::ModelValuesDbl;
using MVI = mp::pre::ModelValuesInt;
using VD = std::vector<double>;
using VI = std::vector<int>;

}  // namespace

int main() {
  // 1. A single postsolve on a fresh graph: x copied, dual = max among non-0.
  {
    Graph g;
    auto r = g.vp.PostsolveSolution(MVD{ VD{1.5, -2.5}, VD{1.0, 2.0} });
    CheckVec("fresh postsolve: x", r.GetVarValues()(), {1.5, -2.5});
    CheckVec("fresh postsolve: dual", r.GetConValues()(), {2.0});
  }

  // 2. Warm start (with duals) sent to the solver, then the solver's answer
  //    is postsolved on the same graph. The answer must not depend
  //    on the warm start.
  {
    Graph g;
    auto p = g.vp.PresolveSolution(MVD{ VD{7.0, 8.0}, VD{5.0} });
    CheckVec("warm start: x", p.GetVarValues()(), {7.0, 8.0});
    CheckVec("warm start: duals", p.GetConValues()(), {5.0, 5.0});
    auto r = g.vp.PostsolveSolution(MVD{ VD{1.5, -2.5}, VD{1.0, 2.0} });
    CheckVec("postsolve after warm start: x",
             r.GetVarValues()(), {1.5, -2.5});
    CheckVec("postsolve after warm start: dual",
             r.GetConValues()(), {2.0});
  }

  // 3. Two solver answers in a row; the second one has smaller duals.
  {
    Graph g;
    auto r1 = g.vp.PostsolveSolution(MVD{ VD{1.0, 1.0}, VD{3.0, 4.0} });
    CheckVec("1st answer: dual", r1.GetConValues()(), {4.0});
    auto r2 = g.vp.PostsolveSolution(MVD{ VD{2.0, 3.0}, VD{0.5, -1.0} });
    CheckVec("2nd answer: x", r2.GetVarValues()(), {2.0, 3.0});
    CheckVec("2nd answer: dual", r2.GetConValues()(), {0.5});
  }

  // 4. An answer with duals, then an answer without any (e.g., a MIP
  //    solution): the duals reported must be zeros.
  {
    Graph g;
    auto r1 = g.vp.PostsolveSolution(MVD{ VD{1.0, 1.0}, VD{3.0, 4.0} });
    CheckVec("answer with duals: dual", r1.GetConValues()(), {4.0});
    auto r2 = g.vp.PostsolveSolution(MVD{ VD{2.0, 3.0} });
    CheckVec("answer w/o duals: x", r2.GetVarValues()(), {2.0, 3.0});
    CheckVec("answer w/o duals: dual", r2.GetConValues()(), {0.0});
  }

  // 5. A double-valued suffix sent down, then the solution comes back.
  {
    Graph g;
    auto p = g.vp.PresolveGenericDbl(MVD{ VD{0.0, 0.0}, VD{9.0} });
    CheckVec("suffix down: cons", p.GetConValues()(), {9.0, 9.0});
    auto r = g.vp.PostsolveSolution(MVD{ VD{1.0, 2.0}, VD{-3.0, 0.0} });
    CheckVec("solution after suffix: dual", r.GetConValues()(), {-3.0});
  }

  // 6. Same shapes with integer values (basis in, basis out; IIS).
  {
    Graph g;
    auto p = g.vp.PresolveBasis(MVI{ VI{1, 3}, VI{4} });
    CheckVecI("basis down: cons", p.GetConValues()(), {4, 4});
    auto r = g.vp.PostsolveBasis(MVI{ VI{3, 1}, VI{1, 3} });
    CheckVecI("basis up: vars", r.GetVarValues()(), {3, 1});
    CheckVecI("basis up: cons", r.GetConValues()(), {3});
    auto r2 = g.vp.PostsolveIIS(MVI{ VI{0, 0} });
    CheckVecI("IIS up w/o cons: cons", r2.GetConValues()(), {0});
  }

  if (nfail) {
    std::printf("%d check(s) FAILED: a value transfer depended "
                "on an earlier one\n", nfail);
    return 1;
  }
  std::printf("all checks passed\n");
  return 0;
}
