// Native replay driver (C04:model-suffix-kinds), adapted from the demonstration of a seeded change (round 11): an oracle over the REAL code;
// exit 0 = as the property says, exit 1 = a discrepancy (printed).  Built by vp/native.py against VP_REPO's working tree.
// Demonstration for property C04 ("values sent to the solver land on the
// images of the items they were given for").
//
// A flat backend reads a model suffix that may be declared on variables,
// constraints AND objectives (like .funcpieces) through
// FlatBackend::ReadModelSuffixInt/Dbl(), and presolves it through the value
// presolver.  The value given for the objective must arrive at the
// objective's image, the values given for the constraints at the
// constraints' images.
//
// Build (from the worktree root, after building the library):
//   g++ -std=c++17 -O1 -Iinclude demo.cc _build/lib/libmp.a -o demo
// Exit code 0: all as expected; non-zero: prints what went wrong.

#include <cstdio>
#include <vector>

#include "mp/problem.h"
#include "mp/flat/backend_flat.h"
#include "mp/valcvt.h"

namespace {

/// Plays the role of BackendWithModelManager + ModelManagerWithProblemBuilder:
/// suffix I/O goes straight to the NL-level mp::Problem.
class ProblemSuffixBackend {
public:
  virtual ~ProblemSuffixBackend() = default;

  mp::Problem& GetModel() { return problem_; }

  template <class T>
  mp::ArrayRef<T> ReadSuffix(const mp::SuffixDef<T>& suf)
  { return DoRead(suf); }

  /// The part of the backend interface which FlatBackend overrides / uses
  virtual mp::Solution GetSolution() = 0;
  virtual mp::ArrayRef<double> GetObjectiveValues() = 0;
  virtual mp::SensRanges GetSensRanges() = 0;
  bool IsProblemInfeasible() const { return false; }

private:
  mp::ArrayRef<int> DoRead(const mp::SuffixDef<int>& suf)
  { return problem_.ReadIntSuffix(suf); }
  mp::ArrayRef<double> DoRead(const mp::SuffixDef<double>& suf)
  { return problem_.ReadDblSuffix(suf); }

  mp::Problem problem_;
};

class DemoBackend : public mp::FlatBackend<ProblemSuffixBackend> {
public:
  using mp::FlatBackend<ProblemSuffixBackend>::ReadModelSuffixInt;
  using mp::FlatBackend<ProblemSuffixBackend>::ReadModelSuffixDbl;
  void UsePresolver(mp::pre::BasicValuePresolver* p) { SetValuePresolver(p); }
  mp::pre::BasicValuePresolver& Pre() { return GetValuePresolver(); }
};

struct NullLogger : mp::BasicLogger {
  bool IsOpen() const override { return false; }
  bool Append(const char* ) override { return true; }
};

int n_fail = 0;

template <class Vec, class T>
void Expect(const char* what, const Vec& got, std::vector<T> exp) {
  bool ok = got.size()==exp.size();
  for (size_t i=0; ok && i<exp.size(); ++i)
    ok = got[i]==exp[i];
  if (!ok) {
    ++n_fail;
    std::printf("MISMATCH %s:\n  expected [", what);
    for (auto v: exp) std::printf(" %g", (double)v);
    std::printf(" ]\n  got      [");
    for (size_t i=0; i<got.size(); ++i) std::printf(" %g", (double)got[i]);
    std::printf(" ]\n");
  } else
    std::printf("ok       %s\n", what);
}

}  // namespace

int main() {
  DemoBackend be;
  auto& p = be.GetModel();

  /// NL model: 3 variables, 2 algebraic constraints, 1 objective
  for (int i=0; i<3; ++i) p.AddVar(0.0, 10.0);
  for (int i=0; i<2; ++i) p.AddCon(-1.0, 1.0);
  p.AddObj(mp::obj::MIN);

  /// suffix funcpieces (int): on constraints {7, 9} and on the objective {3}
  {
    auto sc = p.AddIntSuffix("funcpieces", mp::suf::CON);
    sc.SetValue(0, 7); sc.SetValue(1, 9);
    auto so = p.AddIntSuffix("funcpieces", mp::suf::OBJ);
    so.SetValue(0, 3);
  }
  /// suffix funcpieceratio (double): only on the objective {0.25}
  {
    auto so = p.AddDblSuffix("funcpieceratio", mp::suf::OBJ, 0);
    so.SetValue(0, 0.25);
  }

  /// The conversion graph of an unconverted model, as ProblemFlattener and
  /// ConstraintKeeper::AddAllUnbridged build it: copy links
  /// vars -> vars, obj -> obj, cons -> rows.
  mp::BasicSolver env;
  NullLogger logger;
  mp::pre::ValuePresolverImpl vp(env, logger);
  mp::pre::CopyLink copy_link { (mp::pre::ValuePresolver&)vp };
  copy_link.AddEntry({
      vp.GetSourceNodes().GetVarValues().MakeSingleKey().Add(3),
      vp.GetTargetNodes().GetVarValues().MakeSingleKey().Add(3) });
  copy_link.AddEntry({
      vp.GetSourceNodes().GetObjValues()().Add(),
      vp.GetTargetNodes().GetObjValues()().Add() });
  for (int i=0; i<2; ++i)
    copy_link.AddEntry({
        vp.GetSourceNodes().GetConValues()().Add(),
        vp.GetTargetNodes().GetConValues()(0).Add() });
  be.UsePresolver(&vp);

  const int suf_mask = mp::suf::Kind::VAR_BIT | mp::suf::Kind::CON_BIT
      | mp::suf::Kind::OBJ_BIT;

  /// 1. What the backend reads for the original items
  auto mvi = be.ReadModelSuffixInt( {"funcpieces", suf_mask} );
  Expect("funcpieces read for variables",
         mvi.GetVarValues()(), std::vector<int>{});
  Expect("funcpieces read for constraints",
         mvi.GetConValues()(), std::vector<int>{7, 9});
  Expect("funcpieces read for objectives",
         mvi.GetObjValues()(), std::vector<int>{3});

  /// 2. Where it lands in the solver's model
  auto mvi1 = be.Pre().PresolveGenericInt(mvi);
  Expect("funcpieces at the solver's rows",
         mvi1.GetConValues()(0), std::vector<int>{7, 9});
  Expect("funcpieces at the solver's objective",
         mvi1.GetObjValues()(), std::vector<int>{3});

  /// 3. A suffix given for the objective only
  auto mvd = be.ReadModelSuffixDbl( {"funcpieceratio", suf_mask} );
  Expect("funcpieceratio read for constraints",
         mvd.GetConValues()(), std::vector<double>{});
  Expect("funcpieceratio read for objectives",
         mvd.GetObjValues()(), std::vector<double>{0.25});
  auto mvd1 = be.Pre().PresolveGenericDbl(mvd);
  Expect("funcpieceratio at the solver's rows",
         mvd1.GetConValues()(0), std::vector<double>{0.0, 0.0});
  Expect("funcpieceratio at the solver's objective",
         mvd1.GetObjValues()(), std::vector<double>{0.25});

  if (n_fail) {
    std::printf("FAILED: %d check(s): a suffix value given for an objective "
                "did not reach the objective's image\n", n_fail);
    return 1;
  }
  std::printf("all checks passed\n");
  return 0;
}
