// Native replay driver (C06:bounds-of-squared-terms), adapted from the demonstration of seeded change M67-C06-square-upper-bound-lx-ux: an oracle sweep over the REAL code;
// exit 0 = everything as the property says, exit 1 = a discrepancy (printed).  Built by vp/native.py against VP_REPO's working tree.
// Demonstration for property C06:
// bounds inferred for the auxiliary variable of a quadratic expression
// must contain every value the expression takes on the arguments' domain.
//
// Builds r == x*x (and r2 == 2*x*x - 3*x + 1) through the real FlatConverter
// and samples x over its domain.
//
// Build (from the worktree root):
//   g++ -std=c++17 -Iinclude -I_build/include demo.cc -L_build/lib -lmp -o demo   (see report)
// Exit code: 0 = bounds contain all sampled values, 1 = a value is cut off.

#include <cstdio>
#include <cmath>
#include <vector>

#include "mp/flat/converter.h"
#include "mp/flat/model_api_base.h"

namespace {

class DemoBackend : public mp::BasicFlatModelAPI {
  using Base = mp::BasicFlatModelAPI;
public:
  DemoBackend() { }
  DemoBackend(mp::Env& ) { }
  static constexpr const char* GetTypeName() { return "demo"; }
  void AddVariables(const mp::VarArrayDef& ) { }
  USE_BASE_CONSTRAINT_HANDLERS(Base)
};

using Converter = mp::FlatCvtImpl<mp::FlatConverter, DemoBackend>;

/// @return number of violations
int CheckSquare(double lbx, double ubx) {
  mp::Env env;
  Converter cvt(env);
  int x = (int)cvt.AddVar(lbx, ubx, mp::var::CONTINUOUS);

  // r == x*x
  mp::QuadraticExpr qe1(
        mp::QuadAndLinTerms{ mp::LinTerms{}, mp::QuadTerms{ {1.0}, {x}, {x} } },
        0.0);
  int r1 = cvt.AssignResultVar2Args(
        mp::QuadraticFunctionalConstraint(std::move(qe1)));

  // r2 == 2*x*x - 3*x + 1
  mp::QuadraticExpr qe2(
        mp::QuadAndLinTerms{ mp::LinTerms{ {-3.0}, {x} },
                             mp::QuadTerms{ {2.0}, {x}, {x} } },
        1.0);
  int r2 = cvt.AssignResultVar2Args(
        mp::QuadraticFunctionalConstraint(std::move(qe2)));

  const double l1 = cvt.lb(r1), u1 = cvt.ub(r1);
  const double l2 = cvt.lb(r2), u2 = cvt.ub(r2);
  std::printf("x in [%g, %g]:  x*x in [%g, %g],  2x^2-3x+1 in [%g, %g]\n",
              lbx, ubx, l1, u1, l2, u2);

  int bad = 0;
  const int N = 200;
  for (int i=0; i<=N; ++i) {
    double xv = lbx + (ubx-lbx) * i / N;
    double v1 = xv*xv;
    double v2 = 2*xv*xv - 3*xv + 1;
    const double eps = 1e-9;
    if (v1 < l1-eps || v1 > u1+eps) {
      if (!bad)
        std::printf("  VIOLATION: x=%g gives x*x=%g, "
                    "outside inferred bounds [%g, %g]\n", xv, v1, l1, u1);
      ++bad;
    }
    if (v2 < l2-eps || v2 > u2+eps) {
      if (!bad)
        std::printf("  VIOLATION: x=%g gives 2x^2-3x+1=%g, "
                    "outside inferred bounds [%g, %g]\n", xv, v2, l2, u2);
      ++bad;
    }
  }
  return bad;
}

} // namespace

int main() {
  int bad = 0;
  // 'ordinary' domains
  bad += CheckSquare(0.0, 5.0);
  bad += CheckSquare(1.0, 4.0);
  bad += CheckSquare(-2.0, 2.0);
  bad += CheckSquare(-1.0, 11.0);
  // negative side is the larger one
  bad += CheckSquare(-3.0, 2.0);
  bad += CheckSquare(-5.0, -1.0);
  if (bad) {
    std::printf("FAIL: %d sampled values are cut off by the inferred bounds\n",
                bad);
    return 1;
  }
  std::printf("OK: inferred bounds contain all sampled values\n");
  return 0;
}
