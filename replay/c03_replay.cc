// Native replay for C03 (binary constants): real mp::BinaryFormatter::nput writes r to a file, the real
// mp::internal::NLReader<BinaryReader<>>::ReadConstant() reads the bytes back.
// usage: c03_replay <double> | hex:<16 hex digits of the bit pattern>     exit 10 = not read back identically, or the reader consumes another number of bytes than the writer produced
#include <cstdio>
#include <cstdlib>
#include <cstring>
#include <cmath>
#include <string>
#include <vector>
#include <unistd.h>
#define private public
#define protected public
#include "mp/nl-reader.h"
#undef private
#undef protected
#include "mp/nl-writer2-misc.h"
#include "mp/nl-utils.h"

int main(int argc, char **argv) {
  if (argc < 2) return 2;
  double r;
  if (!strncmp(argv[1], "hex:", 4)) { unsigned long long b = strtoull(argv[1] + 4, 0, 16); memcpy(&r, &b, 8); }
  else r = strtod(argv[1], 0);
  char path[] = "/tmp/c03_replayXXXXXX"; int fd = mkstemp(path); close(fd);
  { mp::NLUtils u; mp::BinaryFormatter bf(u, false, 0); mp::File f; f.Open(path, "wb"); bf.nput(f, r); }
  FILE *fp = fopen(path, "rb"); std::vector<char> buf(64, 0); size_t n = fread(buf.data(), 1, 32, fp); fclose(fp); remove(path);
  typedef mp::internal::BinaryReader<> Reader;
  mp::internal::ReaderBase base(mp::NLStringRef(buf.data(), n), "(replay)");
  Reader reader(base);
  mp::NLHeader h = mp::NLHeader();
  mp::NullNLHandler<int> handler;
  mp::internal::NLReader<Reader, mp::NullNLHandler<int> > nlr(reader, h, handler, 0);
  double back;
  try { back = nlr.ReadConstant(); }
  catch (const std::exception &e) { printf("VIOLATED: the reader rejects the bytes the writer produced for %.17g: %s\n", r, e.what()); return 10; }
  size_t used = reader.ptr_ - reader.start_;
  unsigned long long br, bb; memcpy(&br, &r, 8); memcpy(&bb, &back, 8);
  bool ok = (r != r) ? (back != back) : (back == r && (br == bb || r == 0.0));
  printf("wrote %.17g (%016llx) in %zu bytes, read back %.17g (%016llx)\n", r, br, n, back, bb);
  if (used != n) { printf("VIOLATED: the writer produced %zu bytes for the constant, the reader consumes %zu: every following item is shifted\n", n, used); return 10; }
  if (!ok) { printf("VIOLATED: the binary NL constant is not read back identically\n"); return 10; }
  return 0;
}
