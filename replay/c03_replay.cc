// Native replay for C03 (binary constants): real mp::BinaryFormatter::nput writes r to a file, the real
// mp::internal::NLReader<BinaryReader<>>::ReadConstant() reads the bytes back.
// usage: c03_replay <double> | hex:<16 hex digits of the bit pattern>     exit 10 = not read back identically, or the reader consumes another number of bytes than the writer produced
#include <cstdio>
#include <cstdlib>
#include <cstring>
#include <cmath>
#include <string>
#include <vector>
#include <unistd.h>
#define private public
#define protected public
#include "mp/nl-reader.h"
#undef private
#undef protected
#include "mp/nl-writer2-misc.h"
#include "mp/nl-utils.h"

// --text-sweep: every decade of the double range (3 mantissas, both signs) through the real TextFormatter::nput and the real TextReader /
// ReadConstant.  The shortest-digits output of dtoa is trusted to round-trip (one known upstream exception is tolerated: the value must read
// back within one unit in the last place); what is checked is that the text is the number dtoa produced (exponent, point position, digits).
static int text_sweep() {
  std::vector<double> v;
  for (int e = -323; e <= 308; ++e) for (double m : {1.0, 2.5, 7.3}) { double x = m * std::pow(10.0, e); if (std::isfinite(x) && x != 0) { v.push_back(x); v.push_back(-x); } }
  for (double x : {0.0, 1.0, -1.0, 0.1, 123456.789, 1e15, 1e16, 1e21, 1e22, 1e-4, 1e-5, 9.999999999999999e22, 5e-324, 1.7976931348623157e308}) v.push_back(x);
  char path[] = "/tmp/c03_textXXXXXX"; int fd = mkstemp(path); close(fd);
  { mp::NLUtils u; mp::TextFormatter tf(u, false, 0); mp::File f; f.Open(path, "wb"); for (double r : v) tf.nput(f, r); }
  FILE *fp = fopen(path, "rb"); std::string bytes; int c; while ((c = fgetc(fp)) != EOF) bytes += (char)c; fclose(fp); remove(path);
  mp::internal::TextReader<> reader(mp::NLStringRef(bytes.c_str(), bytes.size()), "(replay)");
  mp::NLHeader h = mp::NLHeader(); mp::NullNLHandler<int> handler;
  mp::internal::NLReader<mp::internal::TextReader<>, mp::NullNLHandler<int> > nlr(reader, h, handler, 0);
  for (size_t i = 0; i < v.size(); ++i) {
    double back;
    try { back = nlr.ReadConstant(); } catch (const std::exception &e) { printf("VIOLATED: text constant %zu (%.17g): the reader rejects the writer's text: %s\n", i, v[i], e.what()); return 10; }
    double tol = std::fabs(v[i]) * 4.5e-16;
    if (!(std::fabs(back - v[i]) <= tol)) { printf("VIOLATED: text constant %.17g is read back as %.17g\n", v[i], back); return 10; }
  }
  if (reader.ptr_ != reader.end_) { printf("VIOLATED: the reader leaves %ld bytes of the writer's text unconsumed\n", (long)(reader.end_ - reader.ptr_)); return 10; }
  printf("ok: %zu text constants over every decade read back\n", v.size());
  return 0;
}
int main(int argc, char **argv) {
  if (argc < 2) return 2;
  if (!strcmp(argv[1], "--text-sweep")) return text_sweep();
  double r;
  if (!strncmp(argv[1], "hex:", 4)) { unsigned long long b = strtoull(argv[1] + 4, 0, 16); memcpy(&r, &b, 8); }
  else r = strtod(argv[1], 0);
  char path[] = "/tmp/c03_replayXXXXXX"; int fd = mkstemp(path); close(fd);
  { mp::NLUtils u; mp::BinaryFormatter bf(u, false, 0); mp::File f; f.Open(path, "wb"); bf.nput(f, r); }
  FILE *fp = fopen(path, "rb"); std::vector<char> buf(64, 0); size_t n = fread(buf.data(), 1, 32, fp); fclose(fp); remove(path);
  typedef mp::internal::BinaryReader<> Reader;
  mp::internal::ReaderBase base(mp::NLStringRef(buf.data(), n), "(replay)");
  Reader reader(base);
  mp::NLHeader h = mp::NLHeader();
  mp::NullNLHandler<int> handler;
  mp::internal::NLReader<Reader, mp::NullNLHandler<int> > nlr(reader, h, handler, 0);
  double back;
  try { back = nlr.ReadConstant(); }
  catch (const std::exception &e) { printf("VIOLATED: the reader rejects the bytes the writer produced for %.17g: %s\n", r, e.what()); return 10; }
  size_t used = reader.ptr_ - reader.start_;
  unsigned long long br, bb; memcpy(&br, &r, 8); memcpy(&bb, &back, 8);
  bool ok = (r != r) ? (back != back) : (back == r && (br == bb || r == 0.0));
  printf("wrote %.17g (%016llx) in %zu bytes, read back %.17g (%016llx)\n", r, br, n, back, bb);
  if (used != n) { printf("VIOLATED: the writer produced %zu bytes for the constant, the reader consumes %zu: every following item is shifted\n", n, used); return 10; }
  if (!ok) { printf("VIOLATED: the binary NL constant is not read back identically\n"); return 10; }
  return 0;
}
