// Native replay for the C10 pass-through harnesses: a real SolutionWriterImpl writes final and intermediate .sol files for every solve code
// -200..999 through the real SolutionAdapter and mp::WriteSolFile; the objno line of each file must carry the code that was handed in.
// Adapted from the demonstration of the seeded change M30 (independent sub-agent).  exit != 0 = a file carries another code.
// C10 demo: the solve-result code written to a .sol file must be the code
// that was handed to the solution writer - for the final solution
// (SolutionWriterImpl::HandleSolution) AND for intermediate solutions
// written with a solution stub (SolutionWriterImpl::HandleFeasibleSolution).
//
// Build:
//   g++ -std=c++17 -w -DMP_DATE=20240101 -I/tmp/sa_C10c/include demo.cc \
//       /tmp/sa_C10c/_build/lib/libmp.a -o demo
#include <cstdio>
#include <cstdlib>
#include <fstream>
#include <string>
#include <unistd.h>

#include "mp/problem.h"
#include "mp/sol.h"
#include "mp/solver-io.h"

// Minimal "solver" exposing what SolutionWriterImpl needs.
struct FakeSolver {
  std::string stub;
  const char *solution_stub() const { return stub.c_str(); }
  int objno_used() const { return 1; }
  bool need_multiple_solutions() const { return false; }
};

// Returns the solve code from the "objno <n> <code>" line, or -99999.
static int ReadCode(const std::string &fname) {
  std::ifstream in(fname.c_str());
  std::string line;
  int result = -99999;
  while (std::getline(in, line)) {
    int on = 0, code = 0;
    if (std::sscanf(line.c_str(), "objno %d %d", &on, &code) == 2)
      result = code;
  }
  return result;
}

int main() {
  char dirtmpl[] = "/tmp/c10demoXXXXXX";
  const char *dir = mkdtemp(dirtmpl);
  if (!dir) { std::perror("mkdtemp"); return 2; }
  std::string base = std::string(dir) + "/";

  mp::Problem pb;
  pb.AddVar(0, 10, mp::var::CONTINUOUS);
  pb.AddVar(0, 10, mp::var::CONTINUOUS);
  pb.AddCon(0, 1);

  FakeSolver solver;
  solver.stub = base + "interm";       // as with option sol:stub=...
  mp::SolutionWriterImpl<FakeSolver, mp::Problem>
      writer(base + "final", solver, pb);

  const double x[] = {1, 2};
  const double y[] = {3};

  int nfail = 0, nchecked = 0;
  int firstbad_code = 0, firstbad_written = 0;
  const char *firstbad_kind = "";
  int k = 0;                           // intermediate solution counter
  for (int code = -200; code <= 999; ++code) {
    // Final solution -> <stub>.sol
    writer.HandleSolution(code, "final msg", x, y, 5.0);
    int wfinal = ReadCode(base + "final.sol");
    ++nchecked;
    if (wfinal != code) {
      if (!nfail++) {
        firstbad_code = code; firstbad_written = wfinal;
        firstbad_kind = "final (HandleSolution)";
      }
    }
    // Intermediate solution -> <solution_stub><k>.sol
    writer.HandleFeasibleSolution(code, "interm msg", x, y, 5.0);
    ++k;
    std::string fn = solver.stub + std::to_string(k) + ".sol";
    int winterm = ReadCode(fn);
    std::remove(fn.c_str());
    ++nchecked;
    if (winterm != code) {
      if (!nfail++) {
        firstbad_code = code; firstbad_written = winterm;
        firstbad_kind = "intermediate (HandleFeasibleSolution)";
      }
    }
  }
  std::remove((base + "final.sol").c_str());
  rmdir(dir);

  if (nfail) {
    std::printf("FAIL: %d of %d .sol files carry a solve code different "
                "from the one reported.\n  first: %s solution, "
                "reported code %d, written code %d\n",
                nfail, nchecked, firstbad_kind,
                firstbad_code, firstbad_written);
    return 1;
  }
  std::printf("OK: all %d .sol files carry the reported solve code\n",
              nchecked);
  return 0;
}
