// Native replay driver (C07: piecewise-linear evaluator), adapted from the demonstration of a seeded change (round 12); exit 0 = ok, exit 1 = discrepancy.
// Demonstration for the solution check of a piecewise-linear
// functional constraint y = pl(x), evaluated at a point x which lies
// to the LEFT of the first PL point, where the first segment
// has a nonzero slope.
//
// PL points: (0,0), (1,2), (3,2).  Slope of the 1st segment = 2,
// so for x<0 the function continues as pl(x) = 2*x, e.g. pl(-1) = -2.
//
// Exit code 0: the check behaves correctly.
// Non-zero: the check gave a wrong verdict (message printed).

#include <cstdio>
#include <vector>

#include "mp/flat/constr_std.h"
#include "mp/flat/constr_keeper.h"

using namespace mp;

namespace {

/// Run the check of  x[1] == pl(x[0])  the same way
/// ConstraintKeeper::ComputeViolations() does:
/// con.ComputeViolation(x).Check(feastol, feastolrel).
bool ReportsViolation(const PLConstraint& con,
                      std::vector<double> xv,
                      double* pviol=nullptr) {
  std::vector<var::Type> type(xv.size(), var::CONTINUOUS);
  std::vector<double> lb(xv.size(), -1e20), ub(xv.size(), 1e20);
  VarInfoStatic x(1e-6, false /*solver's values*/,
                  xv, {}, type, lb, ub, 100, 100);
  auto viol = con.ComputeViolation(x);
  if (pviol)
    *pviol = viol.viol_;
  return viol.Check(1e-6, 1e-6).first;
}

}  // namespace

int main() {
  PLPoints plp({0.0, 1.0, 3.0}, {0.0, 2.0, 2.0});
  PLConstraint con(PLConstraint::Arguments{0},
                   PLConstraint::Parameters{plp});
  con.SetResultVar(1);
  con.SetContext(Context::CTX_MIX);
  con.SetName("pl_con");

  int bad = 0;

  // 0. Plain evaluation.
  std::vector<double> xx {-1.0, 0.0};
  double v = ComputeValue(con, xx);
  std::printf("ComputeValue(pl, x=-1) = %g (expected -2)\n", v);
  if (v != -2.0) {
    std::printf("  WRONG: pl(-1) evaluated as %g instead of -2\n", v);
    ++bad;
  }

  // 1. Feasible point: x=-1, y=pl(-1)=-2. No violation may be reported.
  double viol {};
  bool r1 = ReportsViolation(con, {-1.0, -2.0}, &viol);
  std::printf("feasible point   (x=-1, y=-2): reported=%d viol=%g\n",
              (int)r1, viol);
  if (r1) {
    std::printf("  WRONG: a point satisfying y==pl(x) "
                "is reported as violated by %g\n", viol);
    ++bad;
  }

  // 2. Infeasible point: x=-1, y=2 (true pl(-1)=-2, gap 4).
  bool r2 = ReportsViolation(con, {-1.0, 2.0}, &viol);
  std::printf("infeasible point (x=-1, y=+2): reported=%d viol=%g\n",
              (int)r2, viol);
  if (!r2) {
    std::printf("  WRONG: a point violating y==pl(x) by 4 "
                "is NOT reported\n");
    ++bad;
  }

  // 3. Sanity: points inside and to the right of the PL points,
  // and to the left for a zero first slope, behave as usual.
  if (ReportsViolation(con, {0.5, 1.0})
      || ReportsViolation(con, {5.0, 2.0})
      || !ReportsViolation(con, {0.5, 1.5})) {
    std::printf("  WRONG: inner / right-hand points misjudged\n");
    ++bad;
  }
  {
    PLPoints plp0({0.0, 1.0, 3.0}, {1.0, 1.0, 4.0});
    PLConstraint con0(PLConstraint::Arguments{0},
                      PLConstraint::Parameters{plp0});
    con0.SetResultVar(1);
    con0.SetContext(Context::CTX_MIX);
    if (ReportsViolation(con0, {-7.0, 1.0})) {
      std::printf("  WRONG: zero-preslope case misjudged\n");
      ++bad;
    }
  }

  if (bad)
    std::printf("FAIL: %d wrong verdict(s)\n", bad);
  else
    std::printf("OK\n");
  return bad ? 1 : 0;
}
