// Native replay for the C02 expression-reader contracts: a generator builds random expression trees over EVERY opcode of the
// real opcode table (mp::internal::GetOpCodeInfo), writes them as a text NL model and reads the model back with the real
// mp::ReadNLString into a handler that (a) rebuilds a canonical string of every expression from the notifications and
// (b) checks the same clauses as the handler stubs of specs/C02_expr.py natively: argument counts announced vs delivered,
// Begin/End nesting, index ranges.  A well-formed generated model must be read without error and give the generated
// strings.   usage: c02_expr_replay [seed] [count]        exit 10 = violation (the failing model is printed)
#include <cstdio>
#include <cstdlib>
#include <string>
#include <vector>
#include <sstream>
#include "mp/nl-reader.h"

typedef std::string S;
static unsigned long long rng = 88172645463325252ULL;
static unsigned rnd(unsigned n) { rng ^= rng << 13; rng ^= rng >> 7; rng ^= rng << 17; return (unsigned)((rng >> 11) % n); }
static S num(double v) { char b[64]; snprintf(b, sizeof b, "%.17g", v); return b; }
static S itos(long v) { return std::to_string(v); }

static const int NVARS = 3, NCEXPR = 1, NFUNCS = 2;
static std::vector<int> numeric_ops, logical_ops;
static int count_opcode = -1;

struct Gen { S nl, canon; };     // NL text of an expression and its canonical string

static Gen gen_numeric(int depth, bool top);
static Gen gen_logical(int depth);
static double some_number() { static const double V[] = {1, -3, 0.5, 7, 2.25, -1e10, 42}; return V[rnd(7)]; }
static Gen leaf_numeric() {
  Gen g;
  if (rnd(2)) { double v = some_number(); g.nl = "n" + num(v) + "\n"; g.canon = "n" + num(v); }
  else { int i = rnd(NVARS + NCEXPR); g.nl = "v" + itos(i) + "\n"; g.canon = i < NVARS ? "v" + itos(i) : "c" + itos(i - NVARS); }
  return g;
}
static Gen gen_symbolic(int depth) {
  Gen g;
  unsigned k = rnd(4);
  if (k == 0) { static const char *W[] = {"abc", "", "x y", "q\nr"}; S w = W[rnd(4)]; g.nl = "h" + itos((long)w.size()) + ":" + w + "\n"; g.canon = "h[" + w + "]"; return g; }
  if (k == 1 && depth > 0) {   // symbolic if
    int op = mp::expr::nl_opcode(mp::expr::IFSYM);
    Gen c = gen_logical(depth - 1), t = gen_symbolic(depth - 1), e = gen_symbolic(depth - 1);
    g.nl = "o" + itos(op) + "\n" + c.nl + t.nl + e.nl; g.canon = "ifsym(" + c.canon + "," + t.canon + "," + e.canon + ")"; return g;
  }
  return gen_numeric(depth, false);
}
static Gen gen_count(int depth) {
  Gen g; int n = 1 + rnd(3);
  g.nl = "o" + itos(count_opcode) + "\n" + itos(n) + "\n"; g.canon = "count" + itos(n) + "(";
  for (int i = 0; i < n; ++i) { Gen a = gen_logical(depth - 1); g.nl += a.nl; g.canon += a.canon + ","; }
  g.canon += ")"; return g;
}
static Gen gen_numeric(int depth, bool top) {
  if (depth <= 0 && !top) return leaf_numeric();
  unsigned pick = rnd((unsigned)numeric_ops.size() + 2);
  if (pick >= numeric_ops.size()) {
    if (pick == numeric_ops.size() && !top) return leaf_numeric();
    // function call
    Gen g; int f = rnd(NFUNCS), n = rnd(4);
    g.nl = "f" + itos(f) + " " + itos(n) + "\n"; g.canon = "call" + itos(f) + ":" + itos(n) + "(";
    for (int i = 0; i < n; ++i) { Gen a = gen_symbolic(depth - 1); g.nl += a.nl; g.canon += a.canon + ","; }
    g.canon += ")"; return g;
  }
  int op = numeric_ops[pick];
  const mp::internal::OpCodeInfo &info = mp::internal::GetOpCodeInfo(op);
  Gen g; g.nl = "o" + itos(op) + "\n"; S k = itos(info.kind);
  switch (info.first_kind) {
  case mp::expr::FIRST_UNARY: { Gen a = gen_numeric(depth - 1, false); g.nl += a.nl; g.canon = "u" + k + "(" + a.canon + ")"; break; }
  case mp::expr::FIRST_BINARY: { Gen a = gen_numeric(depth - 1, false), b = gen_numeric(depth - 1, false); g.nl += a.nl + b.nl; g.canon = "b" + k + "(" + a.canon + "," + b.canon + ")"; break; }
  case mp::expr::IF: { Gen c = gen_logical(depth - 1), t = gen_numeric(depth - 1, false), e = gen_numeric(depth - 1, false);
    g.nl += c.nl + t.nl + e.nl; g.canon = "if(" + c.canon + "," + t.canon + "," + e.canon + ")"; break; }
  case mp::expr::PLTERM: { int ns = 2 + rnd(3); g.nl += itos(ns) + "\n"; g.canon = "pl" + itos(ns - 1) + "(";
    for (int i = 0; i < ns - 1; ++i) { double s = some_number(), b = some_number(); g.nl += "n" + num(s) + "\nn" + num(b) + "\n"; g.canon += "s" + num(s) + ",b" + num(b) + ","; }
    double s = some_number(); int v = rnd(NVARS + NCEXPR); g.nl += "n" + num(s) + "\nv" + itos(v) + "\n";
    g.canon += "s" + num(s) + ";" + (v < NVARS ? "v" + itos(v) : "c" + itos(v - NVARS)) + ")"; break; }
  case mp::expr::FIRST_VARARG: { int n = 1 + rnd(3); g.nl += itos(n) + "\n"; g.canon = "va" + k + ":" + itos(n) + "(";
    for (int i = 0; i < n; ++i) { Gen a = gen_numeric(depth - 1, false); g.nl += a.nl; g.canon += a.canon + ","; } g.canon += ")"; break; }
  case mp::expr::SUM: { int n = 3 + rnd(2); g.nl += itos(n) + "\n"; g.canon = "sum" + itos(n) + "(";
    for (int i = 0; i < n; ++i) { Gen a = gen_numeric(depth - 1, false); g.nl += a.nl; g.canon += a.canon + ","; } g.canon += ")"; break; }
  case mp::expr::COUNT: { int n = 1 + rnd(3); g.nl += itos(n) + "\n"; g.canon = "count" + itos(n) + "(";
    for (int i = 0; i < n; ++i) { Gen a = gen_logical(depth - 1); g.nl += a.nl; g.canon += a.canon + ","; } g.canon += ")"; break; }
  case mp::expr::NUMBEROF: { int n = 1 + rnd(3); g.nl += itos(n) + "\n"; g.canon = "numberof" + itos(n) + "(";
    for (int i = 0; i < n; ++i) { Gen a = gen_numeric(depth - 1, false); g.nl += a.nl; g.canon += a.canon + ","; } g.canon += ")"; break; }
  case mp::expr::NUMBEROF_SYM: { int n = 1 + rnd(3); g.nl += itos(n) + "\n"; g.canon = "numberofsym" + itos(n) + "(";
    for (int i = 0; i < n; ++i) { Gen a = gen_symbolic(depth - 1); g.nl += a.nl; g.canon += a.canon + ","; } g.canon += ")"; break; }
  default: return leaf_numeric();
  }
  return g;
}
static Gen gen_logical(int depth) {
  if (depth <= 0) { Gen g; int v = rnd(2); g.nl = "n" + itos(v) + "\n"; g.canon = v ? "true" : "false"; return g; }
  int op = logical_ops[rnd((unsigned)logical_ops.size())];
  const mp::internal::OpCodeInfo &info = mp::internal::GetOpCodeInfo(op);
  Gen g; g.nl = "o" + itos(op) + "\n"; S k = itos(info.kind);
  switch (info.first_kind) {
  case mp::expr::NOT: { Gen a = gen_logical(depth - 1); g.nl += a.nl; g.canon = "not(" + a.canon + ")"; break; }
  case mp::expr::FIRST_BINARY_LOGICAL: { Gen a = gen_logical(depth - 1), b = gen_logical(depth - 1); g.nl += a.nl + b.nl; g.canon = "bl" + k + "(" + a.canon + "," + b.canon + ")"; break; }
  case mp::expr::FIRST_RELATIONAL: { Gen a = gen_numeric(depth - 1, false), b = gen_numeric(depth - 1, false); g.nl += a.nl + b.nl; g.canon = "rel" + k + "(" + a.canon + "," + b.canon + ")"; break; }
  case mp::expr::FIRST_LOGICAL_COUNT: { Gen a = gen_numeric(depth - 1, false), c = gen_count(depth); g.nl += a.nl + c.nl; g.canon = "lc" + k + "(" + a.canon + "," + c.canon + ")"; break; }
  case mp::expr::IMPLICATION: { Gen c = gen_logical(depth - 1), t = gen_logical(depth - 1), e = gen_logical(depth - 1);
    g.nl += c.nl + t.nl + e.nl; g.canon = "impl(" + c.canon + "," + t.canon + "," + e.canon + ")"; break; }
  case mp::expr::FIRST_ITERATED_LOGICAL: { int n = 3 + rnd(2); g.nl += itos(n) + "\n"; g.canon = "il" + k + ":" + itos(n) + "(";
    for (int i = 0; i < n; ++i) { Gen a = gen_logical(depth - 1); g.nl += a.nl; g.canon += a.canon + ","; } g.canon += ")"; break; }
  case mp::expr::FIRST_PAIRWISE: { int n = 1 + rnd(3); g.nl += itos(n) + "\n"; g.canon = "pw" + k + ":" + itos(n) + "(";
    for (int i = 0; i < n; ++i) { Gen a = gen_numeric(depth - 1, false); g.nl += a.nl; g.canon += a.canon + ","; } g.canon += ")"; break; }
  default: { int v = rnd(2); g.nl = "n" + itos(v) + "\n"; g.canon = v ? "true" : "false"; }
  }
  return g;
}

static int violations;
static void bad(const S &what) { printf("VIOLATED: %s\n", what.c_str()); ++violations; }

struct Checker : mp::NullNLHandler<S> {
  int depth = 0;
  S con, lcon, obj, cexpr;
  struct Args { Checker *h; int expected, added, depth; S s; int bps;
    void AddArg(const S &a) { if (depth != h->depth) bad("argument added outside the innermost open Begin"); if (added >= expected) bad("more arguments than announced"); ++added; s += a + ","; }
    void AddSlope(double v) { if (added != bps) bad("slopes and breakpoints do not alternate"); ++added; s += "s" + num(v) + ","; }
    void AddBreakpoint(double v) { if (bps + 1 != added) bad("slopes and breakpoints do not alternate"); ++bps; s += "b" + num(v) + ","; } };
  typedef Args CallArgHandler, PLTermHandler, VarArgHandler, NumericArgHandler, NumberOfArgHandler, SymbolicArgHandler, CountArgHandler, LogicalArgHandler, PairwiseArgHandler;
  typedef S Expr, NumericExpr, LogicalExpr, CountExpr, Reference;
  Args begin(int n, const S &head) { if (n < 0) bad("negative argument count announced"); ++depth; Args a; a.h = this; a.expected = n; a.added = 0; a.depth = depth; a.s = head; a.bps = 0; return a; }
  S end(Args a) { if (a.depth != depth) bad("End does not match the innermost open Begin"); if (a.added != a.expected) bad("announced " + itos(a.expected) + " arguments, delivered " + itos(a.added)); --depth; return a.s + ")"; }
  S OnNumber(double v) { return "n" + num(v); }
  S OnBool(bool v) { return v ? "true" : "false"; }
  S OnString(fmt::StringRef s) { return "h[" + S(s.data() ? s.data() : "", s.size()) + "]"; }
  S OnVariableRef(int i) { if (i < 0 || i >= NVARS) bad("variable index out of range"); return "v" + itos(i); }
  S OnCommonExprRef(int i) { if (i < 0 || i >= NCEXPR) bad("common expression index out of range"); return "c" + itos(i); }
  S OnUnary(mp::expr::Kind k, S a) { return "u" + itos(k) + "(" + a + ")"; }
  S OnBinary(mp::expr::Kind k, S a, S b) { return "b" + itos(k) + "(" + a + "," + b + ")"; }
  S OnIf(S c, S t, S e) { return "if(" + c + "," + t + "," + e + ")"; }
  S OnSymbolicIf(S c, S t, S e) { return "ifsym(" + c + "," + t + "," + e + ")"; }
  S OnNot(S a) { return "not(" + a + ")"; }
  S OnBinaryLogical(mp::expr::Kind k, S a, S b) { return "bl" + itos(k) + "(" + a + "," + b + ")"; }
  S OnRelational(mp::expr::Kind k, S a, S b) { return "rel" + itos(k) + "(" + a + "," + b + ")"; }
  S OnLogicalCount(mp::expr::Kind k, S a, S b) { return "lc" + itos(k) + "(" + a + "," + b + ")"; }
  S OnImplication(S c, S t, S e) { return "impl(" + c + "," + t + "," + e + ")"; }
  Args BeginCall(int f, int n) { if (f < 0 || f >= NFUNCS) bad("function index out of range"); return begin(n, "call" + itos(f) + ":" + itos(n) + "("); }
  S EndCall(Args a) { return end(a); }
  Args BeginVarArg(mp::expr::Kind k, int n) { return begin(n, "va" + itos(k) + ":" + itos(n) + "("); }
  S EndVarArg(Args a) { return end(a); }
  Args BeginSum(int n) { return begin(n, "sum" + itos(n) + "("); }
  S EndSum(Args a) { return end(a); }
  Args BeginCount(int n) { return begin(n, "count" + itos(n) + "("); }
  S EndCount(Args a) { return end(a); }
  Args BeginNumberOf(int n, S first) { Args a = begin(n, "numberof" + itos(n) + "("); a.AddArg(first); return a; }
  S EndNumberOf(Args a) { return end(a); }
  Args BeginSymbolicNumberOf(int n, S first) { Args a = begin(n, "numberofsym" + itos(n) + "("); a.AddArg(first); return a; }
  S EndSymbolicNumberOf(Args a) { return end(a); }
  Args BeginIteratedLogical(mp::expr::Kind k, int n) { return begin(n, "il" + itos(k) + ":" + itos(n) + "("); }
  S EndIteratedLogical(Args a) { return end(a); }
  Args BeginPairwise(mp::expr::Kind k, int n) { return begin(n, "pw" + itos(k) + ":" + itos(n) + "("); }
  S EndPairwise(Args a) { return end(a); }
  Args BeginPLTerm(int nbp) { return begin(nbp + 1, "pl" + itos(nbp) + "("); }
  S EndPLTerm(Args a, S ref) { if (a.bps + 1 != a.expected) bad("announced breakpoints not delivered"); if (a.added != a.expected) bad("announced slopes not delivered");
    if (a.depth != depth) bad("End does not match Begin"); --depth; S s = a.s; if (!s.empty() && s[s.size() - 1] == ',') s[s.size() - 1] = ';'; return s + ref + ")"; }
  // suffixes: every delivered value is recorded; the announced count must be delivered
  S sufs; int suf_announced = 0, suf_got = 0;
  struct SufH { Checker *h; void SetValue(int index, double v) { ++h->suf_got; h->sufs += itos(index) + "=" + num(v) + ","; } };
  typedef SufH IntSuffixHandler, DblSuffixHandler;
  void close_suffix() { if (suf_got != suf_announced) bad("suffix announced " + itos(suf_announced) + " values, delivered " + itos(suf_got)); }
  SufH open_suffix(const char *t, fmt::StringRef name, mp::suf::Kind kind, int n) {
    close_suffix(); suf_announced = n; suf_got = 0; sufs += S(t) + itos(kind) + ":" + S(name.data(), name.size()) + ":" + itos(n) + ":"; SufH h; h.h = this; return h; }
  SufH OnIntSuffix(fmt::StringRef name, mp::suf::Kind kind, int n) { return open_suffix("|i", name, kind, n); }
  SufH OnDblSuffix(fmt::StringRef name, mp::suf::Kind kind, int n) { return open_suffix("|d", name, kind, n); }
  void OnAlgebraicCon(int i, S e) { if (i != 0) bad("algebraic constraint index " + itos(i) + " reported, 0 written"); con = e; }
  void OnLogicalCon(int i, S e) { if (i != 1) bad("logical constraint index " + itos(i) + " reported, 1 written"); lcon = e; }
  void OnObj(int, mp::obj::Type, S e) { obj = e; }
  struct LinearExprHandler { void AddTerm(int, double) {} };
  LinearExprHandler BeginCommonExpr(int, int) { return LinearExprHandler(); }
  void EndCommonExpr(int, S e, int) { cexpr = e; }
};

int main(int argc, char **argv) {
  unsigned long seed = argc > 1 ? strtoul(argv[1], 0, 10) : 1; int count = argc > 2 ? atoi(argv[2]) : 3000;
  rng ^= seed * 0x9E3779B97F4A7C15ULL; if (!rng) rng = 1;
  for (int op = 0; op <= mp::internal::MAX_OPCODE; ++op) {
    const mp::internal::OpCodeInfo &info = mp::internal::GetOpCodeInfo(op);
    if (info.kind == mp::expr::UNKNOWN) continue;
    if (info.kind == mp::expr::COUNT) count_opcode = op;
    if (info.kind >= mp::expr::FIRST_NUMERIC && info.kind <= mp::expr::LAST_NUMERIC) numeric_ops.push_back(op);
    else if (info.kind >= mp::expr::FIRST_LOGICAL && info.kind <= mp::expr::LAST_LOGICAL) logical_ops.push_back(op);
  }
  if (numeric_ops.size() < 30 || logical_ops.size() < 15 || count_opcode < 0) { printf("opcode table looks wrong\n"); return 2; }
  for (int it = 0; it < count; ++it) {
    int depth = 1 + rnd(4);
    Gen v = gen_numeric(depth, true), c = gen_numeric(depth, true), l = gen_logical(depth), o = gen_numeric(depth, true);
    S nl = "g3 1 1 0\n 3 1 1 0 0 2\n 1 1\n 0 0\n 3 3 3\n 0 2 0 1\n 0 0 0 0 0\n 0 0\n 0 0\n 1 0 0 0 0\n"
           "F0 0 -1 fnum\nF1 1 2 fsym\nV3 0 0\n" + v.nl + "C0\n" + c.nl + "L1\n" + l.nl + "O0 0\n" + o.nl + "b\n3\n3\n3\n"
           "S0 1 vs\n2 7\nS1 1 cs\n2 5\nS2 1 os\n0 3\nS3 1 ps\n0 9\nS4 2 vf\n0 1.5\n2 2.5\nS5 2 cf\n0 0.25\n2 -4\n";
    const S sufs_expected = "|i0:vs:1:2=7,|i1:cs:1:2=5,|i2:os:1:0=3,|i3:ps:1:0=9,|d0:vf:2:0=1.5,2=2.5,|d1:cf:2:0=0.25,2=-4,";
    Checker h; S err;
    try { mp::ReadNLString(mp::NLStringRef(nl.c_str(), nl.size()), h, "(generated)"); }
    catch (const std::exception &e) { err = e.what(); }
    if (!err.empty()) bad("a well-formed generated model is rejected: " + err);
    else {
      if (h.cexpr != v.canon) bad("defined variable read back as " + h.cexpr + ", written " + v.canon);
      if (h.con != c.canon) bad("constraint expression read back as " + h.con + ", written " + c.canon);
      if (h.lcon != l.canon) bad("logical constraint read back as " + h.lcon + ", written " + l.canon);
      if (h.obj != o.canon) bad("objective expression read back as " + h.obj + ", written " + o.canon);
      if (h.depth != 0) bad("Begin without End");
      h.close_suffix();
      if (h.sufs != sufs_expected) bad("suffixes read back as " + h.sufs + ", written " + sufs_expected);
    }
    if (violations) { printf("model %d (seed %lu):\n%s\n", it, seed, nl.c_str()); return 10; }
  }
  // malformed models: an index or count outside the range the header declares must be rejected with a read error
  {
    const S head = "g3 1 1 0\n 3 1 1 0 0 2\n 1 1\n 0 0\n 3 3 3\n 0 2 0 1\n 0 0 0 0 0\n 0 0\n 0 0\n 1 0 0 0 0\n";
    const S tail = "b\n3\n3\n3\n";
    static const char *bad_models[][2] = {
      {"variable suffix index 3 of 3", "S0 1 s\n3 1\n"}, {"constraint suffix index 3 of 3", "S1 1 s\n3 1\n"},
      {"objective suffix index 1 of 1", "S2 1 s\n1 1\n"}, {"problem suffix index 1 of 1", "S3 1 s\n1 1\n"},
      {"objective suffix announcing 2 values for 1 objective", "S2 2 s\n0 1\n0 2\n"}, {"real objective suffix index 1 of 1", "S6 1 s\n1 1.5\n"},
      {"variable suffix announcing 4 values for 3 variables", "S0 4 s\n0 1\n1 1\n2 1\n2 1\n"},
      {"algebraic constraint index 1 of 1", "C1\nn1\n"}, {"logical constraint index 2 of 2", "L2\nn1\n"}, {"objective index 1 of 1", "O1 0\nn1\n"},
      {"defined variable index 4 (3 variables + 1 expression)", "V4 0 0\nn1\n"}, {"defined variable index 2 (a variable)", "V2 0 0\nn1\n"},
      {"function index 2 of 2", "F2 0 -1 f\n"}, {"function type 2", "F0 2 -1 f\n"},
      {"variable reference 4", "C0\nv4\n"}, {"function call index 2", "C0\nf2 0\n"}, {"function call announcing -1 arguments", "C0\nf0 -1\n"}, {"sum with 2 arguments", "C0\no54\n2\nn1\nn2\n"},
      {"suffix kind 8", "S8 1 s\n0 1\n"}, {"linear part of constraint 1 of 1", "J1 1\n0 1\n"}, {"linear term variable 3 of 3", "J0 1\n3 1\n"},
      {"linear part with 4 terms for 3 variables", "J0 4\n0 1\n1 1\n2 1\n0 1\n"}, {"gradient of objective 1 of 1", "G1 1\n0 1\n"},
    };
    for (auto &bm : bad_models) {
      S nl = head + bm[1] + tail; Checker h; bool rejected = false;
      try { mp::ReadNLString(mp::NLStringRef(nl.c_str(), nl.size()), h, "(malformed)"); }
      catch (const mp::ReadError &) { rejected = true; }
      catch (const std::exception &e) { rejected = true; }
      if (!rejected) { bad(S("a model with ") + bm[0] + " is accepted"); printf("model:\n%s\n", nl.c_str()); return 10; }
    }
  }
  printf("%d generated models over %zu numeric and %zu logical opcodes read back identically\n", count, numeric_ops.size(), logical_ops.size());
  return 0;
}
