// Native replay for C15 (HandleSigInt contract): real mp::internal::SignalHandler, real signals raised in-process.
// For every split of at most two signals into "before the backend registered its callback" (s0) and "after" (s1):
// Stop() is true iff a signal arrived, and the registered callback ran once per signal that arrived after registration,
// each time with the data registered with it.   exit 10 = a delivery was lost, duplicated or mis-paired
#include <csignal>
#include <cstdio>
#include "mp/solver.h"
#include "mp/solver-app-base.h"

struct Model { int id; volatile int interrupts; volatile int wrong; };
static bool Interrupt(void *p) { Model *m = static_cast<Model *>(p); if (m->id != 42) ++m->wrong; ++m->interrupts; return true; }
struct DemoSolver : mp::Solver { DemoSolver() : Solver("demosolver", "demosolver", 0, 0) {} };

int main() {
  int bad = 0;
  const int SIG[2] = {SIGINT, SIGTERM};
  for (int s0 = 0; s0 <= 2; ++s0) for (int s1 = 0; s0 + s1 <= 2; ++s1) for (int first = 0; first < 2; ++first) {
    std::signal(SIGINT, SIG_DFL); std::signal(SIGTERM, SIG_DFL);
    DemoSolver s; Model model = {42, 0, 0};
    {
      mp::internal::SignalHandler sh(s);
      int k = first;
      for (int i = 0; i < s0; ++i) std::raise(SIG[k++ % 2]);
      s.interrupter()->SetHandler(Interrupt, &model);
      for (int i = 0; i < s1; ++i) std::raise(SIG[k++ % 2]);
      bool stop = sh.Stop();
      if (stop != (s0 + s1 > 0)) { ++bad; printf("VIOLATED: %d signal(s) before and %d after registration: Stop() is %s\n", s0, s1, stop ? "true" : "false"); }
      if (model.interrupts != s1) { ++bad; printf("VIOLATED: %d signal(s) before and %d after registration (first is %s): the registered callback ran %d time(s), expected %d\n", s0, s1, first ? "SIGTERM" : "SIGINT", model.interrupts, s1); }
      if (model.wrong) { ++bad; printf("VIOLATED: the callback was called with data of another registration\n"); }
    }
  }
  if (bad) return 10;
  printf("ok: every signal after registration reached the callback once, with its data\n");
  return 0;
}
