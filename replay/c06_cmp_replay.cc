// Native replay for C06 (b): conditional comparisons with a fractional right-hand side and an integer body: the rounded constraint
// must accept exactly the same integer points.  Adapted from the demonstration of the seeded change M14 (independent sub-agent).
// exit != 0 = an integer point is cut off or admitted wrongly.
// Demo for property C06: rounding of a fractional right-hand side
// of a conditional comparison with an integer-valued body
// must not change the truth value of the comparison
// on any point of the argument domain.
//
// Exit code 0: property holds on all sampled cases; non-zero: violated.

#include <cstdio>
#include <cmath>
#include <vector>
#include <string>
#include <utility>

#include "mp/flat/constr_std.h"
#include "mp/flat/expr_bounds.h"
#include "mp/flat/constr_prepro.h"

namespace {

struct MiniModel {
  std::vector<double> lb_, ub_;
  std::vector<mp::var::Type> ty_;
  int AddVar(double l, double u, mp::var::Type t) {
    lb_.push_back(l); ub_.push_back(u); ty_.push_back(t);
    return (int)lb_.size()-1;
  }
  double lb(int v) const { return lb_[v]; }
  double ub(int v) const { return ub_[v]; }
  mp::var::Type var_type(int v) const { return ty_[v]; }
};

int n_fail = 0, n_checked = 0;

struct Conv :
    mp::ConstraintPreprocessors<Conv>,
    mp::BoundComputations<Conv> {
  MiniModel model_;
  MiniModel& GetModel() { return model_; }
  const MiniModel& GetModel() const { return model_; }
  double lb(int v) const { return model_.lb(v); }
  double ub(int v) const { return model_.ub(v); }
  mp::var::Type var_type(int v) const { return model_.var_type(v); }
  void AddWarning(std::string, std::string) { }

  /// The "redirected" constraint, checked by the callback below
  template <class Con>
  int AssignResultVar2Args(Con&& con) {
    Con c = std::move(con);
    CheckCond(c);                       // preprocess + check the new one
    return model_.AddVar(0.0, 1.0, mp::var::INTEGER);
  }

  /// Preprocess a conditional comparison coef*x (cmp) rhs
  /// and compare its truth value before / after on all x in the domain
  template <class Cond>
  void CheckCond(Cond cc) {
    const Cond cc0 = cc;                // copy of the original
    mp::PreprocessInfo<Cond> prepro;
    this->PreprocessConstraint(cc, prepro);
    if (prepro.is_result_var_known())   // was redirected & checked there
      return;
    const auto& a0 = cc0.GetConstraint();
    const auto& a1 = cc.GetConstraint();
    int v = a0.GetBody().var(0);
    double c0 = a0.GetBody().coef(0), c1 = a1.GetBody().coef(0);
    for (double x = lb(v); x <= ub(v); x += 1.0) {
      bool t0 = a0.is_valid(c0 * x);
      bool t1 = a1.is_valid(c1 * x);
      ++n_checked;
      if (t0 != t1) {
        ++n_fail;
        std::printf("VIOLATION: %g*x %s %g was rewritten into "
                    "%g*x %s %g; at x=%g: before %d, after %d\n",
                    c0, a0.GetCmpStr(), a0.rhs(),
                    c1, a1.GetCmpStr(), a1.rhs(), x, (int)t0, (int)t1);
      }
      if (t1 && (prepro.lb() > 1.0 || prepro.ub() < 1.0)) {
        ++n_fail;
        std::printf("VIOLATION: result box [%g, %g] excludes 1\n",
                    prepro.lb(), prepro.ub());
      }
      if (!t1 && (prepro.lb() > 0.0 || prepro.ub() < 0.0)) {
        ++n_fail;
        std::printf("VIOLATION: result box [%g, %g] excludes 0\n",
                    prepro.lb(), prepro.ub());
      }
    }
  }
};

template <int kind>
void TestKind() {
  using Cond = mp::ConditionalConstraint< mp::LinConRhs<kind> >;
  const double rhss[] = { -3.5, -2.0, -0.25, 0.0, 0.5, 2.5, 3.0, 3.75 };
  const double coefs[] = { 1.0, -1.0, 2.0, -3.0 };
  for (double coef: coefs)
    for (double rhs: rhss) {
      Conv cvt;
      int x = cvt.model_.AddVar(-6.0, 6.0, mp::var::INTEGER);
      cvt.CheckCond( Cond{ { mp::LinTerms{ {coef}, {x} }, rhs } } );
    }
}

}  // namespace

int main() {
  TestKind< 1>();     // >=
  TestKind<-1>();     // <=
  TestKind< 2>();     // >
  TestKind<-2>();     // <
  std::printf("%d points checked, %d violations\n", n_checked, n_fail);
  return n_fail ? 1 : 0;
}
