// Native replay driver (C07:constraint-classes-vs-sol:chk:mode), adapted from the demonstration of seeded change M61-C07-toplevel-class-overwrites-solver-side: an oracle sweep over the REAL code;
// exit 0 = everything as the property says, exit 1 = a discrepancy (printed).  Built by vp/native.py against VP_REPO's working tree.
// Demonstration for property C07 (automatic solution check).
//
// A model with one top-level linear constraint  x0 + x1 <= 10  which is
// accepted natively by the (dummy) solver API, hence it is BOTH an
// original model constraint (check-mode bit 2) AND a final constraint
// sent to the solver (check-mode bit 8).
// The point (8, 7) violates it by 5.
//
// With sol:chk:mode=8 ("check final auxiliary constraints sent to solver")
// the violation has to be reported, and with sol:chk:fail the run has to
// end with solve-result code 150 (sol::MP_SOLUTION_CHECK).
//
// Build (from the worktree root):
//   g++ -std=c++17 -Iinclude demo.cc _build/lib/libmp.a -o demo
// Exit code 0: all expectations hold; non-zero: what went wrong is printed.

#include <cstdio>
#include <string>
#include <vector>

#include "mp/env.h"
#include "mp/flat/model_api_base.h"
#include "mp/flat/converter.h"

namespace {

/// Dummy solver API accepting linear <= constraints natively
class DemoModelAPI : public mp::BasicFlatModelAPI {
  using Base = mp::BasicFlatModelAPI;
public:
  DemoModelAPI() { }
  DemoModelAPI(mp::Env& ) { }
  static constexpr const char* GetTypeName() { return "demo"; }
  void AddVariables(const mp::VarArrayDef& ) { }

  USE_BASE_CONSTRAINT_HANDLERS(Base)
  ACCEPT_CONSTRAINT(mp::LinConLE, mp::Recommended, mp::CG_Default)
  void AddConstraint(const mp::LinConLE& ) { }
};

/// Final converter, solution-check options settable directly
class DemoCvt :
    public mp::FlatConverter<DemoCvt, DemoModelAPI> {
public:
  using Base = mp::FlatConverter<DemoCvt, DemoModelAPI>;
  DemoCvt(mp::Env& e) : Base(e) { }

  int mode_ = 0;
  bool fail_ = false;
  int sol_check_mode() const { return mode_; }
  bool sol_check_fail() const { return fail_; }
  bool sol_check_infeas() const { return false; }
  double sol_feas_tol() const { return 1e-6; }
  double sol_feas_tol_rel() const { return 1e-6; }
  double sol_int_tol() const { return 1e-5; }
  int sol_round() const { return 100; }
  int sol_prec() const { return 100; }
};

int n_fail = 0;

void Expect(bool cond, const std::string& what) {
  if (!cond) {
    ++n_fail;
    std::printf("WRONG: %s\n", what.c_str());
  } else {
    std::printf("ok:    %s\n", what.c_str());
  }
}

/// Run the check in the given mode.
/// @return true iff no violation was reported
bool Check(DemoCvt& cvt, int mode, const std::vector<double>& x) {
  cvt.mode_ = mode;
  cvt.fail_ = false;
  mp::pre::ValueMapDbl duals;
  return cvt.CheckSolution(x, duals, {}, nullptr);
}

/// Run the check with sol:chk:fail.
/// @return the solve-result code of the raised error, or -1 if none
int CheckFail(DemoCvt& cvt, int mode, const std::vector<double>& x) {
  cvt.mode_ = mode;
  cvt.fail_ = true;
  mp::pre::ValueMapDbl duals;
  try {
    cvt.CheckSolution(x, duals, {}, nullptr);
  } catch (const mp::Error& err) {
    return err.exit_code();
  }
  return -1;
}

}  // namespace

int main() {
  mp::Env env;
  DemoCvt cvt(env);
  cvt.AddVar(0.0, 100.0);
  cvt.AddVar(0.0, 100.0);
  cvt.AddVarNames({"x0", "x1"});
  // Top-level (depth 0), stays unconverted: goes to the solver as is.
  cvt.AddConstraint(
        mp::LinConLE{ {{1.0, 1.0}, {0, 1}}, {10.0}} );

  const std::vector<double> x_feas {3.0, 7.0};   // 10 <= 10
  const std::vector<double> x_viol {8.0, 7.0};   // 15 >  10

  // Realistic mode, bits 2 / 8 / 2+8, and idealistic 64 / 256
  for (int mode: {2, 8, 2+8, 1+8, 4+8, 64, 256, 64+256}) {
    Expect(Check(cvt, mode, x_feas),
           "mode " + std::to_string(mode)
           + ": feasible point, nothing reported");
    Expect(!Check(cvt, mode, x_viol),
           "mode " + std::to_string(mode)
           + ": x0+x1=15 > 10 is reported");
  }
  // The constraint is neither intermediate nor a variable bound.
  Expect(Check(cvt, 4, x_viol),
         "mode 4: only intermediate constraints, nothing reported");

  // sol:chk:fail -> solve-result code 150 exactly in the violating case
  Expect(-1 == CheckFail(cvt, 8, x_feas),
         "mode 8 + fail: feasible point does not fail");
  int code = CheckFail(cvt, 8, x_viol);
  Expect(int(mp::sol::MP_SOLUTION_CHECK) == code,
         "mode 8 + fail: violating point ends with code 150, got "
         + std::to_string(code));

  if (n_fail)
    std::printf("%d expectation(s) violated.\n", n_fail);
  else
    std::printf("All expectations hold.\n");
  return n_fail ? 1 : 0;
}
