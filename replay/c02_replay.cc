// Native replay for C02: the real mp::ReadNLString on the bytes of a file (held in an exactly sized heap buffer plus
// the terminating NUL the reader requires) with a null handler.  Build with
// -fsanitize=address,undefined,float-cast-overflow -fno-sanitize-recover=all: a memory error or UB aborts.
// usage: c02_replay <file.nl> [flags]
#include <cstdio>
#include <cstdlib>
#include <string>
#include <vector>
#include "mp/nl-reader.h"

int main(int argc, char **argv) {
  if (argc < 2) return 2;
  FILE *f = fopen(argv[1], "rb"); if (!f) return 2;
  std::vector<char> data; int c; while ((c = fgetc(f)) != EOF) data.push_back((char)c); fclose(f);
  size_t n = data.size();
  char *buf = (char *)malloc(n + 1); for (size_t i = 0; i < n; ++i) buf[i] = data[i]; buf[n] = 0;
  mp::NullNLHandler<int> h;
  try { mp::ReadNLString(mp::NLStringRef(buf, n), h, "(replay)", argc > 2 ? atoi(argv[2]) : 0); printf("read completed\n"); }
  catch (const mp::Error &e) { printf("read error: %s\n", e.what()); }
  catch (const std::exception &e) { printf("exception: %s\n", e.what()); }
  free(buf);
  return 0;
}
