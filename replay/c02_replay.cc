// Native replay for C02: the real mp::ReadNLString on the bytes of a file (held in an exactly sized heap buffer plus
// the terminating NUL the reader requires) with a null handler.  Build with
// -fsanitize=address,undefined,float-cast-overflow -fno-sanitize-recover=all: a memory error or UB aborts.
// The handler checks the index ranges of the simple notifications against the header it received first (exit 10).
// usage: c02_replay <file.nl> [flags]
#include <cstdio>
#include <cstdlib>
#include <string>
#include <vector>
#include "mp/nl-reader.h"

// a handler that checks what it is told against the header it was given first (index ranges of the simple notifications)
struct Checking : mp::NullNLHandler<int> {
  mp::NLHeader h; int bad = 0;
  void in(const char *what, long i, long n) { if (i < 0 || i >= n) { ++bad; printf("VIOLATED: %s index %ld is outside the declared range [0, %ld)\n", what, i, n); } }
  void OnHeader(const mp::NLHeader &x) { h = x; }
  void OnVarBounds(int i, double, double) { in("OnVarBounds variable", i, h.num_vars); }
  void OnConBounds(int i, double, double) { in("OnConBounds constraint", i, h.num_algebraic_cons); }
  void OnComplementarity(int c, int v, mp::ComplInfo) { in("OnComplementarity constraint", c, h.num_algebraic_cons); in("OnComplementarity variable", v, h.num_vars); }
  void OnInitialValue(int v, double) { in("OnInitialValue variable", v, h.num_vars); }
  void OnInitialDualValue(int c, double) { in("OnInitialDualValue constraint", c, h.num_algebraic_cons); }
};

int main(int argc, char **argv) {
  if (argc < 2) return 2;
  FILE *f = fopen(argv[1], "rb"); if (!f) return 2;
  std::vector<char> data; int c; while ((c = fgetc(f)) != EOF) data.push_back((char)c); fclose(f);
  size_t n = data.size();
  char *buf = (char *)malloc(n + 1); for (size_t i = 0; i < n; ++i) buf[i] = data[i]; buf[n] = 0;
  Checking h;
  try { mp::ReadNLString(mp::NLStringRef(buf, n), h, "(replay)", argc > 2 ? atoi(argv[2]) : 0); printf("read completed\n"); }
  catch (const mp::Error &e) { printf("read error: %s\n", e.what()); }
  catch (const std::exception &e) { printf("exception: %s\n", e.what()); }
  free(buf);
  // the same file through the file reader (mmap path, or the copy path when the size is a multiple of the page size)
  Checking h2;
  try { mp::ReadNLFile(argv[1], h2, argc > 2 ? atoi(argv[2]) : 0); printf("file read completed\n"); }
  catch (const std::exception &e) { printf("file read: %s\n", e.what()); }
  return (h.bad || h2.bad) ? 10 : 0;
}
