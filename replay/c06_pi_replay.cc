// Native replay for C06 (range boxes of asin/acos/atan): compares the real constant BasicFlatConverter::Pi()
// used for the result boxes with the values libm returns at the ends of the domains.
// exit 10 = a value of the function lies outside the box the preprocessor assigns
#include <cmath>
#include <cstdio>
#include "mp/flat/constr_keeper.h"
int main() {
  double pi = mp::BasicFlatConverter::Pi();
  int bad = 0;
  double v;
  v = std::acos(-1.0); if (!(v <= pi)) { printf("VIOLATED: acos(-1) = %.17g exceeds the Acos box upper bound Pi() = %.17g\n", v, pi); bad = 1; }
  v = std::atan(1e300); if (!(v <= pi / 2)) { printf("VIOLATED: atan(1e300) = %.17g exceeds the Atan box upper bound Pi()/2 = %.17g\n", v, pi / 2); bad = 1; }
  v = std::atan(-1e300); if (!(v >= -pi / 2)) { printf("VIOLATED: atan(-1e300) = %.17g is below the Atan box lower bound -Pi()/2 = %.17g\n", v, -pi / 2); bad = 1; }
  v = std::asin(-1.0); if (!(v >= -pi / 2)) { printf("VIOLATED: asin(-1) = %.17g is below the Asin box lower bound -Pi()/2 = %.17g\n", v, -pi / 2); bad = 1; }
  if (!bad) printf("ok: Pi() = %.17g bounds acos/asin/atan\n", pi);
  return bad ? 10 : 0;
}
