// Native replay for C11: real BasicSolver::ParseOptionString on an option text held in an exactly sized heap
// buffer (so that ASan sees any read past the terminator).  Build with -fsanitize=address,undefined.
// usage: c11_replay '<option text>'      (the solver has int option "iopt", double "dopt", string "sopt")
#include <cstdio>
#include <cstdlib>
#include <cstring>
#include <string>
#include <vector>
#define protected public
#define private public
#include "mp/solver.h"
#undef protected
#undef private
#include "mp/problem.h"

struct TS : mp::SolverImpl<mp::Problem> {
  int i_ = 0; double d_ = 0; std::string s_;
  int GetI(const mp::SolverOption &) const { return i_; }
  void SetI(const mp::SolverOption &, int v) { i_ = v; }
  double GetD(const mp::SolverOption &) const { return d_; }
  void SetD(const mp::SolverOption &, double v) { d_ = v; }
  std::string GetS(const mp::SolverOption &) const { return s_; }
  void SetS(const mp::SolverOption &, fmt::StringRef v) { s_ = v.to_string(); }
  int syn_[3] = {-1, -1, -1};
  template <int K> int GetN(const mp::SolverOption &) const { return syn_[K]; }
  template <int K> void SetN(const mp::SolverOption &, int v) { syn_[K] = v; }
  int w_ = 0, nw_ = 0; std::string wbody_;
  int GetW(const mp::SolverOption &) const { return w_; }
  void SetW(const mp::SolverOption &opt, int v) { wbody_ = opt.wc_keybody_last(); w_ = v; ++nw_; }
  TS() : SolverImpl("testsolver", "", 0, 0) {
    AddIntOption("tag:*:end tag_*_end", "wildcard option", &TS::GetW, &TS::SetW);
    AddIntOption("alg:cut cut", "option with an inline synonym", &TS::GetN<0>, &TS::SetN<0>);
    AddIntOption("pre:cutoff cutoff", "option whose synonym extends another synonym", &TS::GetN<1>, &TS::SetN<1>);
    AddIntOption("tech:outlev outlev", "option with an inline synonym", &TS::GetN<2>, &TS::SetN<2>);
    AddIntOption("iopt", "int option", &TS::GetI, &TS::SetI);
    AddDblOption("dopt", "double option", &TS::GetD, &TS::SetD);
    AddStrOption("sopt", "string option", &TS::GetS, &TS::SetS);
  }
  int DoSolve(mp::Problem &, mp::SolutionHandler &) { return 0; }
  void ReadNL(fmt::StringRef) {}
  bool HandleUnknownOptionQuietly = true;
  void HandleUnknownOption(const char *) override { }
};
static int parse_one(const char *arg, bool verbose) {
  size_t n = strlen(arg);
  char *text = (char *)malloc(n + 1);
  memcpy(text, arg, n + 1);
  TS s; int rc = 0;
  try { s.ParseOptionString(text, mp::BasicSolver::NO_OPTION_ECHO); }
  catch (const mp::Error &e) { if (verbose) printf("option error: %s\n", e.what()); }
  catch (const std::exception &e) { printf("VIOLATED: option text [%s]: parsing ended with %s\n", arg, e.what()); rc = 10; }
  if (verbose) printf("ok: iopt=%d dopt=%g sopt=[%s]\n", s.i_, s.d_, s.s_.c_str());
  free(text);
  return rc;
}
// wildcard option head*tail: every key head + body + tail with a non-empty body over {a, :, e, n, d, _} up to length 5 sets it, with that body
static int wildcard_sweep() {
  const char alpha[] = {'a', ':', 'e', 'n', 'd', '_'};
  std::vector<std::string> cur(1, ""); int bad = 0;
  for (int len = 1; len <= 5; ++len) {
    std::vector<std::string> next; for (const std::string &v : cur) for (char c : alpha) next.push_back(v + c); cur.swap(next);
    for (const std::string &body : cur) for (int form = 0; form < 2; ++form) {
      std::string key = (form ? "tag_" : "tag:") + body + (form ? "_end" : ":end"), text = key + "=7";
      std::vector<char> buf(text.begin(), text.end()); buf.push_back(0);
      TS s; try { s.ParseOptionString(buf.data(), mp::BasicSolver::NO_OPTION_ECHO); } catch (const std::exception &) {}
      if (s.nw_ != 1 || s.w_ != 7 || s.wbody_ != body) { if (bad++ < 5) printf("VIOLATED: option text [%s] addresses the wildcard option %s with body [%s]: set %d time(s), value %d, body [%s]\n", text.c_str(), form ? "tag_*_end" : "tag:*:end", body.c_str(), s.nw_, s.w_, s.wbody_.c_str()); }
    }
  }
  return bad ? 10 : 0;
}
// synonyms: a name addresses an option through an inline synonym exactly when it equals the synonym up to letter case
static int synonym_sweep() {
  struct { const char *text; int want[3]; } T[] = {
    {"cut=1", {1, -1, -1}}, {"CUT=2", {2, -1, -1}}, {"Cut 3", {3, -1, -1}}, {"alg:cut=4", {4, -1, -1}},
    {"cutoff=50", {-1, 50, -1}}, {"CutOff=51", {-1, 51, -1}}, {"pre:cutoff=52", {-1, 52, -1}},
    {"outlev=5", {-1, -1, 5}}, {"OUTLEV=6", {-1, -1, 6}},
    {"outlevel=7", {-1, -1, -1}}, {"cuts=1", {-1, -1, -1}}, {"cu=1", {-1, -1, -1}}, {"cutof=1", {-1, -1, -1}}, {"outle=1", {-1, -1, -1}}};
  int bad = 0;
  for (auto &t : T) {
    std::string text = t.text; std::vector<char> buf(text.begin(), text.end()); buf.push_back(0);
    TS s; try { s.ParseOptionString(buf.data(), mp::BasicSolver::NO_OPTION_ECHO); } catch (const std::exception &) {}
    if (s.syn_[0] != t.want[0] || s.syn_[1] != t.want[1] || s.syn_[2] != t.want[2]) { ++bad;
      printf("VIOLATED: option text [%s]: (cut, cutoff, outlev) = (%d, %d, %d), expected (%d, %d, %d)\n", t.text, s.syn_[0], s.syn_[1], s.syn_[2], t.want[0], t.want[1], t.want[2]); }
  }
  return bad ? 10 : 0;
}
// sweep: every value text over {", ', a, space} up to length 4 for the string option, with and without '='
static int sweep() {
  const char alpha[] = {'"', '\'', 'a', ' '};
  std::vector<std::string> cur(1, ""); int n = 0;
  for (int len = 0; len <= 4; ++len) {
    for (const std::string &v : cur)
      for (const char *pre : {"sopt=", "sopt ", "iopt=1 sopt=", "sopt= "}) { ++n; if (parse_one((std::string(pre) + v).c_str(), false)) return 10; }
    std::vector<std::string> next; for (const std::string &v : cur) for (char c : alpha) next.push_back(v + c); cur.swap(next);
  }
  // long option names (the name buffer grows beyond its inline capacity)
  for (int len : {1, 8, 49, 50, 51, 64, 74, 75, 76, 77, 100, 200, 1000}) { ++n; if (parse_one((std::string(len, 'x') + "=1 iopt=2").c_str(), false)) return 10; }
  // integer values: inside the range of int they are stored exactly, outside they are rejected (never wrapped)
  for (const char *v : {"2147483647", "-2147483648", "0", "-1", "2147483648", "-2147483649", "4294967297", "99999999999999999999", "-99999999999999999999"}) {
    std::string text = std::string("iopt=") + v; ++n;
    TS s; bool threw = false;
    try { s.ParseOptionString(text.c_str(), mp::BasicSolver::NO_OPTION_ECHO); } catch (const mp::Error &) { threw = true; } catch (const std::exception &) { threw = true; }
    long double want = strtold(v, 0); bool fits = want >= -2147483648.0L && want <= 2147483647.0L;
    if (fits ? (threw || s.has_errors_ || s.i_ != (int)want) : (!threw && !s.has_errors_)) {
      printf("VIOLATED: option text [%s]: integer option holds %d afterwards, error reported: %d (a value outside int must be rejected, a value inside stored exactly)\n", text.c_str(), s.i_, (int)(threw || s.has_errors_));
      return 10;
    }
  }
  // queries: 'name=?' followed by the end of the text or any white space leaves every value unchanged and reports no error
  for (const char *name : {"iopt", "dopt", "sopt"}) for (const char *eq : {"=", " = ", " "}) for (const char *after : {"", " ", "\t", "\n", "\r\n", "\v", "\f", " iopt=5", "\tiopt=5", "\niopt=5"}) {
    std::string text = std::string("iopt=7 dopt=2.5 sopt=abc ") + name + eq + "?" + after; ++n;
    TS s; bool threw = false;
    try { s.ParseOptionString(text.c_str(), mp::BasicSolver::NO_OPTION_ECHO); } catch (const std::exception &) { threw = true; }
    bool later = strstr(after, "iopt=5") != 0;
    if (threw || s.has_errors_ || s.i_ != (later ? 5 : 7) || s.d_ != 2.5 || s.s_ != "abc") {
      std::string show; for (char c : text) { if (c == '\t') show += "\\t"; else if (c == '\n') show += "\\n"; else if (c == '\r') show += "\\r"; else if (c == '\v') show += "\\v"; else if (c == '\f') show += "\\f"; else show += c; }
      printf("VIOLATED: option text [%s]: a query changed a value or reported an error: iopt=%d dopt=%g sopt=[%s] errors=%d\n", show.c_str(), s.i_, s.d_, s.s_.c_str(), (int)s.has_errors_);
      return 10;
    }
  }
  // order of the sources: mp_options, then <solver>_options, then the command line; later assignments override earlier ones;
  // only command-line arguments are taken whole (FROM_COMMAND_LINE)
  for (int mask = 0; mask < 8; ++mask) {
    if (mask & 1) setenv("mp_options", "iopt=1 sopt=e1 x", 1); else unsetenv("mp_options");
    if (mask & 2) setenv("testsolver_options", "iopt=2 sopt=e2 x", 1); else unsetenv("testsolver_options");
    char a0[] = "iopt=3", a1[] = "sopt=c3 x"; char *argv[] = {a0, a1, 0}; char *none[] = {0};
    TS s; s.HandleUnknownOptionQuietly = true; ++n;
    try { s.ParseOptions((mask & 4) ? argv : none, mp::BasicSolver::NO_OPTION_ECHO); } catch (const std::exception &e) { printf("VIOLATED: ParseOptions threw %s\n", e.what()); return 10; }
    int wi = (mask & 4) ? 3 : (mask & 2) ? 2 : (mask & 1) ? 1 : 0;
    std::string ws = (mask & 4) ? "c3 x" : (mask & 2) ? "e2" : (mask & 1) ? "e1" : "";
    if (s.i_ != wi || s.s_ != ws) { printf("VIOLATED: sources mp_options=%d testsolver_options=%d command line=%d: iopt=%d (expected %d) sopt=[%s] (expected [%s]): later sources must override earlier ones\n",
                                           mask & 1, (mask >> 1) & 1, (mask >> 2) & 1, s.i_, wi, s.s_.c_str(), ws.c_str()); return 10; }
  }
  unsetenv("mp_options"); unsetenv("testsolver_options");
  printf("ok: %d option texts parsed without memory error or stray exception; queries leave all values unchanged; sources in order\n", n); return 0;
}
int main(int argc, char **argv) {
  if (argc < 2) return 2;
  if (!strcmp(argv[1], "--sweep")) { int r = sweep(); if (!r) r = wildcard_sweep(); return r ? r : synonym_sweep(); }
  if (!strcmp(argv[1], "--synonyms")) return synonym_sweep();
  if (!strcmp(argv[1], "--wildcard")) return wildcard_sweep();
  return parse_one(argv[1], true);
}
int old_main(int argc, char **argv) {
  size_t n = strlen(argv[1]);
  char *text = (char *)malloc(n + 1);
  memcpy(text, argv[1], n + 1);
  TS s;
  try { s.ParseOptionString(text, mp::BasicSolver::NO_OPTION_ECHO); }
  catch (const std::exception &e) { printf("exception: %s\n", e.what()); }
  printf("ok: iopt=%d dopt=%g sopt=[%s]\n", s.i_, s.d_, s.s_.c_str());
  free(text);
  return 0;
}
