// Native replay for C11: real BasicSolver::ParseOptionString on an option text held in an exactly sized heap
// buffer (so that ASan sees any read past the terminator).  Build with -fsanitize=address,undefined.
// usage: c11_replay '<option text>'      (the solver has int option "iopt", double "dopt", string "sopt")
#include <cstdio>
#include <cstdlib>
#include <cstring>
#include <string>
#include <vector>
#define protected public
#define private public
#include "mp/solver.h"
#undef protected
#undef private
#include "mp/problem.h"

struct TS : mp::SolverImpl<mp::Problem> {
  int i_ = 0; double d_ = 0; std::string s_;
  int GetI(const mp::SolverOption &) const { return i_; }
  void SetI(const mp::SolverOption &, int v) { i_ = v; }
  double GetD(const mp::SolverOption &) const { return d_; }
  void SetD(const mp::SolverOption &, double v) { d_ = v; }
  std::string GetS(const mp::SolverOption &) const { return s_; }
  void SetS(const mp::SolverOption &, fmt::StringRef v) { s_ = v.to_string(); }
  TS() : SolverImpl("testsolver", "", 0, 0) {
    AddIntOption("iopt", "int option", &TS::GetI, &TS::SetI);
    AddDblOption("dopt", "double option", &TS::GetD, &TS::SetD);
    AddStrOption("sopt", "string option", &TS::GetS, &TS::SetS);
  }
  int DoSolve(mp::Problem &, mp::SolutionHandler &) { return 0; }
  void ReadNL(fmt::StringRef) {}
  void HandleUnknownOption(const char *) override { }
};
static int parse_one(const char *arg, bool verbose) {
  size_t n = strlen(arg);
  char *text = (char *)malloc(n + 1);
  memcpy(text, arg, n + 1);
  TS s; int rc = 0;
  try { s.ParseOptionString(text, mp::BasicSolver::NO_OPTION_ECHO); }
  catch (const mp::Error &e) { if (verbose) printf("option error: %s\n", e.what()); }
  catch (const std::exception &e) { printf("VIOLATED: option text [%s]: parsing ended with %s\n", arg, e.what()); rc = 10; }
  if (verbose) printf("ok: iopt=%d dopt=%g sopt=[%s]\n", s.i_, s.d_, s.s_.c_str());
  free(text);
  return rc;
}
// sweep: every value text over {", ', a, space} up to length 4 for the string option, with and without '='
static int sweep() {
  const char alpha[] = {'"', '\'', 'a', ' '};
  std::vector<std::string> cur(1, ""); int n = 0;
  for (int len = 0; len <= 4; ++len) {
    for (const std::string &v : cur)
      for (const char *pre : {"sopt=", "sopt ", "iopt=1 sopt=", "sopt= "}) { ++n; if (parse_one((std::string(pre) + v).c_str(), false)) return 10; }
    std::vector<std::string> next; for (const std::string &v : cur) for (char c : alpha) next.push_back(v + c); cur.swap(next);
  }
  // queries: 'name=?' followed by the end of the text or any white space leaves every value unchanged and reports no error
  for (const char *name : {"iopt", "dopt", "sopt"}) for (const char *eq : {"=", " = ", " "}) for (const char *after : {"", " ", "\t", "\n", "\r\n", "\v", "\f", " iopt=5", "\tiopt=5", "\niopt=5"}) {
    std::string text = std::string("iopt=7 dopt=2.5 sopt=abc ") + name + eq + "?" + after; ++n;
    TS s; bool threw = false;
    try { s.ParseOptionString(text.c_str(), mp::BasicSolver::NO_OPTION_ECHO); } catch (const std::exception &) { threw = true; }
    bool later = strstr(after, "iopt=5") != 0;
    if (threw || s.has_errors_ || s.i_ != (later ? 5 : 7) || s.d_ != 2.5 || s.s_ != "abc") {
      std::string show; for (char c : text) { if (c == '\t') show += "\\t"; else if (c == '\n') show += "\\n"; else if (c == '\r') show += "\\r"; else if (c == '\v') show += "\\v"; else if (c == '\f') show += "\\f"; else show += c; }
      printf("VIOLATED: option text [%s]: a query changed a value or reported an error: iopt=%d dopt=%g sopt=[%s] errors=%d\n", show.c_str(), s.i_, s.d_, s.s_.c_str(), (int)s.has_errors_);
      return 10;
    }
  }
  printf("ok: %d option texts parsed without memory error or stray exception; queries leave all values unchanged\n", n); return 0;
}
int main(int argc, char **argv) {
  if (argc < 2) return 2;
  if (!strcmp(argv[1], "--sweep")) return sweep();
  return parse_one(argv[1], true);
}
int old_main(int argc, char **argv) {
  size_t n = strlen(argv[1]);
  char *text = (char *)malloc(n + 1);
  memcpy(text, argv[1], n + 1);
  TS s;
  try { s.ParseOptionString(text, mp::BasicSolver::NO_OPTION_ECHO); }
  catch (const std::exception &e) { printf("exception: %s\n", e.what()); }
  printf("ok: iopt=%d dopt=%g sopt=[%s]\n", s.i_, s.d_, s.s_.c_str());
  free(text);
  return 0;
}
