// Native replay for C07 (variables): the real mp::SolutionChecker::CheckSolution with sol:chk:mode = 1 (variable bounds and integrality only)
// on a one-variable model stand-in, over a grid of (lb, ub, type, x); the verdict must be the property's:
//   violation  iff  lb - x > tol and (lb == 0 or |(lb - x)/lb| > rel)   or   x - ub > tol and (ub == 0 or |(x - ub)/ub| > rel)
//              or   the variable is integer and |x - round(x)| > inttol
// exit 10 = the checker's verdict differs
#include <cmath>
#include <cstdio>
#include <string>
#include <vector>

#include "mp/flat/sol_check.h"
#include "mp/error.h"

namespace {

struct Var {
  const char* name;
  double lb, ub;
  mp::var::Type type;
};

/// Model stand-in: variables only
class MockModel {
public:
  std::vector<mp::var::Type> types_;
  std::vector<double> lbs_, ubs_;
  std::vector<std::string> names_;
  std::vector<mp::QuadraticObjective> objs_;

  const std::vector<mp::var::Type>& var_type_vec() const { return types_; }
  const std::vector<double>& var_lb_vec() const { return lbs_; }
  const std::vector<double>& var_ub_vec() const { return ubs_; }
  const char* var_name(int i) const { return names_[i].c_str(); }
  const std::vector<mp::QuadraticObjective>& get_objectives() const
  { return objs_; }
  void ComputeViolations(mp::SolCheck& ) { }    // no constraints
};

/// Environment stand-in
struct MockEnv {
  const char* GetSolCheckWarningKey(bool ) const { return "solcheck"; }
};

/// Converter stand-in with the options of the real FlatConverter
class MockCvt : public mp::SolutionChecker<MockCvt> {
public:
  MockModel model_;
  MockEnv env_;
  int mode_ = 1;
  bool fail_ = false;
  double feastol_ = 1e-6, feastolrel_ = 1e-6, inttol_ = 1e-5;
  std::string last_warning_;

  void AddVar(const Var& v) {
    model_.names_.push_back(v.name);
    model_.lbs_.push_back(v.lb);
    model_.ubs_.push_back(v.ub);
    model_.types_.push_back(v.type);
  }

  int sol_check_mode() const { return mode_; }
  bool sol_check_infeas() const { return false; }
  bool sol_check_fail() const { return fail_; }
  double sol_feas_tol() const { return feastol_; }
  double sol_feas_tol_rel() const { return feastolrel_; }
  double sol_int_tol() const { return inttol_; }
  int sol_round() const { return 100; }
  int sol_prec() const { return 100; }

  MockModel& GetModel() { return model_; }
  const MockModel& GetModel() const { return model_; }
  MockEnv& GetEnv() { return env_; }

  int num_vars() const { return (int)model_.lbs_.size(); }
  bool is_var_original(int ) const { return true; }
  double lb(int i) const { return model_.lbs_[i]; }
  double ub(int i) const { return model_.ubs_[i]; }
  bool is_var_integer(int i) const
  { return mp::var::INTEGER == model_.types_[i]; }

  bool HasInitExpression(int ) const { return false; }
  const mp::AbstractConstraintLocation& GetInitExpression(int ) const {
    static mp::AbstractConstraintLocation acl;
    return acl;
  }

  void AddWarning(const char* , const std::string& msg, bool =false)
  { last_warning_ = msg; }
};


int n_bad = 0;
}  // namespace

int main() {
  const double INF = INFINITY;
  const double LB[] = {-INF, -1e7, -10, -1, 0, 1, 10}, UB[] = {INF, 1e7, 10, 1, 0, -1};
  const double XS[] = {-1e7 - 2, -11, -10.5, -10, -2.5, -1.00001, -1, -0.7, -0.3, 0, 0.3, 0.5, 0.7, 1, 1.00001, 2.5, 3.00002, 7, 10, 10.5, 11, 1e7 + 2};
  const double tol = 1e-6, rel = 1e-6, inttol = 1e-5;
  for (double lb : LB) for (double ub : UB) { if (lb > ub) continue;
    for (int isint = 0; isint < 2; ++isint) for (double x : XS) {
      MockCvt cvt; cvt.AddVar(Var{"v", lb, ub, isint ? mp::var::INTEGER : mp::var::CONTINUOUS});
      std::vector<double> xx{x}; mp::pre::ValueMapDbl duals; std::vector<double> objs;
      bool ok = cvt.CheckSolution(xx, duals, objs, nullptr);
      bool want = (lb - x > tol && (lb == 0 || std::fabs((lb - x) / lb) > rel)) || (x - ub > tol && (ub == 0 || std::fabs((x - ub) / ub) > rel)) ||
                  (isint && std::fabs(x - std::round(x)) > inttol);
      if (ok == want && n_bad++ < 8)
        std::printf("VIOLATED: %s variable in [%g, %g] at x = %.10g: the checker reports %s, the model is %s (tolerances %g abs, %g rel, %g integrality)\n",
                    isint ? "integer" : "continuous", lb, ub, x, ok ? "no violation" : "a violation", want ? "violated" : "satisfied", tol, rel, inttol);
    } }
  if (n_bad) return 10;
  std::printf("ok: variable bounds and integrality are reported exactly when violated (grid)\n");
  return 0;
}
