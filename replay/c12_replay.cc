// Native replay for C12: real BasicSolver option state + SolverNLHandler + NL reader on a generated
// text NL model with n objectives (objective j has the constant nonlinear part j+1 and sense j%2).
// usage: c12_replay <objno_ (-1 = defaulted)> <multiobj 0|1> <n>     exit 1 = selection differs from the statement
#include <cstdio>
#include <cstdlib>
#include <string>
#include <vector>
#include "mp/solver.h"
#include "mp/problem.h"
#include "mp/nl-reader.h"
#include "mp/solver-io.h"

struct TS : mp::SolverImpl<mp::Problem> {
  TS() : SolverImpl("testsolver", "", 0, MULTIPLE_OBJ) {}
  int DoSolve(mp::Problem &, mp::SolutionHandler &) { return 0; }
  void ReadNL(fmt::StringRef) {}
};
int main(int argc, char **argv) {
  if (argc < 4) return 2;
  int objno = atoi(argv[1]); int multi = atoi(argv[2]); int n = atoi(argv[3]);
  TS s;
  std::string opts;
  if (objno >= 0) opts += "objno=" + std::to_string(objno) + " ";
  if (multi) opts += "multiobj=1 ";
  std::string env = "testsolver_options=" + opts;
  char *argvv[] = {0};
  putenv(const_cast<char*>(env.c_str()));
  bool ok_opts = s.ParseOptions(argvv, mp::BasicSolver::NO_OPTION_ECHO);
  std::string nl = "g3 1 1 0\n 1 0 " + std::to_string(n) + " 0 0\n 0 " + std::to_string(n) + "\n 0 0\n 1 1 1\n 0 0 0 1\n 0 0 0 0 0\n 0 0\n 0 0\n 0 0 0 0 0\n";
  for (int j = 0; j < n; ++j) nl += "O" + std::to_string(j) + " " + std::to_string(j % 2) + "\nn" + std::to_string(j + 1) + "\n";
  nl += "b\n0 0 10\n";
  mp::Problem p;
  typedef mp::internal::SolverNLHandler<TS> H;
  bool rejected = false; std::string msg;
  try { H h(p, s); mp::ReadNLString(nl, h, "(input)"); }
  catch (const mp::InvalidOptionValue &e) { rejected = true; msg = e.what(); }
  int k = objno < 0 ? 1 : objno;
  bool M = multi && objno < 0;
  int rc = 0;
  if (!ok_opts) { printf("option parsing reported errors\n"); }
  bool want_reject = objno >= 0 && k > n;
  if (rejected != want_reject) { printf("VIOLATED: objno=%d n=%d: rejected=%d, statement says %d (%s)\n", objno, n, rejected, want_reject, msg.c_str()); return 1; }
  if (rejected) { printf("ok: rejected (%s)\n", msg.c_str()); return 0; }
  std::vector<int> want;   // original indices expected
  if (M) for (int j = 0; j < n; ++j) want.push_back(j); else if (k >= 1 && k <= n) want.push_back(k - 1);
  if (p.num_objs() != (int)want.size()) { printf("VIOLATED: objno=%d multiobj=%d n=%d: %d objectives delivered, statement says %d\n", objno, multi, n, p.num_objs(), (int)want.size()); return 1; }
  for (int t = 0; t < p.num_objs(); ++t) {
    auto o = p.obj(t);
    double c = mp::Cast<mp::NumericConstant>(o.nonlinear_expr()).value();
    int sense = o.type() == mp::obj::MAX;
    if (c != want[t] + 1 || sense != want[t] % 2) { printf("VIOLATED: delivered objective %d is file objective %d (sense %d), statement says file objective %d\n", t, (int)c - 1, sense, want[t]); rc = 1; }
  }
  int used = s.objno_used();
  int want_used = want.empty() ? 0 : k;
  if (used != want_used) { printf("VIOLATED: objno_used()=%d, statement says %d\n", used, want_used); rc = 1; }
  if (!rc) printf("ok: %d objective(s) delivered, objno_used=%d\n", p.num_objs(), used);
  return rc;
}
