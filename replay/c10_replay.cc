// Native replay for C10: the real mp::StdBackend range predicates on one solve code,
// compared with the documented ranges of the property statement.
// usage: c10_replay <predicate> <code>     exit 1 = the real predicate disagrees with the documented range
#include <cstdio>
#include <cstdlib>
#include <cstring>
#include <string>
#ifndef MP_DATE
#define MP_DATE 20240101
#endif
#include "mp/backend-std.h"

struct B : mp::StdBackend<B> {
  mp::Solution GetSolution() override { return {}; }
  mp::ArrayRef<double> GetObjectiveValues() override { return {}; }
  bool IsMIP() const override { return false; }
  void Solve() override {}
  void SetInterrupter(mp::Interrupter*) override {}
  static constexpr double Infinity() { return 1e100; }
  static constexpr double MinusInfinity() { return -1e100; }
  using mp::StdBackend<B>::SetStatus;
  using mp::StdBackend<B>::IsProblemSolved;
  using mp::StdBackend<B>::IsProblemSolvedOrFeasible;
  using mp::StdBackend<B>::IsProblemIndiffInfOrUnb;
  using mp::StdBackend<B>::IsProblemInfOrUnb;
  using mp::StdBackend<B>::IsProblemInfeasible;
  using mp::StdBackend<B>::IsProblemUnbounded;
};
static bool in(int sc, int lo, int hi) { return lo <= sc && sc <= hi; }
int main(int argc, char **argv) {
  if (argc < 3) return 2;
  std::string p = argv[1]; int sc = atoi(argv[2]);
  B b; b.SetStatus({sc, ""});
  bool got, want;
  if (p == "IsProblemSolved") { got = b.IsProblemSolved(); want = in(sc,0,99); }
  else if (p == "IsProblemSolvedOrFeasible") { got = b.IsProblemSolvedOrFeasible(); want = in(sc,0,99)||in(sc,300,349)||in(sc,400,449); }
  else if (p == "IsProblemIndiffInfOrUnb") { got = b.IsProblemIndiffInfOrUnb(); want = in(sc,450,469); }
  else if (p == "IsProblemInfOrUnb") { got = b.IsProblemInfOrUnb(); want = in(sc,200,399)||in(sc,450,469); }
  else if (p == "IsProblemInfeasible") { got = b.IsProblemInfeasible(); want = in(sc,200,299); }
  else if (p == "IsProblemUnbounded") { got = b.IsProblemUnbounded(); want = in(sc,300,399); }
  else return 2;
  if (got != want) { printf("VIOLATED: %s() is %s for solve code %d, documented ranges say %s\n", p.c_str(), got?"true":"false", sc, want?"true":"false"); return 1; }
  printf("ok: %s(%d) = %s\n", p.c_str(), sc, got?"true":"false");
  return 0;
}
