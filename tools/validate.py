#!/usr/bin/env python3
# validate MANIFEST.json and evidence/*.json against the schemas (needs jsonschema: run with python3-vt)
import json, glob, sys, jsonschema
ok = True
def v(p, s):
    global ok
    try:
        jsonschema.validate(json.load(open(p)), json.load(open(s))); print('valid', p)
    except Exception as e:
        ok = False; print('INVALID', p, str(e)[:300])
v('/verif/MANIFEST.json', '/root/.vp/MANIFEST.schema.json')
for p in sorted(glob.glob('/verif/evidence/*.json')): v(p, '/root/.vp/EVIDENCE.schema.json')
sys.exit(0 if ok else 1)
