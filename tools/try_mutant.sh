#!/bin/sh
# usage: tools/try_mutant.sh <patch.diff> <property id> [check args...]
# applies the patch to /repo, runs the property's check, and undoes the patch straight afterwards
set -u
patch="$1"; prop="$2"; shift 2
git -C /repo apply "$patch" || { echo "patch does not apply"; exit 3; }
cd /verif && ./check "$prop" "$@"; rc=$?
git -C /repo checkout -- .
echo "check exit code: $rc"
exit $rc
