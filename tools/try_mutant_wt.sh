#!/bin/sh
# Like try_mutant.sh, but without touching /repo's working tree: the patch is applied to a scratch worktree of /repo's HEAD (outside /repo
# and /verif), the check runs against it (VP_REPO, separate build directory, no evidence written), the worktree is removed afterwards.
# usage: tools/try_mutant_wt.sh <patch.diff> <prop> [check args...]
patch=$(readlink -f "$1"); prop=$2; shift 2
cd "$(dirname "$0")/.." || exit 2
wt=$(mktemp -d /tmp/vp_trywt_XXXXXX); rmdir "$wt"
git -C /repo worktree add --detach -q "$wt" HEAD || exit 2
if ! git -C "$wt" apply "$patch"; then echo "patch does not apply"; git -C /repo worktree remove --force "$wt"; exit 2; fi
b=/verif/build/trywt_$$
VP_REPO="$wt" VP_BUILD="$b" VP_NO_EVIDENCE=1 ./check "$prop" "$@"; rc=$?
echo "check exit code: $rc"
git -C /repo worktree remove --force "$wt"; rm -rf "$b"; git -C /repo worktree prune
exit $rc
