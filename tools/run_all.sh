#!/bin/sh
# Runs every claimed check (quick tier) on /repo's working tree, validates MANIFEST and evidence.  exit 0 = all quiet.
cd "$(dirname "$0")/.." || exit 2
rc=0
for id in $(python3 -c "import json;print(' '.join(c['property_id'] for c in json.load(open('MANIFEST.json'))['checks']))"); do
  start=$(date +%s)
  out=$(./check "$id" --tier "${1:-quick}" 2>&1); r=$?
  echo "$out" | tail -1; [ $r -ne 0 ] && { echo "$out" | grep -E "^(VIOLATION|UNDECIDED|BROKEN|KNOWN)" | head -5; rc=1; }
done
python3-vt tools/validate.py | grep -v "^valid" ; exit $rc
