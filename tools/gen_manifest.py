#!/usr/bin/env python3
"""Writes /verif/MANIFEST.json from the table below (kept in one place so it stays valid)."""
import json
import os

HERE = os.path.dirname(os.path.dirname(os.path.abspath(__file__)))

TECH = 'contract-based deductive verification: CBMC 6.11 function/loop contracts (goto-instrument --dfcc) on C extracted mechanically from /repo on every run'

CLAIMED = {}
NA = {}


def claim(pid, text, note, design, technique=TECH, category='proof'):
    CLAIMED[pid] = dict(text=text, note=note, design=design, technique=technique, category=category)


def na(pid, reason):
    NA[pid] = reason


# ---------------------------------------------------------------------------
claim('C17',
      'Function contracts on the real SafeAbs / SafeInt(U) / operator+ - * bodies (and fmt::internal::is_negative), '
      'postconditions transcribed from the statement (exact when representable, OverflowError otherwise), discharged '
      'for ALL operand pairs of int, unsigned, long long, size_t (+,-), int and unsigned (*: exhaustive 33-way case '
      'split, kissat), and every (T,U) pair of the narrowing constructor; loop-free full-domain symbolic operands, so '
      'a complete proof, not a sample.',
      'Trusted: CBMC, the extractor rules, __int128 as the integers, SafeInt<T> rendered as its one member. '
      '64-bit multiplication is not decided (not instantiated in the repository). Call-site audit (that every size '
      'computation uses SafeInt) is not part of the claim.',
      'DESIGN.md 4 C17')

claim('C10',
      'Contracts on the real StdBackend range predicates (IsProblemSolved, IsProblemSolvedOrFeasible, IsProblemInfeasible, '
      'IsProblemUnbounded, IsProblemIndiffInfOrUnb, IsProblemInfOrUnb, IsSolStatusRetrieved) with postconditions equal to '
      'the documented ranges of the statement, for EVERY int code (not only -200..999); a lemma tying the enum sol::Status '
      'constants to the documented numbers; and the objective block of ReportSolution2AMPL proved to write the objective '
      'exactly when the code is a solution candidate and an objective value exists. Pass-through of the code, hop by hop: the '
      'HandleSolution call of ReportSolution2AMPL carries SolveCode() and the selected objective value; both SolutionAdapter '
      'constructions of SolutionWriterImpl carry the status received, one value per variable / algebraic constraint (or none) '
      'and objno_used(); the SolutionAdapter constructor and accessors return what was stored; C05.WriteSolFile proves the '
      '"objno <n> <code>" line carries sol.status(). FlatBackend::GetSolution marks a solution "known infeasible" (which makes the converter skip '
      'its solution check) exactly for the documented infeasible range 200-299 and keeps absent primal / dual vectors absent.',
      'Trusted: CBMC, extractor, SolveCode() as one ghost int (no override in the tree), writer/format calls as stubs, C++ '
      'virtual dispatch between the hops. Not decided: the -! table, AppSolutionHandlerImpl wantsol branches.',
      'DESIGN.md 4 C10')
claim('C12',
      'Contracts on the real BasicSolver option accessors (SetObjNo, GetObjNo, objno_specified, is_objno_specified, '
      'multiobj, notify_*, objno_used), the SolverNLHandlerImpl overrides, NLProblemBuilder::{resulting_nobj, NeedObj, '
      'resulting_obj_index}, the objno range check of OnHeader and the O-segment case of NLReader::Read; the statement\'s '
      'clauses (all / exactly the k-th / none, rejection beyond the file, index safety, echoed objno) are a lemma proved '
      'over those contracts for every option state, objective count and index. ProblemFlattener::Convert(MutObjective): the objective '
      'handed to AddObjective has the sense read, the linear part of the file, and the linear terms, quadratic terms and constant of the '
      'flattened nonlinear part, with sorted terms, exactly once. The objective number handed to the .sol writer by HandleSolution and '
      'HandleFeasibleSolution (final and intermediate files) is objno_used(). NLProblemBuilder::OnHeader allocates exactly resulting_nobj(h.num_objs) '
      'objectives.',
      'Trusted: CBMC, extractor, one solver object with members as globals, virtual dispatch resolved to the '
      'SolverNLHandlerImpl overrides, invariant objno_ >= -1 (proved for SetObjNo, initialiser read from the source). '
      'Not decided: discarding of skipped objective expressions/G segments (recursive readers), the expression visitor and the '
      'term containers of the flattener (ghost objects), the objno line of the .sol writer.',
      'DESIGN.md 4 C12')

claim('C15',
      'HandleSigInt gets a function contract (counter +1 or exit on the third signal, at most one callback invoked with the '
      'handler_/data_ pair it read, re-armed, nothing written when the message size is 0) proved on its real body with a loop '
      'contract; the constructor, SetHandler and the destructor are then verified with a delivery point after EVERY statement '
      '(inserted mechanically) where 1..3 signals may run that contract: pairing invariant at every boundary, not-lost, '
      'third-signal exit, teardown. A same-thread signal handler runs to completion between two statements, so these '
      'sequential nondeterministic programs cover every schedule of the statement\'s quantifier.',
      'Trusted: CBMC, extractor, atomics/sig_atomic_t as single steps w.r.t. a same-thread handler, stubs for write/signal/_exit, '
      'the constructor\'s member-initialiser list dropped. A signal in SetHandler\'s disarmed window invokes no callback (accepted: '
      'neither registration is complete). Not decided: other-thread delivery, nested signals, Windows repeater.',
      'DESIGN.md 4 C15')

claim('C14',
      'Function and loop contracts on the real decstring, Lget, Read(double), Read(pair<int,El>), VecReader::ReadNext, '
      'sufheadcheck, CheckReader, Report*, gsufread, bsufread and the WHOLE 330-line ReadSOLFile (11 loop contracts), with '
      'stdio/string functions as stubs that return any result the C standard allows: for every file content and every '
      'declared problem size all buffer accesses are in bounds, no signed overflow or out-of-range float->int conversion '
      'occurs, dual/primal readers are offered at most NumAlgCons/NumVars values (precondition checks at the real call '
      'sites), suffix buffers are sized from the validated header and their zero sentinel is never overwritten, a reader '
      'with an error or unread values always yields a non-OK result, only documented result codes are returned, and file-derived '
      'text never reaches a printf-style function as the format (CheckReader passes the reader\'s message as an argument of "%s"), and in '
      'binary form a value reported as read (OK) was read completely (fread delivered every byte of it).',
      'Trusted: CBMC, extractor (members as globals, std::string/vector as pointer+length, block stubs for File::Open and the '
      'solve_msg_ string handling), the libc stubs in shims/stdio_stubs.h, allocation succeeds. Termination of the file-driven '
      'loops is not claimed (files are finite). Library writes into the file-sized suffix buffer havoc the whole buffer. '
      'Native replay is by recorded defect inputs under ASan/UBSan, not generated from verifier traces (VIOLATION lines end '
      'in no-failing-input-found).',
      'DESIGN.md 4 C14')

claim('C11',
      'Function and loop contracts on the real SkipSpaces, SkipNonSpaces, SkipToEnd, SkipToMatchingQuote, quoted, '
      'OptionHelper<int|double|std::string>::Parse and the whole BasicSolver::ParseOptionString, over an arbitrary '
      'NUL-terminated option text of any length: every read stays at or before the terminator (also for unterminated '
      'quotes), cursors only move forward, string values are built from in-range (pointer,length) pairs, the name buffer '
      'is large enough. ParseOptionString is verified modularly against the contracts of the scanners and value parsers, and '
      '(SkipToMatchingQuote: the scan ends behind the opening quote character itself or at the terminator) and '
      'carries three clauses of the statement as assertions at every real call of the value parser: a query \'name=?\' (followed '
      'by the end of the text or any white space) never reaches it, a flag that is given a value never reaches it (an error is '
      'reported instead), an unknown name never reaches it. OptionHelper<int>::Parse hands on exactly the number strtol read or '
      'raises an option error (no silent truncation). BasicSolver::ParseOptions parses the sources in the order mp_options, '
      '<executable>_options or else <solver>_options, command line, the command line with FROM_COMMAND_LINE and in argument order. '
      'BOUNDED stand-in (not counted as proved): SolverOption::wc_match for strings of at most 5 characters - a match implies head prefix and '
      'tail suffix, head+body+tail with a non-empty body matches and records that body; the synonym test of FindOption for names of at most 5 '
      'characters - a name addresses an option through a synonym exactly when they are equal up to letter case.',
      'Trusted: CBMC, extractor, isspace as the C-locale predicate total on int, strtol/strtod never pass the first NUL, '
      'FindOption/HandleUnknownOption/ReportError/Print/getenv as stubs, the computation of the executable-specific variable name '
      '(std::filesystem) dropped. Not decided: the std::set lookup of FindOption by full name, synonym / wildcard matching beyond the bounded stand-in (std::string modelled in C), echo, the quoted-string '
      'value text, termination when HandleUnknownOption returns without consuming. Native replay: sweep of option texts, '
      'queries, integer ranges and source combinations under ASan.',
      'DESIGN.md 4 C11',
      technique=TECH + '; plus two BOUNDED stand-ins by plain CBMC with --unwind and unwinding assertions (wildcard match and synonym test of option lookup: strings of at most 5 characters), labelled bounded in the evidence and not counted as proved')

claim('C05',
      '(1) Message clause: function and loop contracts on the real internal::WriteMessage with fputc/fwrite bound to a ghost '
      'model of the output. For every NUL-terminated message of any length: reads stay inside it, the bytes written are the '
      'message bytes in order plus one inserted space per empty line, no empty line (the format\'s terminator) is written '
      'before the whole message has been written, and the output ends with the terminator line followed only by newlines. '
      '(2) Structure of the file: function and loop contracts on the real mp::WriteSolFile; every file.print("<fmt>", ...) is '
      'expanded mechanically (R22) into the token sequence its format string denotes and a ghost acceptor - the grammar of the '
      'text .sol format as the library\'s own reader parses it - checks every line: "Options", option count and options in order, '
      'the counts block in the order constraints / duals / variables / primals, exactly nduals + nprimals value lines each '
      'carrying value k at line k ({:.16}), "objno <objno-1> <status>", then the four suffix sets in kind order. '
      '(3) Suffixes: the body of the suffix loop of internal::WriteSuffixes writes "suffix <kind&mask> <n> <namelen+1> <tablen> <tablines>", the '
      'name, the table and then the value lines; SuffixValueWriter::Visit writes "<index> <value>" (reals with {:.16}); '
      'BasicSuffix<T>::VisitValues visits exactly the non-zero values in index order (so the announced count and the lines '
      'agree); SuffixValueCounter::Visit counts. (4) Reader accepts what the writer writes: SOLReader2::sufheadcheck accepts every '
      'suffix header the writer can produce, the option-count / size-check / objno lines, and every table line the writer writes '
      '(ghost fgets stream over the written bytes), and every primal / dual value line (decstring accepts the number the writer wrote even when '
      'strtod reports ERANGE for a subnormal result), and every suffix value line (every int value, INT_MIN included). '
      'Two genuine writer/reader disagreements are recorded as known findings (fewer than 3 options; vbtol form of the options).',
      'Trusted: CBMC, extractor, the ghost output model (fputc/fwrite/print always succeed; "{}" of an integer prints its '
      'decimal digits, "{:.16}" a double with 16 significant digits). Not decided: number round trip itself (fmt formatting vs '
      'strtod), the iteration over the suffix set (SuffixMap iterator; every suffix goes through the same block), binary '
      'format. The reader side is proved total and memory-safe under C14. Replay: native writer -> reader round trip '
      '(replay/c05_roundtrip.cc) over option counts, vector lengths, objective numbers and suffixes of every kind.',
      'DESIGN.md 4 C05')

claim('C03',
      'Lemmas. (0) Header layout and writer structure: the real NLWriter2::WriteNLHeader with every nm.Printf expanded mechanically (R22p: printf '
      'dialect, the gl_* format constants read from the file on each run) into a token stream over which the real TextReader::ReadHeader runs, '
      'starting from the extracted NLInfo() defaults: every field is reported as written for every valid header without stochastic entities, '
      'and real-number conversions must carry >= 17 significant digits; StartDefVar writes V <index> <nnz> <position> with the position the NL '
      'format defines (objectives numbered after ALL constraints); WriteConObjExpressions writes C0.., L0.., O0.. in order, each after the '
      'defined variables of exactly that item (3 loop contracts); WriteBndRangeOrCompl chained with the real NLReader::ReadBounds (one item): the '
      'handler receives the bounds / the complementarity entry that were written (the writer\'s DBL_MAX infinity convention stated); the lines of '
      'VPut, FuncPut, OPut1-3, OPutN (argument count, halved for a piecewise-linear term), sparse entries, suffix headers, ColSizeWriter (running '
      'sum for k, plain for K), WriteColumnSizes (letter, num_vars - 1, writer mode = announced mode), and the J<i> <nnz> / G<i> <nnz> vector headers '
      'in order (loop contracts); BOUNDED stand-ins (not counted as proved): TextFormatter::apr %d / %z for numbers of at most 3 digits - sign '
      'first, then the digits. (1) Binary numeric constants: the real BinaryFormatter::nput, the real variadic BinaryFormatter::apr (for the '
      'three formats nput uses) and the real NLReader::ReadConstant with BinaryReader::{ReadInt<short|int|long>, ReadDouble, Read} '
      'are chained over one fully symbolic double: every double is read back with the identical value, bit-identical apart '
      'from the sign of zero, NaN as NaN, and the reader consumes exactly the bytes written. (2) Opcode tables: for every '
      'constant of nl-opcodes.h (read on each run) the reader\'s OpCodeInfo/ExprInfo tables map the code to a kind with the '
      'same NL opcode and the same name. (3) Text numbers: the real DAVID_GAY_GFMT::g_fmt with dtoa as an arbitrary function '
      '(1..17 digits without trailing zeros, decimal point position anywhere in the double range, Infinity, NaN): the literal '
      'written denotes exactly dtoa\'s digits and decimal point position (mantissa digits in order, only zeros around them, '
      'point position + written exponent = decpt, exponent of 2..3 decimal digits with a sign), zero as 0, [-]Infinity, NaN. All '
      'are loop-free after unwinding loops bounded by constants (17 digits, 5 padding zeros): complete proofs by plain CBMC '
      'assertions over the real bodies.',
      'Trusted: CBMC (incl. its va_arg model), extractor, little-endian host, fwrite as a ghost byte buffer, dtoa_r_dmgay '
      '(shortest round-trip digit generation: arbitrary-precision code outside the reach of contracts; a native sweep shows it '
      'is NOT round-trip exact for some doubles next to short decimals, see DESIGN.md 9.5 observations), strtod. Not decided: '
      'suffix value lines, initial guesses (x / d), function definitions (F), string arguments, the dispatch of MakeVectorWriter to its header printer, names, whole-model text = binary equivalence. The claim is '
      'restricted to these lemmas. Native replay: replay/c03_replay.cc, replay/c03_header_replay.cc (headers, defined-variable positions through '
      'the real WriteNLFile / ReadNLFile).',
      'DESIGN.md 4 C03',
      technique='contract-based deductive verification: CBMC 6.11 DFCC function/loop contracts (writer structure) and contract-style assertions over the real extracted bodies, discharged for all inputs (formatters and header: loop-free after complete unwinding; no DFCC there because of varargs); plus two BOUNDED stand-ins (integer printing of the text formatter, numbers of at most 3 digits), labelled bounded in the evidence and not counted as proved')

claim('C02',
      'Function and loop contracts on the real leaf readers - ReaderBase::ReadChar, TextReader::{SkipSpace, ReadTillEndOfLine, '
      'ReadIntWithoutSign<int|unsigned|size_t>, DoReadOptionalInt, ReadUInt<int|size_t>, ReadUInt(int&), ReadOptionalUInt, '
      'ReadDouble, ReadOptionalDouble, ReadString, ReadName, DoReportError}, the whole ReadHeader, BinaryReaderBase::Read, '
      'BinaryReader::{ReadInt<short|int|long>, ReadUInt, ReadDouble, ReadString}, EndiannessConverter::Convert - and on the range '
      'checks of NLReader (ReadUInt(ub), ReadUInt(lb,ub), ReadNumArgs, ReadOpCode, ReadLinearExpr(n,h)), for a buffer of any length '
      'and content: the cursor stays in [start_, end_], moves forward only, no UB, every integer handed on lies in its type\'s '
      'range and inside the bound passed, common-expression counts cannot overflow, ReadLinearExpr delivers exactly the '
      'announced number of terms with variable indices inside the header range. Item readers (ReadBounds, ReadColumnSizes, '
      'ReadInitialValues, ReadSuffixValues, ReadSuffix per item class, ReadLinearExpr<AlgebraicConHandler>): every index reported is '
      'inside the declared range of its item class and exactly the announced number of values is delivered. The recursive '
      'expression reader (ReadNumericExpr x3, ReadLogicalExpr x2, ReadSymbolicExpr, ReadCountExpr, ReadArgs/DoReadArgs, '
      'BinaryArgReader, ReadReference, ReadConstant, GetOpCodeInfo over the regenerated opcode table) for trees of any depth and '
      'width by mutual induction over one contract (goto-instrument --enforce-contract-rec): exactly the announced number of '
      'arguments between Begin and End, Begin/End properly nested, arguments handed over in reading order and never null, '
      'variable / function / common-expression indices in range, every notification names the operator whose opcode was read, '
      'every record starts at a line start. The segment dispatcher NLReader::Read with a loop invariant: segment-head indices in '
      'range, common-expression Begin/End pairing, function type, suffix kind vs item class. Functional clauses: a numeral that does not '
      'fit its type is rejected, never accepted as a wrapped value (ReadIntWithoutSign); NLFileReader::Read (copy path for page-multiple files: the '
      'buffer holds size_ + 1 bytes with the terminator at size_, loop contract) and NLFileReader::Open (rounded size; mmap exactly when a zero byte '
      'follows the content; page sizes 4096 and 65536); the header round trip: the library\'s own header '
      'formatter expanded into a token stream and the real ReadHeader run over it report every field as written, for every valid header.',
      'Trusted: CBMC, extractor, *end_ == 0 (ReaderBase ctor / zero-filled mmap tail), isspace/strtod/memcpy/std::reverse stubs. '
      'Callers use constructive stubs of the callee contracts (a contract that assigns the global cursor cannot be replaced in '
      'CBMC without losing points-to information); each stub is checked against the contract text. At the NLReader level the '
      'leaf reader is used through its proved contracts only (no cursor state) and the Handler is a set of asserting stubs. '
      'Partial correctness for the recursion and the dispatcher loop (termination = consumption of input is proved for the leaf '
      'loops only). Not under contract: file = memory path (NLFileReader/mmap), the READ_BOUNDS_FIRST double pass of Read(), '
      'VarBoundHandler. DoReportError under an assumed call-history precondition. Replay: recorded hostile inputs under '
      'ASan/UBSan, and for the NLReader-level harnesses a generator of random well-formed models over every opcode read back '
      'through a checking handler.',
      'DESIGN.md 4 C02')

claim('C04',
      'Per-link transfer rules: a function contract on the real ValueNode::SetNum (int and double: stored value = documented '
      'max-among-nonzero of old and new, frame via an arbitrary witness slot) and a lemma that two transfers into one slot '
      'commute; function contracts on the real RangeCon2Slack entry functions (PostsolveSolution, Pre/PostsolveBasis with '
      'ReverseBasisLowUpp, PostsolveIIS incl. the raise on an unknown slack value, Pre/PostsolveGeneric int/double, lazy/user-cut '
      'flags) whose postconditions are the documented slack mapping of the statement, for all node sizes, indices and values; '
      'ValueNode::CleanUpAndRealloc[_Names]: before each transfer every value array has the node\'s size and holds only zeros '
      '(no value of an earlier transfer survives); Many2ManyLink::AddEntry (base of One2ManyLink / Many2OneLink) with the real '
      'NodeRange::{operator==, ExtendableBy, TryExtendBy, ExtendBy}: the set of linked (source position, target position) pairs after the '
      'call is exactly the old set plus the pairs of the new entry (arbitrary witness pair); the same for CopyLink::AddEntry with position-wise pairs; '
      'Many2ManyLink::Distr / Collect (two nested loop contracts each): every position of the sending range reaches every position of the receiving '
      'range exactly once with the value read there, and nothing is written outside the receiving range; ValueNode::Add / Select hand out '
      'the range after the declared size / the named range and grow the size to cover it (real NodeRange::Assign); FlatBackend::ReadModelSuffix '
      'reads each of the three value vectors of a multi-kind model suffix from the suffix of its own item kind; the entry loops of a link range '
      '(DistributeFromSrc2Dest in creation order, CollectFromDest2Src in reverse order, each entry once).',
      'Trusted: CBMC, extractor, value vectors as (pointer,length), Get/Set accessors bound to three node arrays with the proved '
      'SetNum rule, target entries cleaned to zero before a transfer (assumed), no NaN. Not decided: the link graph itself '
      '(the order in which links run, CopySrcDest of CopyLink, autolinking over std::deque), exactly-one-value-per-item, CleanUpValueNodes, '
      'slack value computation. Native replay: replay/c04_replay.cc (setnum, graph, links), replay/c04_repeat_replay.cc.',
      'DESIGN.md 4 C04')

claim('C07',
      'Evaluators only: function and loop contracts on the real ComputeValue overloads for Max, Min, Abs, And, Or, Not, Div '
      '(zero-divisor branch), IfThen, Implication, AllDiff, Count, NumberofConst, NumberofVar and on Violation::Check, for argument '
      'lists of any length and any point. Max/Min: >= / <= every argument (arbitrary witness) and <= / >= every common bound of '
      'the arguments, i.e. exactly the maximum/minimum; And/Or: 0/1, decided by any false/true witness and 1/0 when none exists; '
      'Abs/Not/IfThen/Implication: the mathematical value; AllDiff: 0 whenever two arguments are equal; Count: in [0,n], n when '
      'all true, 0 when none; Violation::Check: violated iff viol > epsabs and (valX == 0 or |viol/valX| > epsrel). '
      'Which constraints count: IndicatorConstraint::ComputeViolation (the implied constraint counts exactly when the binary\'s nearest '
      'integer is the indicator value), FunctionalConstraint::ComputeViolation (result variable against the recomputed value, by context), '
      'AlgebraicConstraint::ComputeViolation and AlgConRhs<kind>::ComputeViolation (lower / upper side per comparison kind). '
      'Variables: SolutionChecker::CheckVars (loop contract, witness variable): every checked variable has its lower bound (lb - x relative '
      'to lb), upper bound (x - ub relative to ub) and - when integer - integrality (absolute tolerance only) passed to the violation counter. '
      'Constraints: ConstraintKeeper::ComputeViolations (loop contract, witness constraint): a constraint that is not unused is checked exactly when '
      'one of its classes (original 2 / intermediate 4 / sent to the solver 8) is requested, and counted under the right heading. '
      'Objectives: SolutionChecker::CheckObjs: every objective with a reported value is checked once, |reported - recomputed| relative to the '
      'recomputed value, with the feasibility tolerances in their places (absolute, relative). ComputeValue(PLConstraint): breakpoint values, '
      'the side the left / right extension terms move the value to (products opaque), segment search under a loop contract.',
      'Trusted: CBMC (fabs/round models), extractor, arguments are valid variable indices (model invariant, assumed at each access), '
      'no NaN in the point. Not decided: exact counting for Count/Numberof, the quotient of Div (double division is beyond every '
      'installed back end), the converse of AllDiff, transcendental evaluators, the order of the keepers, recomputation of '
      'auxiliary variables, option plumbing, solve code 150. Native replay: replay/c07_replay.cc (grid of points on the real evaluators).',
      'DESIGN.md 4 C07')

claim('C06',
      'Multiplication-free preprocessors: function and loop contracts on the real PreprocessInfo::narrow_result_bounds, '
      'FlatModel::{lb_array, ub_array, lb_max_array, ub_min_array, common_type, is_fixed, fixed_value, is_integer_var, '
      'is_integer_value}, count_fixed_01, FixEqualityResult, the rhs rounding of conditional comparisons (all four kinds, all '
      'doubles) and PreprocessConstraint for Abs, Min, Max, IfThen, Not, AllDiff, Implication, Count, NumberofConst, NumberofVar, '
      'the fixed-result part of And/Or, Div (result box = hull of the four corner quotients, corner quotients as opaque ghost values; '
      'integer result type only for an exact integer quotient of fixed integers), Pow (constant only for exponent 0, alias only for exponent 1, '
      'integer only for an integer argument and a non-negative integer exponent, box never narrower than the two end values - opaque ghosts - '
      'and containing 0 for an even exponent around 0), the bounds and type of affine and quadratic expressions (expr_bounds.h: which bound of which '
      'variable enters which side of each term by the sign of its coefficient, each term once, INTEGER only for integer variables and integer '
      'coefficients - witness term, loop contracts; ProductBounds as the hull of the four corner products / [0 or min, max] of the squares, the '
      'products being opaque ghost values; AddBoundsAndType), down-propagation of And / Or / Not results (a false conjunction / true disjunction '
      'implies nothing about a single argument; Not mirrors the box), and the result boxes of Exp, ExpA, Sin, Cos, Tanh, Asin, Acos, Atan, Cosh, Acosh - for '
      'argument lists and models of any size: the array functions return exactly the min/max of the box ends (witness position + '
      'arbitrary common bound), types are INTEGER only for integer-valued arguments, aliases only when exact, fixed results only '
      'when justified for every body value, range boxes contain the range constants of the functions.',
      'Trusted: CBMC (fabs/floor/ceil models), extractor (prepro / model handle objects as free functions), arguments are valid '
      'variable indices, bounds not NaN, the body box given to FixEqualityResult is sound. NOT under contract (IEEE '
      'multiplication/division/pow monotonicity is beyond every installed back end): ComputeBoundsAndType for linear/quadratic '
      'terms (the products and sums themselves), the arithmetic of Div\'s corner quotients, what pow returns and its monotonicity, And/Or argument filtering, NarrowVarBounds propagation, lin_approx.h. The claim is restricted '
      'accordingly.',
      'DESIGN.md 4 C06')

claim('C16',
      '"Error instead of silent NaN" clause. (A) Function and loop contracts on the real helpers check_args, check_result, '
      'format_eval_error, check_const_arg, check_int_arg, check_uint_arg, check_zero_func_args, check_deriv_arg, check_bessel_args, mul_by_sign '
      '(the derivative factor of |x|: NaN - hence an error - at the kink) for '
      'any argument count. (B) For every binding registered with ADDFUNC (table read on each run; both tiers: all ~342; the thorough tier re-proves a seed-chosen 10% sample with '
      'a second SAT back end) the real body is checked with every gsl_* function given an arbitrary result: whenever a GSL function '
      'with a status result (*_e family) reports a failure an error message is set; when no error message is set the value and the requested derivative / Hessian entries are not NaN, derivative arrays '
      'are written only inside their n and n(n+1)/2 entries, no signed overflow in the derivative formulas; the helper loops are '
      'bounded by the arity constant, so the per-binding checks are complete.',
      'Trusted: CBMC, extractor (whole binding section compiled as C), the funcadd.h stub written from ASL\'s public interface, the '
      'installed GSL headers, GSL functions and the libm functions CBMC has no model for as arbitrary. The float->int casts of '
      'arguments that precede their validation are not obligations of this property. Not decided: agreement of derivatives with '
      'numerical differentiation, determinism of GSL, the per-function rule "derivative w.r.t. an integer argument is an error", '
      'stale derivative slots.',
      'DESIGN.md 4 C16',
      technique='contract-based deductive verification: CBMC 6.11 DFCC function/loop contracts for the helpers; per-binding assertions over the real extracted bodies (loops bounded by the arity constant: complete)')

for pid, reason in [
    ('C01', 'relational whole-pipeline equivalence across ~12k lines of CRTP templates; no function boundary carries it and the code is outside the mechanically extractable C subset (DESIGN.md 5)'),
    ('C09', 'whole-process behaviour (exit status, files, exception propagation through try/catch) - not expressible as function contracts here (DESIGN.md 5)'),
    ('C13', 'needs real analysis over transcendental functions; CBMC has no semantics for exp/log/sin and the generator is lambda/std::vector based (DESIGN.md 5)'),
    ('C18', 'structural induction over factory-allocated expression trees behind CRTP visitors; not extractable, no inductive heap predicates in CBMC (DESIGN.md 5)'),
    ('C19', 'uniqueness of std::string concatenations over a whole conversion history; string reasoning outside the verifier (DESIGN.md 5)'),
    ('C20', 'JSON text validity and referential integrity over a whole conversion; fmt/stream based writer outside the extractable subset (DESIGN.md 5)'),
]:
    na(pid, reason)

PENDING = {
    'C02': 'contracts for the NL reader leaf functions are designed (DESIGN.md 4 C02) but not yet built in this tree',
    'C03': 'designed (DESIGN.md 4 C03), not yet built',
    'C04': 'designed (DESIGN.md 4 C04), not yet built',
    'C05': 'designed (DESIGN.md 4 C05), not yet built',
    'C06': 'designed (DESIGN.md 4 C06), not yet built',
    'C07': 'designed (DESIGN.md 4 C07), not yet built',
    'C08': 'container-heavy C++ (std::vector<bool>, std::pair brace-initialisation, std::stable_sort) outside the mechanically extractable C subset; the postconditions need counting/permutation spec functions CBMC lacks - only a bounded stand-in was ever possible and none is claimed (DESIGN.md 4 C08, 9.4)',
    'C10': 'designed (DESIGN.md 4 C10), not yet built',
    'C11': 'designed (DESIGN.md 4 C11), not yet built',
    'C12': 'designed (DESIGN.md 4 C12), not yet built',
    'C14': 'designed (DESIGN.md 4 C14), not yet built',
    'C15': 'designed (DESIGN.md 4 C15), not yet built',
    'C16': 'designed (DESIGN.md 4 C16), not yet built',
}


def main():
    # a property is pending only while no spec exists for it
    for pid, reason in PENDING.items():
        if pid not in CLAIMED and pid not in NA:
            NA[pid] = reason
    checks = []
    for pid in sorted(CLAIMED):
        c = CLAIMED[pid]
        checks.append({
            'property_id': pid,
            'quick_cmd': './check %s --tier quick' % pid,
            'thorough_cmd': './check %s --tier thorough' % pid,
            'evidence_file': 'evidence/%s.json' % pid,
            'replay_cmd_template': './check %s --replay {path}' % pid,
            'engine': 'cbmc-contracts',
            'level_claimed': {'category': c['category'], 'text': c['text'], 'design_ref': c['design']},
            'level_note': c['note'],
            'technique': c['technique'],
        })
    hooks_commits = []
    hp = os.path.join(HERE, 'hooks_commits.txt')
    if os.path.exists(hp):
        hooks_commits = [l.strip() for l in open(hp) if l.strip()]
    m = {
        'version': 1,
        'setup_cmd': 'mkdir -p build evidence',
        'hooks': {
            'guard': 'AMPL_MP_VERIF',
            'enable': 'replay drivers compile /repo sources with -DAMPL_MP_VERIF; the CBMC side needs no hooks '
                      '(the extractor inserts delivery points itself)',
            'baseline_off_cmd': 'tools/baseline.sh',
            'source_commits': hooks_commits,
            'add_only': True,
        },
        'engines': [{
            'name': 'cbmc-contracts', 'path': 'vp/',
            'serves_properties': sorted(CLAIMED),
            'kind_free_text': 'mechanical extraction of /repo function bodies to C + CBMC 6.11 DFCC function and loop '
                              'contracts, SAT (MiniSat/kissat) and SMT back ends; native replay of counterexamples '
                              'against the real C++',
        }],
        'checks': checks,
        'not_applicable': [{'property_id': k, 'reason': NA[k]} for k in sorted(NA)],
        'notes': 'exit 0 = all obligations discharged (open known findings printed as KNOWN-FINDING); exit 1 = VIOLATION; '
                 'exit 2 = undecided / extraction broke / vacuous harness (never a violation). See DESIGN.md.',
    }
    with open(os.path.join(HERE, 'MANIFEST.json'), 'w') as f:
        json.dump(m, f, indent=1)
        f.write('\n')


if __name__ == '__main__':
    main()
