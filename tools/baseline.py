#!/usr/bin/env python3
import json, os, subprocess, sys, tempfile, xml.etree.ElementTree as ET
REPO = os.environ.get('VP_REPO', '/repo')
BUILD = os.path.join(REPO, '_build')
base = json.load(open('/root/.vp/BASELINE.json'))
stable = set(base['stable_pass'])
if not os.path.exists(os.path.join(BUILD, 'build.ninja')) and not os.path.exists(os.path.join(BUILD, 'Makefile')):
    subprocess.check_call(['cmake', '-G', 'Ninja', '-B', BUILD, '-S', REPO])
p = subprocess.run(['cmake', '--build', BUILD, '-j16'], stdout=subprocess.PIPE, stderr=subprocess.STDOUT, text=True)
if p.returncode != 0:
    print(p.stdout[-3000:]); print('BUILD FAILED'); sys.exit(1)
info = json.loads(subprocess.check_output(['ctest', '--test-dir', BUILD, '--show-only=json-v1'], text=True))
passed = set()
tmp = tempfile.mkdtemp(prefix='vpbase')
for t in info['tests']:
    name = t['name']; cmd = t.get('command')
    if not cmd: continue
    cwd = BUILD
    for pr in t.get('properties', []):
        if pr['name'] == 'WORKING_DIRECTORY': cwd = pr['value']
    xml = os.path.join(tmp, name + '.xml')
    try:
        r = subprocess.run(cmd + ['--gtest_output=xml:' + xml], cwd=cwd, stdout=subprocess.DEVNULL,
                           stderr=subprocess.DEVNULL, timeout=900)
        rc = r.returncode
    except Exception:
        rc = 1
    if rc == 0: passed.add('%s::%s' % (name, name))
    if os.path.exists(xml):
        try:
            for tc in ET.parse(xml).getroot().iter('testcase'):
                ok = tc.find('failure') is None and tc.find('error') is None and tc.get('status', 'run') != 'notrun'
                if ok: passed.add('%s::%s' % (tc.get('classname'), tc.get('name')))
        except ET.ParseError:
            pass
subprocess.run(['rm', '-rf', tmp])
missing = sorted(stable - passed)
print('baseline: %d stable tests, %d pass now, %d missing' % (len(stable), len(stable & passed), len(missing)))
for m in missing: print('  NOT PASSING: ' + m)
sys.exit(1 if missing else 0)
