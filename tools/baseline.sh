#!/bin/sh
# Runs ampl/mp's pinned test suite with the AMPL_MP_VERIF guard OFF (plain build) and compares
# with the stable baseline in /root/.vp/BASELINE.json.  exit 0 = every stable test passes.
exec python3 "$(dirname "$0")/baseline.py" "$@"
