"""Thorough tier only: sensitivity of a property's check to the recorded seeded changes (seeded/M*/patch.diff).

For every seeded change of the property a scratch worktree of /repo's HEAD is created OUTSIDE /repo and /verif, the patch is applied
there and the property's quick check is run against it (VP_REPO=<worktree>, separate build directory, no evidence written).  The
change counts as detected when the check exits 1 with a VIOLATION line.  The worktree is removed straight afterwards.

This does not decide the property (the verdict comes from the run on /repo's working tree); it measures that the contracts still
notice the realistic breakages collected so far.  The result goes into the evidence file under coverage.seeded_changes; a change
that is no longer detected is printed as a SENSITIVITY line and never changes the exit code.
"""
import glob
import json
import os
import shutil
import subprocess
import sys
import tempfile
import time

VERIF = os.path.dirname(os.path.dirname(os.path.abspath(__file__)))


def run(prop, jobs=16):
    repo = os.environ.get('VP_REPO', '/repo')
    out = []
    metas = []
    for d in sorted(glob.glob(os.path.join(VERIF, 'seeded', 'M*'))):
        try:
            meta = json.load(open(os.path.join(d, 'meta.json')))
        except (OSError, ValueError):
            continue
        if meta.get('property') == prop and os.path.exists(os.path.join(d, 'patch.diff')) and not meta.get('obsolete'):
            metas.append((d, meta))
    if not metas:
        return out
    if subprocess.run(['git', '-C', repo, 'rev-parse', 'HEAD'], capture_output=True).returncode != 0:
        return [{'id': os.path.basename(d), 'result': 'skipped: %s is not a git checkout' % repo} for d, _ in metas]
    base = tempfile.mkdtemp(prefix='vp_sens_')
    try:
        for d, meta in metas:
            mid = os.path.basename(d)
            wt = os.path.join(base, mid)
            t0 = time.time()
            rec = {'id': mid, 'what': meta.get('what', '')[:160]}
            try:
                p = subprocess.run(['git', '-C', repo, 'worktree', 'add', '--detach', '-q', wt, 'HEAD'], capture_output=True, text=True)
                if p.returncode != 0:
                    rec['result'] = 'skipped: worktree: ' + p.stderr.strip()[:120]
                    out.append(rec)
                    continue
                p = subprocess.run(['git', '-C', wt, 'apply', os.path.join(d, 'patch.diff')], capture_output=True, text=True)
                if p.returncode != 0:
                    rec['result'] = 'skipped: the patch no longer applies to HEAD'
                    out.append(rec)
                    continue
                env = dict(os.environ, VP_REPO=wt, VP_BUILD=os.path.join(VERIF, 'build', 'sens', mid), VP_NO_EVIDENCE='1', VERIF_TIER='quick', VP_JOBS=str(jobs))
                cmd = [sys.executable, os.path.join(VERIF, 'check'), prop, '--tier', 'quick']
                if meta.get('harness_regex'):
                    cmd += ['--only', meta['harness_regex']]
                try:
                    p = subprocess.run(cmd, capture_output=True, text=True, env=env, timeout=3600)
                    vio = [ln for ln in p.stdout.splitlines() if ln.startswith('VIOLATION ')]
                    rec['exit'] = p.returncode
                    rec['result'] = 'detected' if (p.returncode == 1 and vio) else ('not detected' if p.returncode == 0 else 'undecided (exit %d)' % p.returncode)
                    rec['violations'] = len(vio)
                    rec['replayed'] = sum(1 for ln in vio if not ln.rstrip().endswith('no-failing-input-found'))
                except subprocess.TimeoutExpired:
                    rec['result'] = 'undecided (timeout)'
            finally:
                subprocess.run(['git', '-C', repo, 'worktree', 'remove', '--force', wt], capture_output=True)
                shutil.rmtree(os.path.join(VERIF, 'build', 'sens', mid), ignore_errors=True)
            rec['seconds'] = round(time.time() - t0, 1)
            out.append(rec)
    finally:
        shutil.rmtree(base, ignore_errors=True)
        subprocess.run(['git', '-C', repo, 'worktree', 'prune'], capture_output=True)
    return out
