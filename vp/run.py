"""Build and run CBMC contract harnesses; classify obligations; triage; evidence."""
import json
import os
import re
import resource
import shutil
import subprocess
import sys
import time
from concurrent.futures import ThreadPoolExecutor

from . import extract
from .extract import ExtractionError

VERIF = os.path.dirname(os.path.dirname(os.path.abspath(__file__)))
BUILD = os.environ.get('VP_BUILD') or os.path.join(VERIF, 'build')       # VP_BUILD: separate build directory for sensitivity sub-runs
SHIMS = os.path.join(VERIF, 'shims')
MEM_KB = 12 * 1024 * 1024

SAFETY_CLASSES = {
    'overflow', 'pointer_dereference', 'array_bounds', 'division-by-zero', 'pointer_arithmetic',
    'undefined-shift', 'pointer', 'pointer_primitives', 'bit_count', 'NaN', 'float-overflow',
    'memory-leak', 'enum-range-check',
}
CONTRACT_CLASSES = {
    'postcondition', 'precondition', 'assigns', 'loop_invariant_base', 'loop_invariant_step',
    'loop_decreases', 'loop_assigns', 'assertion', 'precondition_instance', 'loop_step_unwinding',
    'loop_decreases_step',
}
HOUSEKEEPING_CLASSES = {
    'single_top_level_call', 'no_alloc_dealloc_in_requires', 'no_alloc_dealloc_in_ensures',
    'no_recursive_call', 'unwind', 'recursion',
}


def _rank(o):
    # the named obligations of the specification lead the report; arithmetic / pointer side conditions and loop invariants follow
    n = o['name']
    if '.postcondition.' in n or '.precondition' in n:
        return 0
    if '.assertion.' in n:
        return 1
    if 'loop_invariant' in n or 'loop_decreases' in n:
        return 3
    return 2


class Harness:
    def __init__(self, name, prop, parts, enforce=None, replace=(), loop_contracts=False,
                 flags=(), backend='sat', timeout=300, inputs=(), bounded=None,
                 expect_loop_obligations=0, defines=(), entry='harness', note='',
                 stubs=(), assumptions=(), replay=None, nondet_static=False, group=None,
                 object_bits=None, no_canary=False, plain=False, ignore=(), gen_bodies=None, recursive=False):
        self.name = name
        self.prop = prop
        self.parts = parts          # list of str | extract.Fn
        self.enforce = enforce
        self.replace = list(replace)
        self.loop_contracts = loop_contracts
        self.flags = list(flags)
        self.backend = backend
        self.timeout = timeout
        self.inputs = list(inputs)
        self.bounded = bounded      # None or dict(unwind=N, reason=...)
        self.expect_loop_obligations = expect_loop_obligations
        self.defines = list(defines)
        self.entry = entry
        self.note = note
        self.stubs = list(stubs)    # names of contract stubs assumed
        self.assumptions = list(assumptions)
        self.replay = replay        # callable(failure dict, inputs dict) -> (reproduced, text, cmd)
        self.group = group
        self.object_bits = object_bits
        self.no_canary = no_canary
        self.ignore = list(ignore)    # regexes on obligation descriptions that are not obligations of this property
        self.gen_bodies = gen_bodies  # regex: body-less functions get a havocking body (goto-instrument --generate-function-body)
        self.recursive = recursive  # --enforce-contract-rec: recursive calls are assumed to satisfy the contract being checked (induction on the call depth)
        self.plain = plain      # no DFCC instrumentation: assertions over the real bodies, loops fully unwound
        self.result = None


def _limits():
    resource.setrlimit(resource.RLIMIT_AS, (MEM_KB * 1024, MEM_KB * 1024))
    os.setsid()


def sh(cmd, timeout, cwd=None, stdout_path=None):
    t0 = time.time()
    try:
        if stdout_path:
            with open(stdout_path, 'wb') as fo:
                p = subprocess.run(cmd, stdout=fo, stderr=subprocess.PIPE, timeout=timeout, cwd=cwd,
                                   preexec_fn=_limits)
            out = b''
        else:
            p = subprocess.run(cmd, stdout=subprocess.PIPE, stderr=subprocess.PIPE, timeout=timeout,
                               cwd=cwd, preexec_fn=_limits)
            out = p.stdout
        return p.returncode, out.decode('utf-8', 'replace'), p.stderr.decode('utf-8', 'replace'), time.time() - t0
    except subprocess.TimeoutExpired as e:
        return 124, '', 'timeout after %ss' % timeout, time.time() - t0


def generate(h, outdir):
    infos = []
    chunks = ['/* generated on every run by /verif/vp from %s; do not edit */\n' % extract.REPO,
              '#include "mp_shim.h"\n']
    for p in h.parts:
        if isinstance(p, (extract.Fn, extract.Braced)) or (hasattr(p, 'render') and hasattr(p, 'info')):
            chunks.append(p.render())
            infos.append(p.info)
        elif isinstance(p, tuple) and p[0] == 'enum':
            text, info = extract.extract_enum(*p[1:])
            chunks.append(text)
            infos.append(info)
        else:
            chunks.append('#line 1 "spec:%s"\n' % h.name)
            chunks.append(p if p.endswith('\n') else p + '\n')
    path = os.path.join(outdir, h.name + '.c')
    with open(path, 'w') as f:
        f.write(''.join(chunks))
    return path, infos


def classify(prop_name, desc):
    """-> (kind, counted) ; kind in contract/safety/canary/internal/housekeeping/ignored"""
    if desc.startswith('vp_canary'):
        return 'canary', False
    fn, _, rest = prop_name.partition('.')
    cls = rest.rsplit('.', 1)[0] if '.' in rest else rest
    if fn.startswith('__CPROVER_contracts_') or fn.startswith('__CPROVER__start'):
        return 'internal', False
    if cls in HOUSEKEEPING_CLASSES:
        return 'housekeeping', False
    if cls == 'overflow':
        if 'type conversion' in desc:
            if 'float' in desc or 'double' in desc:
                return 'safety', True
            return 'ignored', False    # integer conversions are defined behaviour
        if 'unsigned' in desc and 'signed' not in desc.replace('unsigned', ''):
            return 'ignored', False
        return 'safety', True
    if cls in CONTRACT_CLASSES:
        return 'contract', True
    if cls in SAFETY_CLASSES:
        return 'safety', True
    return 'other', True


def run_harness(h, outdir, tier):
    """Returns dict with status proved/failed/undecided/broken and details."""
    res = {'harness': h.name, 'status': 'undecided', 'reason': '', 'obligations': [], 'seconds': 0.0,
           'backend': h.backend, 'functions': [], 'bounded': h.bounded, 'cmd': ''}
    h.result = res
    t0 = time.time()
    try:
        cpath, infos = generate(h, outdir)
    except ExtractionError as e:
        res['status'] = 'broken'
        res['reason'] = 'extraction broke: %s' % e
        return res
    res['functions'] = infos
    res['c_file'] = cpath
    gb1 = os.path.join(outdir, h.name + '.1.gb')
    gb2 = os.path.join(outdir, h.name + '.2.gb')
    cmd = ['goto-cc', '--function', h.entry, '-I', SHIMS, '-DVP_CBMC'] + ['-D' + d for d in h.defines] + [cpath, '-o', gb1]
    rc, out, err, _ = sh(cmd, 120)
    res['compile_log'] = (out + err)[-4000:]
    if rc != 0:
        res['status'] = 'broken'
        res['reason'] = 'extracted text does not compile as C (extraction broke): ' + (out + err)[-1500:]
        return res
    gi = ['goto-instrument', '--dfcc', h.entry]
    if h.enforce:
        gi += ['--enforce-contract-rec' if h.recursive else '--enforce-contract', h.enforce]
    present = None
    if h.replace:
        # DFCC refuses to replace a function that is not in the program (the code under test may no longer call it: then there is nothing to replace)
        rc_s, out_s, _e, _t = sh(['goto-instrument', '--list-symbols', gb1], 120)
        if rc_s == 0:
            present = set(ln.split(' ', 1)[0] for ln in out_s.splitlines() if ln and not ln.startswith('contract::'))
    skipped = []
    for r in h.replace:
        if present is not None and r not in present:
            skipped.append(r)
            continue
        gi += ['--replace-call-with-contract', r]
    if skipped:
        res['replace_skipped_not_called'] = skipped
    if h.loop_contracts:
        gi += ['--apply-loop-contracts']
    if h.plain and h.gen_bodies:
        gi = ['goto-instrument', '--generate-function-body', h.gen_bodies, '--generate-function-body-options',
              'havoc,params:.*', gb1, gb2]
    elif h.plain:
        gi = ['cp', gb1, gb2]
    else:
        gi += [gb1, gb2]
    rc, out, err, _ = sh(gi, 300)
    res['instrument_log'] = (out + err)[-4000:]
    if rc != 0:
        res['status'] = 'undecided'
        res['reason'] = 'goto-instrument failed: ' + (out + err)[-1500:]
        return res
    cb = ['cbmc', gb2, '--json-ui', '--conversion-check', '--no-malloc-may-fail']
    if h.bounded:
        cb += ['--unwind', str(h.bounded['unwind']), '--unwinding-assertions']
    else:
        # loop contracts close every loop; any loop left is unwound once and must assert
        cb += ['--unwinding-assertions']
    if h.object_bits:
        cb += ['--object-bits', str(h.object_bits)]
    if h.backend == 'kissat':
        cb += ['--external-sat-solver', 'kissat']
    elif h.backend == 'cadical':
        cb += ['--sat-solver', 'cadical']
    elif h.backend == 'cvc5':
        cb += ['--cvc5']
    elif h.backend == 'z3':
        cb += ['--z3']
    cb += h.flags
    res['cmd'] = ' '.join(cmd) + ' && ' + ' '.join(gi) + ' && ' + ' '.join(cb)
    cb_text = [x for x in cb if x != '--json-ui']
    jpath = os.path.join(outdir, h.name + '.log')
    rc, out, err, secs = sh(cb_text, h.timeout, stdout_path=jpath)
    res['seconds'] = round(time.time() - t0, 2)
    res['solver_seconds'] = round(secs, 2)
    res['log'] = jpath
    if rc == 124:
        res['reason'] = 'solver timeout (%ds)' % h.timeout
        return res
    try:
        with open(jpath, errors='replace') as f:
            text = f.read()
    except OSError as e:
        res['reason'] = 'cbmc output missing: %s' % e
        return res
    text_all = text + '\n' + err
    warn = [l for l in text_all.splitlines() if 'ignoring' in l]
    nobody = [l for l in text_all.splitlines() if 'no body for function' in l]
    res['warnings'] = warn + nobody
    if 'VERIFICATION SUCCESSFUL' not in text and 'VERIFICATION FAILED' not in text:
        tail = [l for l in text_all.splitlines() if l.strip()][-12:]
        res['reason'] = 'cbmc produced no verdict (rc=%s): %s' % (rc, ' | '.join(tail)[-1500:])
        return res
    n_loop_step = 0
    obs = []
    cur_file, cur_fn = '', ''
    hdr = re.compile(r'^(\S.*) function (\S+)$')
    line_re = re.compile(r'^\[([^\]]+)\] (?:line (\d+) )?(.*): (SUCCESS|FAILURE|UNKNOWN|ERROR)$')
    for ln in text.splitlines():
        m = line_re.match(ln)
        if m:
            name, lno, desc, st = m.group(1), m.group(2) or '', m.group(3), m.group(4)
            kind, counted = classify(name, desc)
            if counted and any(re.search(rx, desc) for rx in h.ignore):
                kind, counted = 'ignored', False
            ob = {'name': name, 'description': desc, 'status': st, 'kind': kind, 'counted': counted,
                  'file': cur_file, 'line': lno, 'function': cur_fn}
            if '.loop_invariant_step' in name:
                n_loop_step += 1
            obs.append(ob)
            continue
        m = hdr.match(ln)
        if m and not ln.startswith('['):
            cur_file, cur_fn = m.group(1), m.group(2)
    res['obligations'] = obs
    res['n_loop_step'] = n_loop_step
    # verdict
    if warn:
        res['reason'] = 'solver ignored a construct: ' + warn[0]
        return res
    undefined = [o for o in obs if 'undefined function should be unreachable' in o['description'] and o['status'] != 'SUCCESS']
    if undefined:
        # the code calls a function (or template instantiation) that this harness did not extract: a limit of the harness, not a verdict
        res['status'] = 'broken'
        res['reason'] = 'extraction incomplete: %s is called but was not extracted (%s)' % (undefined[0]['name'].split('.')[0], undefined[0]['name'])
        return res
    bad_internal = [o for o in obs if o['kind'] in ('internal', 'housekeeping') and o['status'] != 'SUCCESS']
    has_real_failure = any(o['counted'] and o['status'] == 'FAILURE' for o in obs)
    # instrumentation obligations that are not discharged make the run undecided - unless a counted obligation
    # failed as well: then that failure is the verdict
    if bad_internal and not has_real_failure:
        res['reason'] = 'instrumentation / unwinding obligation not discharged: %s (%s)' % (
            bad_internal[0]['name'], bad_internal[0]['description'])
        return res
    canaries = [o for o in obs if o['kind'] == 'canary']
    if not h.no_canary:
        if not canaries:
            res['reason'] = 'no canary obligation generated (vacuity guard)'
            return res
        dead = [o for o in canaries if o['status'] != 'FAILURE']
        # a failed obligation that cuts every path (assert-then-assume acceptors, throws) is the verdict, not vacuity
        if dead and not has_real_failure:
            res['status'] = 'broken'
            res['reason'] = 'vacuous harness: canary %r is unreachable' % dead[0]['description']
            return res
    if h.loop_contracts and n_loop_step < h.expect_loop_obligations:
        res['status'] = 'broken'
        res['reason'] = 'loop contract silently dropped: %d loop_invariant_step obligations, spec expects %d' % (
            n_loop_step, h.expect_loop_obligations)
        return res
    counted = [o for o in obs if o['counted']]
    if not counted:
        res['status'] = 'broken'
        res['reason'] = 'no obligations generated'
        return res
    unknown = [o for o in counted if o['status'] not in ('SUCCESS', 'FAILURE')]
    if unknown and not has_real_failure:
        res['reason'] = 'obligation status %s for %s' % (unknown[0]['status'], unknown[0]['name'])
        return res
    failed = [o for o in counted if o['status'] == 'FAILURE']

    failed.sort(key=_rank)
    res['status'] = 'failed' if failed else 'proved'
    if failed:
        # second run for a counterexample trace of the leading failed obligation (best effort: trace
        # generation may crash on havoc_slice objects; the verdict does not depend on it)
        lead = failed[0]
        tpath = os.path.join(outdir, h.name + '.trace.json')
        rc2, _, _, _ = sh(cb_text + ['--json-ui', '--trace', '--property', lead['name']], h.timeout, stdout_path=tpath)
        try:
            with open(tpath) as f:
                tdata = json.load(f)
            for x in tdata:
                for r in x.get('result', []) if isinstance(x, dict) else []:
                    if r.get('property') == lead['name'] and 'trace' in r:
                        vals = {}
                        for st_ in r['trace']:
                            if st_.get('stepType') == 'assignment':
                                lhs = st_.get('lhs', '')
                                if lhs.startswith('vp_in_'):
                                    v = st_.get('value', {})
                                    vals[lhs] = v.get('data') if 'data' in v else _flatten(v)
                                    if 'binary' in v:
                                        vals[lhs + '#bin'] = v['binary']
                        lead['inputs'] = vals
        except Exception:
            pass
    return res


def _flatten(v):
    if isinstance(v, dict):
        if 'data' in v:
            return v['data']
        if 'elements' in v:
            return [_flatten(e.get('value', e)) for e in v['elements']]
        if 'members' in v:
            return {m.get('name'): _flatten(m.get('value', m)) for m in v['members']}
    return None


def load_known(prop):
    path = os.path.join(VERIF, 'known_findings.jsonl')
    out = []
    if os.path.exists(path):
        for line in open(path):
            line = line.strip()
            if not line or line.startswith('#'):
                continue
            try:
                e = json.loads(line)
            except ValueError:
                continue
            if e.get('property') == prop:
                out.append(e)
    return out


def match_known(known, harness, ob):
    for e in known:
        if e.get('status') != 'open':
            continue
        m = e.get('match', {})
        if 'harness' in m and not re.search(m['harness'], harness):
            continue
        if 'function' in m and not re.search(m['function'], ob.get('function', '')):
            continue
        if 'file' in m and not ob.get('file', '').endswith(m['file']):
            continue
        if 'description' in m and not re.search(m['description'], ob.get('description', '')):
            continue
        if 'obligation' in m and not re.search(m['obligation'], ob.get('name', '')):
            continue
        return e
    return None


def run_property(prop, harnesses, tier, seed, meta, partial=False):
    """Run all harnesses of a property; print verdict lines; write evidence; return exit code."""
    t0 = time.time()
    outdir = os.path.join(BUILD, prop)
    if not partial:
        shutil.rmtree(outdir, ignore_errors=True)
    os.makedirs(outdir, exist_ok=True)
    replaydir = os.path.join(BUILD, 'replay')
    os.makedirs(replaydir, exist_ok=True)
    for fn_ in os.listdir(replaydir):
        if fn_.startswith(prop + '.') and fn_.endswith('.json'):
            os.remove(os.path.join(replaydir, fn_))
    workers = int(os.environ.get('VP_JOBS', '16'))
    with ThreadPoolExecutor(max_workers=workers) as ex:
        results = list(ex.map(lambda h: run_harness(h, outdir, tier), harnesses))
    known = load_known(prop)
    total = discharged = 0
    violations = []
    known_hits = []
    undecided = []
    broken = []
    bounded_list = []
    samples = []
    functions = {}
    stubs = set()
    assumptions = set(meta.get('assumptions', []))
    per_harness = []
    for h, r in zip(harnesses, results):
        for fi in r.get('functions', []):
            if 'function' in fi:
                key = (fi['function'], fi.get('instantiation'))
                functions[key] = fi
        stubs.update(h.stubs)
        assumptions.update(h.assumptions)
        counted = [o for o in r['obligations'] if o['counted']]
        nfail = 0
        ph = {'harness': h.name, 'status': r['status'], 'backend': h.backend, 'seconds': r['seconds'],
              'solver_seconds': r.get('solver_seconds'), 'obligations': len(counted),
              'enforces': h.enforce, 'replaces': h.replace, 'loop_contracts': h.loop_contracts,
              'loop_invariant_step_obligations': r.get('n_loop_step', 0), 'note': h.note}
        if r['status'] == 'broken':
            broken.append((h, r))
        elif r['status'] == 'undecided':
            undecided.append((h, r))
        else:
            if h.bounded:
                bounded_list.append({'harness': h.name, 'bound': h.bounded, 'obligations': len(counted),
                                     'failed': len([o for o in counted if o['status'] == 'FAILURE'])})
            else:
                total += len(counted)
            nknown = 0
            for o in counted:
                if o['status'] == 'SUCCESS':
                    if not h.bounded:
                        discharged += 1
                else:
                    nfail += 1
                    k = match_known(known, h.name, o)
                    if k:
                        known_hits.append((h, o, k))
                        nknown += 1
                    else:
                        violations.append((h, o))
            if nfail and nknown == nfail:
                ph['status'] = 'proved except for the recorded known findings'
            ph['failed_as_known_findings'] = nknown
            if counted and len(samples) < 40:
                o = counted[min(len(counted) - 1, 1)]
                samples.append({'harness': h.name, 'obligation': o['name'], 'description': o['description'],
                                'location': '%s:%s' % (o['file'], o['line']), 'status': o['status']})
        ph['failed'] = nfail
        if r['reason']:
            ph['reason'] = r['reason'][:600]
        per_harness.append(ph)

    exit_code = 0
    lines = []
    # known findings: one line per entry
    seen = set()
    for h, o, k in known_hits:
        kid = k.get('id', k.get('what', ''))
        if kid in seen:
            continue
        seen.add(kid)
        lines.append('KNOWN-FINDING: property=%s %s' % (prop, k.get('what', '')))
    # violations: group per harness (first failing obligation leads)
    vio_files = []
    by_h = {}
    for h, o in violations:
        by_h.setdefault(h.name, (h, []))[1].append(o)
    for hname, (h, obs) in by_h.items():
        obs.sort(key=_rank)
        lead = obs[0]
        inputs = {k: v for k, v in (lead.get('inputs') or {}).items()}
        reproduced, rtext, rcmd = (False, '', '')
        if h.replay and inputs is not None:
            try:
                reproduced, rtext, rcmd = h.replay(lead, inputs, obs)
            except Exception as e:  # replay infrastructure must never mask the violation
                rtext = 'replay driver error: %r' % (e,)
        rp = os.path.join(replaydir, '%s.%s.json' % (prop, re.sub(r'[^\w.-]', '_', hname)))
        with open(rp, 'w') as f:
            json.dump({'property': prop, 'harness': hname,
                       'failed_obligations': [{k: o[k] for k in ('name', 'description', 'file', 'line', 'function')}
                                              for o in obs],
                       'verifier_inputs': inputs, 'replayed_on_real_code': reproduced,
                       'replay_cmd': rcmd, 'replay_output': rtext,
                       'verifier_cmd': h.result.get('cmd', ''),
                       'verifier_output': os.path.join(outdir, hname + '.log')}, f, indent=1)
        vio_files.append(rp)
        suffix = '' if reproduced else ' no-failing-input-found'
        lines.append('VIOLATION property=%s replay=%s%s' % (prop, rp, suffix))
        lines.append('  failed obligation: %s at %s:%s: %s%s' % (
            lead['name'], lead['file'], lead['line'], lead['description'][:140],
            ' (+%d more in this harness)' % (len(obs) - 1) if len(obs) > 1 else ''))
        exit_code = 1
    if exit_code == 0 and (undecided or broken):
        exit_code = 2
    for h, r in broken:
        lines.append('BROKEN harness=%s: %s' % (h.name, r['reason'][:500]))
    for h, r in undecided:
        lines.append('UNDECIDED harness=%s: %s' % (h.name, r['reason'][:500]))

    wall = round(time.time() - t0, 2)
    fn_list = []
    for (fname, inst), fi in sorted(functions.items(), key=lambda kv: (kv[1]['file'], kv[1]['line'], str(kv[0]))):
        fn_list.append({'function': fname, 'instantiation': inst, 'file': fi['file'], 'line': fi['line'],
                        'rules_fired': fi.get('rules_fired'), 'spec_substitutions': fi.get('spec_substitutions'),
                        'signature_dropped': fi.get('signature_dropped')})
    ev = {
        'property_id': prop, 'tier': tier, 'seed': seed, 'level': 'proof',
        'coverage': {
            # obligations that fail and are listed as open known findings are reported under known_findings, not counted here:
            # the proof-level claim covers the remaining obligations, all of which must be discharged
            'obligations': total - len(known_hits), 'discharged': discharged,
            'obligations_failing_as_known_findings': len(known_hits),
            'checker_cmd': 'per harness: goto-cc --function harness <extracted>.c && goto-instrument --dfcc harness '
                           '--enforce-contract <f> [--replace-call-with-contract <g>] [--apply-loop-contracts] && '
                           'cbmc --json-ui --trace --conversion-check --unwinding-assertions [...]; '
                           'exact command per harness under per_harness[].cmd in build/%s/*.json' % prop,
            'trusted_base': meta.get('trusted_base', []) + [
                'CBMC 6.11.0 (goto-cc, goto-instrument DFCC, cbmc, back ends MiniSat/kissat/cvc5)',
                'extractor /verif/vp/extract.py with rewrite rules R1..R20 (fire counts per function in functions_under_contract)',
                'machine model: LP64, two\'s complement, IEEE-754 binary64, signed char'],
            'samples': samples,
            'functions_under_contract': fn_list,
            'not_under_contract': meta.get('not_under_contract', []),
            'per_harness': per_harness,
            'bounded': bounded_list,
            'undecided': [{'harness': h.name, 'reason': r['reason'][:300]} for h, r in undecided],
            'broken': [{'harness': h.name, 'reason': r['reason'][:300]} for h, r in broken],
            'stubs_assumed': sorted(stubs),
            'known_findings': [{'harness': h.name, 'obligation': o['name'], 'what': k.get('what')}
                               for h, o, k in known_hits],
            'decides': meta.get('decides', ''),
            'not_decided': meta.get('not_decided', ''),
            'exhaustive': False,
        },
        'assumptions': sorted(assumptions),
        'wall_s': wall,
        'violations': len(by_h),
    }
    # the evidence file describes a complete run on /repo's working tree: partial (--only) runs and sensitivity sub-runs write theirs
    # into the build directory instead
    evdir = os.path.join(VERIF, 'evidence') if not (partial or os.environ.get('VP_NO_EVIDENCE')) else outdir
    os.makedirs(evdir, exist_ok=True)
    with open(os.path.join(evdir, prop + ('.json' if evdir != outdir else '.partial-evidence.json')), 'w') as f:
        json.dump(ev, f, indent=1)
    for ln in lines:
        print(ln)
    print('%s tier=%s: %d harnesses, %d obligations, %d discharged, %d violations, %d known, %d undecided, %d broken, %.1fs'
          % (prop, tier, len(harnesses), total, discharged, len(by_h), len(seen), len(undecided), len(broken), wall))
    sys.stdout.flush()
    return exit_code
