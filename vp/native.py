"""Native builds of /repo's working tree for replay drivers (never the deciding step)."""
import hashlib
import os
import subprocess
from concurrent.futures import ThreadPoolExecutor

from .run import BUILD, VERIF
from . import extract

REPO = os.environ.get('VP_REPO', '/repo')

MP_SOURCES = ['src/expr.cc', 'src/nl-reader.cc', 'src/option.cc', 'src/os.cc', 'src/posix.cc', 'src/problem.cc',
              'src/rstparser.cc', 'src/sol.cc', 'src/solver.cc', 'src/sp.cc', 'src/std_constr.cc',
              'src/utils_file.cc', 'src/utils_string.cc', 'src/utils_clock.cc', 'src/expr-info.cc',
              'src/format.cc', 'src/mp/flat/encodings.cpp', 'src/mp/flat/piecewise_linear.cpp']
DEFS = ['-DMP_DATE=20240320', '-DMP_SYSINFO="Linux x86_64"', '-DMP_USE_ATOMIC', '-DMP_USE_HASH', '-DMP_USE_UNIQUE_PTR']


def build_objects(sources, flags, tag):
    """Compile the given /repo sources (working tree) with flags; returns list of object files."""
    out = os.path.join(BUILD, 'native', tag)
    os.makedirs(out, exist_ok=True)

    def one(src):
        obj = os.path.join(out, src.replace('/', '_') + '.o')
        path = os.path.join(REPO, src)
        if src in extract.GENERATED:       # build products (git-ignored): regenerated from the current generator, not read from a stale copy
            path = os.path.join(extract.generated_dir(), extract.GENERATED[src])
        cmd = ['g++', '-std=c++17', '-w', '-c', path, '-o', obj,
               '-I', os.path.join(REPO, 'include'), '-I', os.path.join(REPO, 'src'),
               '-I', os.path.join(REPO, 'nl-writer2/include')] + DEFS + flags
        p = subprocess.run(cmd, capture_output=True, text=True)
        if p.returncode != 0:
            raise RuntimeError('native build of %s failed: %s' % (src, p.stderr[-1500:]))
        return obj
    with ThreadPoolExecutor(max_workers=16) as ex:
        return list(ex.map(one, sources))


def build_driver(driver_cc, out_name, sources=(), flags=(), tag='plain'):
    """Compile a replay driver from /verif/replay against /repo's working tree."""
    flags = list(flags)
    objs = build_objects(list(sources), flags, tag) if sources else []
    out = os.path.join(BUILD, 'replay', out_name)
    os.makedirs(os.path.dirname(out), exist_ok=True)
    cmd = ['g++', '-std=c++17', '-w', os.path.join(VERIF, 'replay', driver_cc), '-o', out,
           '-I', os.path.join(REPO, 'include'), '-I', os.path.join(REPO, 'src'),
           '-I', os.path.join(REPO, 'nl-writer2/include')] + DEFS + flags + objs
    p = subprocess.run(cmd, capture_output=True, text=True)
    if p.returncode != 0:
        raise RuntimeError('replay driver build failed: %s' % p.stderr[-2000:])
    return out, ' '.join(cmd)
