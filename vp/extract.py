"""Mechanical extraction of C++ function bodies from /repo into CBMC's C dialect.

Nothing here looks at what the code means: an anchor regex finds a signature,
a brace/string/comment aware scanner takes the body, and a fixed list of
token-level rewrite rules (DESIGN.md 3.1, R1..R20) turns C++ spellings into C
spellings.  Every rule records how often it fired.  A spec may add its own
substitutions, each with an expected fire count; a substitution that does not
fire as expected aborts the run with ExtractionError (exit 2, never a
violation).
"""
import os
import re

REPO = os.environ.get("VP_REPO", "/repo")


class ExtractionError(Exception):
    pass


def blank_comments(text):
    """Replace comments by spaces (newlines kept) so offsets and line numbers are stable."""
    out = []
    i, n = 0, len(text)
    while i < n:
        c = text[i]
        if c == '/' and i + 1 < n and text[i + 1] == '/':
            j = text.find('\n', i)
            if j < 0:
                j = n
            out.append(' ' * (j - i))
            i = j
        elif c == '/' and i + 1 < n and text[i + 1] == '*':
            j = text.find('*/', i + 2)
            j = n if j < 0 else j + 2
            out.append(''.join(ch if ch == '\n' else ' ' for ch in text[i:j]))
            i = j
        elif c == '"' or c == "'":
            j = i + 1
            while j < n and text[j] != c:
                if text[j] == '\\':
                    j += 1
                j += 1
            out.append(text[i:j + 1])
            i = j + 1
        else:
            out.append(c)
            i += 1
    return ''.join(out)


def skip_literal(text, i):
    """text[i] is a quote; return index after the literal."""
    q = text[i]
    j = i + 1
    n = len(text)
    while j < n and text[j] != q:
        if text[j] == '\\':
            j += 1
        j += 1
    return j + 1


def match_close(text, i, open_ch='{', close_ch='}'):
    """text[i] == open_ch; return index of the matching close_ch (comments must be blanked)."""
    assert text[i] == open_ch, (text[i:i + 20], open_ch)
    depth = 0
    n = len(text)
    j = i
    while j < n:
        c = text[j]
        if c == '"' or c == "'":
            j = skip_literal(text, j)
            continue
        if c == open_ch:
            depth += 1
        elif c == close_ch:
            depth -= 1
            if depth == 0:
                return j
        j += 1
    raise ExtractionError("unbalanced %s at offset %d" % (open_ch, i))


def line_of(text, off):
    return text.count('\n', 0, off) + 1


class Extracted:
    def __init__(self):
        self.file = None
        self.line = 0          # line of body's opening brace
        self.sig_line = 0
        self.signature = ''    # C++ signature text (dropped, replaced by C prototype)
        self.init_list = ''    # member initialiser list text, if any
        self.body = ''         # '{ ... }' original (comments blanked)
        self.end_line = 0


GENERATED = {'src/expr-info.cc': 'expr-info.cc', 'nl-writer2/include/mp/nl-opcodes.h': 'nl-opcodes.h'}
_generated_dir = [None]


def generated_dir():
    """src/expr-info.cc and nl-opcodes.h are build products (git-ignored): they are regenerated on every run from the current
    src/gen-expr-info.cc, exactly as the CMake rule does, so a change of the generator or of common.h is seen."""
    if _generated_dir[0]:
        return _generated_dir[0]
    import subprocess
    import fcntl
    d = os.path.join(os.environ.get('VP_BUILD') or os.path.join(os.path.dirname(os.path.dirname(os.path.abspath(__file__))), 'build'), 'generated')
    os.makedirs(d, exist_ok=True)
    with open(os.path.join(d, '.lock'), 'w') as lock:
        fcntl.flock(lock, fcntl.LOCK_EX)
        gen = os.path.join(d, 'gen-expr-info')
        cmd = ['g++', '-std=c++17', '-w', '-O0', '-I', os.path.join(REPO, 'include')] + \
              [os.path.join(REPO, x) for x in ('src/gen-expr-info.cc', 'src/format.cc', 'src/posix.cc')] + ['-o', gen]
        p = subprocess.run(cmd, capture_output=True, text=True)
        if p.returncode != 0:
            raise ExtractionError('gen-expr-info does not build: ' + p.stderr[-800:])
        p = subprocess.run([gen, os.path.join(d, 'expr-info.cc'), os.path.join(d, 'nl-opcodes.h')], capture_output=True, text=True, timeout=60)
        if p.returncode != 0:
            raise ExtractionError('gen-expr-info failed: ' + (p.stdout + p.stderr)[-800:])
    _generated_dir[0] = d
    return d


def read_repo(relpath):
    p = os.path.join(REPO, relpath)
    if relpath in GENERATED:
        p = os.path.join(generated_dir(), GENERATED[relpath])
    try:
        with open(p, encoding='utf-8', errors='replace') as f:
            return f.read()
    except OSError as e:
        raise ExtractionError("cannot read %s: %s" % (p, e))


def find_function(relpath, anchor, ordinal=0, nmatches=None):
    """Find the function whose signature matches regex `anchor` and return its body.

    The anchor must match the start of the signature; the body is the first '{'
    at parenthesis depth 0 after the match, up to its matching '}'.
    Matches that are followed by ';' before any '{' (declarations) are skipped.
    """
    raw = read_repo(relpath)
    text = blank_comments(raw)
    cands = []
    for m in re.finditer(anchor, text, re.M):
        # walk to first '{' or ';' at paren depth 0 (the anchor itself may already contain the opening brace)
        j = m.start()
        depth = 0
        n = len(text)
        found = None
        past_anchor = False
        while j < n:
            c = text[j]
            if c == '"' or c == "'":
                j = skip_literal(text, j)
                continue
            if c == '(':
                depth += 1
            elif c == ')':
                depth -= 1
            elif depth == 0 and c == ';' and j >= m.end():
                break
            elif depth == 0 and c == '{':
                found = j
                break
            j += 1
        if found is not None:
            cands.append((m.start(), m.end(), found))
    if nmatches is not None and len(cands) != nmatches:
        raise ExtractionError("%s: anchor /%s/ matched %d definitions, spec expects %d"
                              % (relpath, anchor, len(cands), nmatches))
    if ordinal >= len(cands):
        raise ExtractionError("%s: anchor /%s/ matched %d definitions, need ordinal %d"
                              % (relpath, anchor, len(cands), ordinal))
    s, e, b = cands[ordinal]
    close = match_close(text, b)
    ex = Extracted()
    ex.file = relpath
    ex.sig_line = line_of(text, s)
    ex.line = line_of(text, b)
    ex.end_line = line_of(text, close)
    sig = text[s:b]
    # member initialiser list: ') : a(x), b(y) {'
    ex.signature = sig
    ex.init_list = ''
    # find the ')' closing the parameter list: first '(' after anchor start
    po = sig.find('(')
    if po >= 0:
        pc = match_close(sig, po, '(', ')')
        rest = sig[pc + 1:]
        mm = re.match(r'\s*(?:const\s*)?(?:noexcept\s*)?(?:override\s*)?:(?!:)', rest)
        if mm:
            ex.init_list = rest[mm.end():].strip()
            ex.signature = sig[:pc + 1]
    ex.body = text[b:close + 1]
    return ex


def find_block(relpath, begin, end, ordinal=0):
    """Statement range [begin-anchor start, end-anchor end) of a file (comments blanked)."""
    raw = read_repo(relpath)
    text = blank_comments(raw)
    ms = list(re.finditer(begin, text, re.M))
    if ordinal >= len(ms):
        raise ExtractionError("%s: block begin /%s/ matched %d times" % (relpath, begin, len(ms)))
    s = ms[ordinal].start()
    me = re.compile(end, re.M).search(text, ms[ordinal].end())
    if not me:
        raise ExtractionError("%s: block end /%s/ not found" % (relpath, end))
    ex = Extracted()
    ex.file = relpath
    ex.line = ex.sig_line = line_of(text, s)
    ex.end_line = line_of(text, me.end())
    ex.body = text[s:me.end()]
    ex.signature = ''
    ex.init_list = ''
    return ex


def find_braced(relpath, anchor, ordinal=0):
    """Text from the anchor match up to the matching '}' of the first '{' after it
    (enum / struct / array initialiser definitions)."""
    raw = read_repo(relpath)
    text = blank_comments(raw)
    ms = list(re.finditer(anchor, text, re.M))
    if ordinal >= len(ms):
        raise ExtractionError("%s: anchor /%s/ matched %d times" % (relpath, anchor, len(ms)))
    s = ms[ordinal].start()
    b = text.find('{', ms[ordinal].start())
    if b < 0:
        raise ExtractionError("%s: no '{' after /%s/" % (relpath, anchor))
    close = match_close(text, b)
    ex = Extracted()
    ex.file = relpath
    ex.line = ex.sig_line = line_of(text, s)
    ex.end_line = line_of(text, close)
    ex.signature = text[s:b]
    ex.body = text[b:close + 1]
    ex.init_list = ''
    return ex


# --------------------------------------------------------------------------
# rewrite rules

SCALARS = r'(?:unsigned\s+char|unsigned\s+int|unsigned\s+long|long\s+long|unsigned|int|double|long|size_t|char|short|float|bool|Int|UInt|T|U|Long)'


class Rules:
    """Applies R1..R20 to a body and counts fires."""

    def __init__(self):
        self.fired = {}

    def _count(self, rule, n):
        if n:
            self.fired[rule] = self.fired.get(rule, 0) + n

    def sub(self, rule, pat, repl, text, flags=0):
        new, n = re.subn(pat, repl, text, flags=flags)
        self._count(rule, n)
        return new

    def r_throw(self, text):
        # R6: throw E(args);  ->  VP_THROW(E);
        out = []
        i = 0
        n_f = 0
        for m in re.finditer(r'\bthrow\s+([A-Za-z_][\w:]*)\s*(?:<[^<>;]*>)?\s*\(', text):
            if m.start() < i:
                continue
            po = m.end() - 1
            pc = match_close(text, po, '(', ')')
            k = pc + 1
            while k < len(text) and text[k] in ' \t\n':
                k += 1
            if k >= len(text) or text[k] != ';':
                raise ExtractionError("throw expression not followed by ';' near: %r" % text[m.start():k + 10])
            gap = text[m.start():k + 1]
            nl = gap.count('\n')
            name = m.group(1).split('::')[-1]
            out.append(text[i:m.start()])
            out.append('VP_THROW(%s);' % name + '\n' * nl)
            i = k + 1
            n_f += 1
        out.append(text[i:])
        self._count('R6', n_f)
        # bare rethrow is outside the subset
        return ''.join(out)

    def r_casts(self, text):
        # R2: static_cast<T>(e) -> ((T)(e))
        n_f = 0
        while True:
            m = re.search(r'\b(?:static|reinterpret|const)_cast\s*<', text)
            if not m:
                break
            lt = m.end() - 1
            depth = 0
            j = lt
            while j < len(text):
                if text[j] == '<':
                    depth += 1
                elif text[j] == '>':
                    depth -= 1
                    if depth == 0:
                        break
                j += 1
            ty = text[lt + 1:j].strip()
            k = j + 1
            while text[k] in ' \t\n':
                k += 1
            if text[k] != '(':
                raise ExtractionError("cast without '(' near %r" % text[m.start():k + 10])
            pc = match_close(text, k, '(', ')')
            text = text[:m.start()] + '((' + ty + ')(' + text[k + 1:pc] + '))' + text[pc + 1:]
            n_f += 1
        self._count('R2', n_f)
        # functional casts on scalar types: int(x) -> (int)(x); not after 'sizeof', not declarations
        def fc(m):
            return m.group(1) + '(' + m.group(2) + ')('
        text, n2 = re.subn(r'(^|[^\w.>])(' + r'unsigned|int|double|long|size_t|short|float|bool' + r')\s*\((?!\s*\*)',
                           fc, text)
        self._count('R2f', n2)
        return text

    def apply(self, text, skip=()):
        if 'R6' not in skip:
            text = self.r_throw(text)
        if 'R2' not in skip:
            text = self.r_casts(text)
        if 'R4' not in skip:
            text = self.sub('R4', r'(?:std::)?numeric_limits\s*<\s*([\w: ]+?)\s*>\s*::\s*max\s*\(\s*\)',
                            lambda m: 'VP_MAX(%s)' % m.group(1).replace('::', '_').replace(' ', '_'), text)
            text = self.sub('R4', r'(?:std::)?numeric_limits\s*<\s*([\w: ]+?)\s*>\s*::\s*min\s*\(\s*\)',
                            lambda m: 'VP_MIN(%s)' % m.group(1).replace('::', '_').replace(' ', '_'), text)
            text = self.sub('R4', r'(?:std::)?numeric_limits\s*<\s*([\w: ]+?)\s*>\s*::\s*lowest\s*\(\s*\)',
                            lambda m: 'VP_LOWEST(%s)' % m.group(1).replace('::', '_').replace(' ', '_'), text)
            text = self.sub('R4', r'(?:std::)?numeric_limits\s*<\s*([\w: ]+?)\s*>\s*::\s*infinity\s*\(\s*\)',
                            lambda m: 'VP_INF(%s)' % m.group(1).replace('::', '_').replace(' ', '_'), text)
            text = self.sub('R4', r'(?:std::)?numeric_limits\s*<\s*([\w: ]+?)\s*>\s*::\s*(is_integer|is_signed)\b',
                            lambda m: 'VP_%s(%s)' % (m.group(2).upper(), m.group(1).replace('::', '_').replace(' ', '_')), text)
        if 'R1' not in skip:
            text = self.sub('R1', r'\b(?:std|fmt::internal|fmt|mp::internal|mp|internal)::(?=[A-Za-z_])', '', text)
        if 'R5' not in skip:
            text = self.sub('R5', r'\btypename\s+', '', text)
            text = self.sub('R5', r'\bthis\s*->\s*', '', text)
            text = self.sub('R5', r'\.\s*template\s+', '.', text)
        if 'R3' not in skip:
            text = self.sub('R3', r'\b(?:const\s+)?auto\s*&?\s*(?=[A-Za-z_]\w*\s*=)', '__auto_type ', text)
        if 'R12' not in skip:
            text = self.sub('R12', r'\bnullptr\b', 'NULL', text)
        if 'R14' not in skip:
            text = self.r_decl_in_while(text)
            text = self.r_decl_in_if(text)
        if 'R10' not in skip:
            text = self.r_range_for(text)
        if 'R19' not in skip:
            text = self.r_forever(text)
        if 'R17' not in skip:
            # f<T>(...) with a scalar T -> f_T(...)
            text = self.sub('R17t', r'\b([A-Za-z_]\w*)\s*<\s*(' + SCALARS + r')\s*>\s*(?=\()',
                            lambda m: m.group(1) + '_' + re.sub(r'\s+', '_', m.group(2)), text)
            prev = None
            while prev != text:
                prev = text
                text = self.sub('R17', r'\b([A-Za-z_]\w*)::([A-Za-z_]\w*)', r'\1_\2', text)
        return text

    def r_decl_in_while(self, text):
        # R14: while (T x = e) { B }  ->  while (vp_one) { T x = e; if (!x) break; B }
        n_f = 0
        pos = 0
        while True:
            m = re.compile(r'\bwhile\s*\(\s*((?:const\s+)?[A-Za-z_]\w*(?:\s*\*\s*|\s+))([A-Za-z_]\w*)\s*=(?!=)').search(text, pos)
            if not m:
                break
            po = text.index('(', m.start())
            pc = match_close(text, po, '(', ')')
            decl = text[po + 1:pc].strip()
            k = pc + 1
            while text[k] in ' \t\n':
                k += 1
            if text[k] != '{':
                raise ExtractionError("R14: while with declaration but without braces")
            text = text[:m.start()] + 'while (vp_one) { %s; if (!%s) break;' % (decl, m.group(2)) + text[k + 1:]
            n_f += 1
            pos = m.start() + 10
        self._count('R14', n_f)
        return text

    def _stmt_end(self, text, k):
        """index just after the statement starting at/after k (block or up to ';')"""
        while text[k] in ' \t\n':
            k += 1
        if text[k] == '{':
            return match_close(text, k) + 1
        depth = 0
        while k < len(text):
            c = text[k]
            if c in '"\'':
                k = skip_literal(text, k)
                continue
            if c in '([{':
                depth += 1
            elif c in ')]}':
                depth -= 1
            elif c == ';' and depth == 0:
                return k + 1
            k += 1
        raise ExtractionError("R14: statement end not found")

    def r_decl_in_if(self, text):
        # R14: if (T x = e) S [else S']  ->  { T x = e; if (x) S [else S'] }
        n_f = 0
        pos = 0
        rx = re.compile(r'\bif\s*\(\s*((?:const\s+)?[A-Za-z_]\w*(?:\s*\*\s*|\s+))([A-Za-z_]\w*)\s*=(?!=)')
        while True:
            m = rx.search(text, pos)
            if not m:
                break
            po = text.index('(', m.start())
            pc = match_close(text, po, '(', ')')
            decl = text[po + 1:pc].strip()
            e = self._stmt_end(text, pc + 1)
            me = re.compile(r'\s*else\b').match(text, e)
            if me:
                e = self._stmt_end(text, me.end())
            new = '{ %s; if (%s)' % (decl, m.group(2)) + text[pc + 1:e] + ' }'
            text = text[:m.start()] + new + text[e:]
            n_f += 1
            pos = m.start() + 5
        self._count('R14', n_f)
        return text

    def r_range_for(self, text):
        # R10: for (auto v : E) S  ->  for (size_t _kN = 0; _kN < VP_LEN(E); ++_kN) { __auto_type v = VP_AT(E, _kN); S }
        n_f = 0
        pos = 0
        rx = re.compile(r'\bfor\s*\(')
        while True:
            m = rx.search(text, pos)
            if not m:
                break
            po = m.end() - 1
            pc = match_close(text, po, '(', ')')
            inner = text[po + 1:pc]
            mm = re.match(r'\s*(?:const\s+)?(?:auto|__auto_type|int|size_t)\s*&{0,2}\s*([A-Za-z_]\w*)\s*:(?!:)\s*(.+)$', inner, re.S)
            if not mm or ';' in inner:
                pos = pc
                continue
            var, seq = mm.group(1), mm.group(2).strip()
            e = self._stmt_end(text, pc + 1)
            k = pc + 1
            while text[k] in ' \t\n':
                k += 1
            body = text[k:e]
            if body.startswith('{'):
                body = body[1:-1]
            kv = '_k%d' % n_f
            new = ('for (size_t %s = 0; %s < VP_LEN(%s); ++%s) { __auto_type %s = VP_AT(%s, %s); %s }'
                   % (kv, kv, seq, kv, var, seq, kv, body))
            text = text[:m.start()] + new + text[e:]
            n_f += 1
            pos = m.start() + 10
        self._count('R10', n_f)
        return text

    def r_forever(self, text):
        # R19: for (init;;) B -> { init; while (vp_one) B }   (only when init has no ';' inside parens)
        n_f = 0
        pos = 0
        while True:
            m = re.compile(r'\bfor\s*\(').search(text, pos)
            if not m:
                break
            po = m.end() - 1
            pc = match_close(text, po, '(', ')')
            inner = text[po + 1:pc]
            parts = split_top(inner, ';')
            if len(parts) == 3 and parts[1].strip() == '' and parts[2].strip() == '':
                # find the statement end
                k = pc + 1
                while text[k] in ' \t\n':
                    k += 1
                if text[k] != '{':
                    raise ExtractionError("R19: for(;;) without braces near %r" % text[m.start():k + 20])
                bc = match_close(text, k)
                init = parts[0].strip()
                repl_head = '{ %s; while (vp_one)' % init if init else '{ while (vp_one)'
                text = text[:m.start()] + repl_head + text[pc + 1:bc + 1] + ' }' + text[bc + 1:]
                n_f += 1
                pos = m.start() + len(repl_head)
            else:
                pos = pc
        self._count('R19', n_f)
        return text


def index_to_call(text, name, fn):
    """R11: name[expr] -> fn(expr) (bracket matched, innermost first by repeated scanning)"""
    n_f = 0
    rx = re.compile(r'(?<![\w.>])%s\s*\[' % re.escape(name))
    while True:
        m = rx.search(text)
        if not m:
            break
        po = m.end() - 1
        pc = match_close(text, po, '[', ']')
        text = text[:m.start()] + fn + '(' + text[po + 1:pc] + ')' + text[pc + 1:]
        n_f += 1
    return text, n_f


def split_top(s, sep):
    parts = []
    depth = 0
    cur = []
    i = 0
    while i < len(s):
        c = s[i]
        if c in '"\'':
            j = skip_literal(s, i)
            cur.append(s[i:j])
            i = j
            continue
        if c in '([{':
            depth += 1
        elif c in ')]}':
            depth -= 1
        if c == sep and depth == 0:
            parts.append(''.join(cur))
            cur = []
        else:
            cur.append(c)
        i += 1
    parts.append(''.join(cur))
    return parts


def init_list_to_stmts(init_list):
    """R20: member initialiser list 'a(x), b(y)' -> 'a = (x); b = (y);'"""
    stmts = []
    for part in split_top(init_list, ','):
        part = part.strip()
        if not part:
            continue
        m = re.match(r'([A-Za-z_]\w*)\s*[({](.*)[)}]\s*$', part, re.S)
        if not m:
            raise ExtractionError("R20: cannot parse member initialiser %r" % part)
        stmts.append('%s = (%s);' % (m.group(1), m.group(2)))
    return ' '.join(stmts)


LOOP_KW = re.compile(r'\b(for|while|do)\b')


def insert_loop_contracts(body, loops):
    """Insert loop-contract text after the n-th loop header (ordinals in order of the
    loop keyword; for do-while the text goes after the trailing while(...))."""
    if not loops:
        return body, 0
    # collect loops
    found = []   # (ordinal, insertion offset)
    do_stack = []
    i = 0
    n = len(body)
    ordinal = 0
    pos = 0
    depth_brace = 0
    events = []
    while True:
        m = LOOP_KW.search(body, pos)
        if not m:
            break
        # skip if inside a string literal: cheap check by counting quotes on the line before
        ls = body.rfind('\n', 0, m.start()) + 1
        if body.count('"', ls, m.start()) % 2 == 1:
            pos = m.end()
            continue
        kw = m.group(1)
        if kw == 'do':
            k = m.end()
            while body[k] in ' \t\n':
                k += 1
            if body[k] != '{':
                # do stmt; while (...)
                bc = body.index(';', k)
            else:
                bc = match_close(body, k)
            mw = re.compile(r'\s*while\s*\(').match(body, bc + 1)
            if not mw:
                raise ExtractionError("do { } not followed by while")
            po = mw.end() - 1
            pc = match_close(body, po, '(', ')')
            events.append((m.start(), ordinal, pc + 1, 'do', m.end()))
            ordinal += 1
            pos = m.end()
        else:
            k = m.end()
            while body[k] in ' \t\n':
                k += 1
            if body[k] != '(':
                pos = m.end()
                continue
            pc = match_close(body, k, '(', ')')
            # is this the tail of a do-while already recorded?
            if kw == 'while' and any(ev[3] == 'do' and ev[2] == pc + 1 for ev in events):
                pos = pc
                continue
            events.append((m.start(), ordinal, pc + 1, kw, None))
            ordinal += 1
            pos = m.end()
    ins = []
    for (_, o, off, kw, do_off) in events:
        if o in loops:
            # CBMC wants the clauses of a do-while right after 'do', of for/while after the ')'
            ins.append((do_off if kw == 'do' else off, ' ' + ' '.join(loops[o].split()) + ' '))
    missing = set(loops) - {e[1] for e in events}
    if missing:
        raise ExtractionError("loop ordinals %s not found (body has %d loops)" % (sorted(missing), len(events)))
    for off, txt in sorted(ins, reverse=True):
        body = body[:off] + txt + body[off:]
    return body, len(events)


def one_arbitrary_iteration(body, ordinal):
    """R21: `while (C) { B }` -> `if (C) { B VP_ITERATION_END; }` for a loop whose invariant is `true`.
    Sound only when the state at the loop head is arbitrary at function entry, i.e. nothing but declarations
    without initialisers precedes the loop (checked here) and the harness leaves every global nondeterministic:
    one execution of the body from an arbitrary state is the inductive step, the false branch is the loop exit."""
    events = []
    pos = 0
    n = 0
    while True:
        m = LOOP_KW.search(body, pos)
        if not m:
            raise ExtractionError("R21: loop ordinal %d not found" % ordinal)
        if n == ordinal:
            break
        n += 1
        pos = m.end()
    if m.group(1) != 'while':
        raise ExtractionError("R21: loop %d is not a while loop" % ordinal)
    prefix = body[1:m.start()]
    if '=' in prefix or '(' in prefix:
        raise ExtractionError("R21: statements precede the loop: %r" % prefix.strip()[:80])
    k = m.end()
    while body[k] in ' \t\n':
        k += 1
    pc = match_close(body, k, '(', ')')
    j = pc + 1
    while body[j] in ' \t\n':
        j += 1
    if body[j] != '{':
        raise ExtractionError("R21: loop body without braces")
    bc = match_close(body, j)
    inner = body[j + 1:bc]
    if re.search(r'\b(break|continue)\b', re.sub(r'\b(for|while|do|switch)\b.*', '', inner, flags=re.S)) :
        pass
    return body[:m.start()] + 'if' + body[m.end():bc] + ' VP_ITERATION_END; }' + body[bc + 1:]


def add_signal_points(body, macro='VP_SIGNAL_POINT();'):
    """Append a delivery point after every ';' at statement level (outside parentheses)."""
    out = []
    depth = 0
    i = 0
    n = len(body)
    cnt = 0
    while i < n:
        c = body[i]
        if c in '"\'':
            j = skip_literal(body, i)
            out.append(body[i:j])
            i = j
            continue
        if c == '(':
            depth += 1
        elif c == ')':
            depth -= 1
        out.append(c)
        if c == ';' and depth == 0:
            # not after 'return ...;'
            ls = max(body.rfind(';', 0, i), body.rfind('{', 0, i), body.rfind('}', 0, i)) + 1
            stmt = body[ls:i].strip()
            if not stmt.startswith('return') and not stmt.startswith('VP_THROW') and stmt != '' \
               and not stmt.startswith('break') and not stmt.startswith('continue') and not stmt.startswith('goto') \
               and not stmt.startswith('VP_HOOK') and not stmt.startswith('MP_VERIF_SIGNAL_POINT'):
                out.append(' ' + macro)
                cnt += 1
        i += 1
    return ''.join(out), cnt


LEFTOVER = [
    (r'::', "scope operator '::'"),
    (r'\btemplate\b', 'template'),
    (r'\btry\b', 'try'),
    (r'\bcatch\b', 'catch'),
    (r'\bthrow\b', 'throw'),
    (r'\bnew\b', 'new'),
    (r'\bdelete\b', 'delete'),
    (r'\bstatic_cast\b', 'static_cast'),
    (r'\bdynamic_cast\b', 'dynamic_cast'),
    (r'\[\s*[&=]?\s*\]\s*\(', 'lambda'),
]


def check_leftover(text, where):
    for pat, what in LEFTOVER:
        m = re.search(pat, text)
        if m:
            ls = text.rfind('\n', 0, m.start()) + 1
            le = text.find('\n', m.start())
            raise ExtractionError("%s: C++ construct left after rewriting (%s): %r"
                                  % (where, what, text[ls:le].strip()))


class Fn:
    """One function (or block) of /repo put under contract."""

    def __init__(self, file, anchor, proto, contract='', loops=None, subst=(), ordinal=0,
                 nmatches=None, skip=(), pre='', post='', block_end=None, signal_points=False,
                 label=None, inst=None, wrap_body=True, expect_fired=None, drop_init=False, defines=None,
                 one_iteration=None, index_calls=None, refs=None):
        self.file = file
        self.anchor = anchor
        self.proto = proto
        self.contract = contract
        self.loops = loops or {}
        self.subst = list(subst)
        self.ordinal = ordinal
        self.nmatches = nmatches
        self.skip = skip
        self.pre = pre           # C text placed at the start of the body (after '{')
        self.post = post         # C text placed before the final '}'
        self.block_end = block_end
        self.signal_points = signal_points
        self.label = label
        self.inst = inst         # instantiation description for the evidence
        self.wrap_body = wrap_body
        self.expect_fired = expect_fired or {}
        self.drop_init = drop_init
        self.defines = defines or {}
        self.one_iteration = one_iteration
        self.index_calls = index_calls or {}
        self.refs = refs or {}     # R16: C++ reference parameters: name -> pointer parameter of the C prototype
        self.info = None

    def cname(self):
        m = re.search(r'([A-Za-z_]\w*)\s*\(', self.proto)
        return m.group(1)

    def render(self):
        if self.block_end is not None:
            ex = find_block(self.file, self.anchor, self.block_end, self.ordinal)
            body = '{ ' + ex.body + ' }'
        else:
            ex = find_function(self.file, self.anchor, self.ordinal, self.nmatches)
            body = ex.body
        rules = Rules()
        orig = body
        init = ''
        if ex.init_list and not self.drop_init:
            init = init_list_to_stmts(ex.init_list)
            rules._count('R20', 1)
        if init:
            body = '{ ' + init + ' ' + body[1:]
        # spec substitutions first (on original C++ text), then generic rules
        sub_report = []
        for s in self.subst:
            pat, repl = s[0], s[1]
            expect = s[2] if len(s) > 2 else None
            body, n = re.subn(pat, repl, body, flags=re.S)
            if ((expect is None or expect >= 1) and n == 0) or (expect == 0 and n != 0):   # a count >= 1 means 'fires at least once'
                raise ExtractionError("%s:%d %s: substitution /%s/ fired %d times, expected %s"
                                      % (self.file, ex.line, self.cname(), pat, n,
                                         'at least 1' if expect is None else expect))
            sub_report.append({'pattern': pat, 'replacement': repl if isinstance(repl, str) else '<generated>', 'fired': n})
        body = rules.apply(body, self.skip)
        for nm, fnm in self.index_calls.items():
            body, n_ix = index_to_call(body, nm, fnm)
            rules._count('R11', n_ix)
        for r, cnt in self.expect_fired.items():
            if rules.fired.get(r, 0) != cnt:
                raise ExtractionError("%s: rule %s fired %d times, spec expects %d"
                                      % (self.cname(), r, rules.fired.get(r, 0), cnt))
        nsig = 0
        if self.signal_points:
            inner, nsig = add_signal_points(body[1:-1])
            body = '{' + inner + '}'
        if self.one_iteration is not None:
            body = one_arbitrary_iteration(body, self.one_iteration)
            rules._count('R21', 1)
        body, nloops = insert_loop_contracts(body, self.loops)
        check_leftover(body, '%s:%d %s' % (self.file, ex.line, self.cname()))
        if self.pre:
            body = '{ ' + self.pre + ' ' + body[1:]
        if self.post:
            body = body[:-1] + ' ' + self.post + ' }'
        # R16: a reference parameter `T& x` is read from the REAL signature: by reference -> `#define x (*x_p)`;
        # if the source (no longer) takes it by reference the body works on a copy, exactly as the C++ would
        ref_defs = {}
        ref_copies = ''
        for nm, ptr in self.refs.items():
            if re.search(r'&\s*%s\b' % re.escape(nm), ex.signature):
                ref_defs[nm] = '(*%s)' % ptr
            elif re.search(r'\b%s\b' % re.escape(nm), ex.signature):
                ref_copies += '__auto_type %s = *%s; ' % (nm, ptr)
                rules._count('R16-by-value', 1)
            else:
                raise ExtractionError("%s: parameter %s not found in signature %r" % (self.cname(), nm, ' '.join(ex.signature.split())))
        if ref_copies:
            body = '{ ' + ref_copies + body[1:]
        alldefs = dict(self.defines)
        alldefs.update(ref_defs)
        defs = ''.join('#define %s %s\n' % kv for kv in alldefs.items())
        undefs = ''.join('#undef %s\n' % k for k in alldefs)
        text = '#line %d "%s"\n%s\n%s\n%s#line %d "%s"\n%s\n%s' % (
            ex.sig_line, os.path.join(REPO, ex.file), self.proto,
            ' '.join(self.contract.split()), defs,
            ex.line, os.path.join(REPO, ex.file), body, undefs)
        self.info = {
            'function': self.label or self.cname(),
            'c_name': self.cname(),
            'file': ex.file, 'line': ex.sig_line, 'end_line': ex.end_line,
            'instantiation': self.inst,
            'signature_dropped': ' '.join(ex.signature.split()),
            'rules_fired': dict(rules.fired),
            'spec_substitutions': sub_report,
            'loops_in_body': nloops, 'loops_annotated': sorted(self.loops),
            'signal_points': nsig,
            'init_list_dropped': ' '.join(ex.init_list.split()) if (ex.init_list and self.drop_init) else '',
        }
        return text


class Braced:
    """A struct / array definition extracted verbatim (signature + braces + ';') with substitutions."""

    def __init__(self, file, anchor, subst=(), header=None, label=None):
        self.file, self.anchor, self.subst, self.header, self.label = file, anchor, list(subst), header, label
        self.info = None

    def render(self):
        ex = find_braced(self.file, self.anchor)
        body = ex.body
        rep = []
        for s_ in self.subst:
            pat, repl = s_[0], s_[1]
            expect = s_[2] if len(s_) > 2 else None
            body, n = re.subn(pat, repl, body, flags=re.S)
            if ((expect is None or expect >= 1) and n == 0) or (expect == 0 and n != 0):   # a count >= 1 means 'fires at least once'
                raise ExtractionError("%s:%d: substitution /%s/ fired %d times, expected %s" % (self.file, ex.line, pat, n, expect))
            rep.append({'pattern': pat, 'replacement': repl, 'fired': n})
        rules = Rules()
        body = rules.apply(body)
        head = self.header if self.header is not None else ' '.join(ex.signature.split())
        self.info = {'function': self.label or head, 'c_name': head, 'file': ex.file, 'line': ex.line,
                     'end_line': ex.end_line, 'instantiation': None, 'signature_dropped': '',
                     'rules_fired': dict(rules.fired), 'spec_substitutions': rep}
        return '#line %d "%s"\n%s %s;\n' % (ex.line, os.path.join(REPO, ex.file), head, body)


def extract_enum(file, anchor, prefix='', strip_init_scope=True):
    """Extract an enum definition as C text; enumerator names get `prefix`."""
    ex = find_braced(file, anchor)
    body = ex.body
    if prefix:
        # prefix each enumerator (identifier at start of an item) and references in initialisers
        names = []
        for item in split_top(body[1:-1], ','):
            m = re.match(r'\s*([A-Za-z_]\w*)', item)
            if m:
                names.append(m.group(1))
        for nm in sorted(set(names), key=len, reverse=True):
            body = re.sub(r'\b%s\b' % re.escape(nm), prefix + nm, body)
    body = re.sub(r'\b[A-Za-z_]\w*::', '', body)
    m = re.search(r'enum\s+(?:class\s+)?([A-Za-z_]\w*)?', ex.signature)
    name = (m.group(1) if m and m.group(1) else 'anon')
    text = '#line %d "%s"\nenum %s%s %s;\n' % (ex.line, os.path.join(REPO, file), prefix, name, body)
    return text, {'file': file, 'line': ex.line, 'enum': name}
