/* Stub of ASL's funcadd.h (thirdparty/asl is empty in this checkout), written from ASL's public
   interface: only what src/gsl/amplgsl.cc uses.  Trusted, listed in the evidence. */
#ifndef VP_FUNCADD_H
#define VP_FUNCADD_H
#include <stddef.h>
#include <stdarg.h>
typedef double real;
typedef struct arglist arglist;
typedef struct AmplExports AmplExports;
typedef struct TMInfo TMInfo;
typedef struct function function;
typedef real (*rfunc)(arglist *);
typedef char Char;
typedef void Exitfunc(void *);
struct arglist {
  int n;            /* number of args */
  int nr;           /* number of real input args */
  int *at;          /* argument types */
  real *ra;         /* pure real args (IN, OUT, and INOUT) */
  const char **sa;  /* symbolic IN args */
  real *derivs;     /* for partial derivatives (if nonzero) */
  real *hes;        /* for second partials (if nonzero) */
  char *dig;        /* if (dig && dig[i]) { partials w.r.t. ra[i] will not be used } */
  Char *funcinfo;   /* for use by the function (if desired) */
  AmplExports *AE;  /* functions made visible */
  function *f;
  void *tva;
  char *Errmsg;     /* To indicate an error, set this to a description of the error. */
  TMInfo *TMI;      /* used in Tempmem calls */
  Char *Private;
  int nin, nout, nsin, nsout;
};
struct AmplExports {
  void *StdErr;
  void (*Addfunc)(const char *name, rfunc f, int type, int nargs, void *funcinfo, AmplExports *ae);
  void *(*Tempmem)(TMInfo *, size_t);
  int (*SnprintF)(char *, size_t, const char *, ...);
  int (*VsnprintF)(char *, size_t, const char *, va_list);
  void (*AtReset)(AmplExports *, Exitfunc *, void *);
};
enum { FUNCADD_REAL_VALUED = 0, FUNCADD_STRING_VALUED = 2, FUNCADD_RANDOM_VALUED = 8 };
#define addfunc(a, b, c, d, e) ae->Addfunc(a, b, c, d, e, ae)
#define at_reset(f, v) ae->AtReset(ae, f, v)
#endif
