/* Shim for the C rendering of functions extracted from /repo (see DESIGN.md 3.1). */
#ifndef VP_MP_SHIM_H
#define VP_MP_SHIM_H
#include <stdbool.h>
#include <stddef.h>
#include <limits.h>
#include <float.h>
#include <stdint.h>
#include <stdlib.h>
#include <string.h>

/* R6/R7: a throw ends the path; it is legal only when the spec's condition holds */
#define VP_THROW(E) do { __CPROVER_assert(VP_MAY_THROW_##E, "throws " #E " only when the specification allows it"); \
                         __CPROVER_assume(0); } while (0)
/* reachability canary: must FAIL (be reachable) */
#define VP_REACH(name) __CPROVER_assert(0, "vp_canary " name)

/* R4 */
#define VP_MAX(T) VP_MAX_##T
#define VP_MIN(T) VP_MIN_##T
#define VP_LOWEST(T) VP_LOWEST_##T
#define VP_INF(T) VP_INF_##T
#define VP_IS_INTEGER(T) VP_IS_INTEGER_##T
#define VP_IS_SIGNED(T) VP_IS_SIGNED_##T
#define VP_MAX_int INT_MAX
#define VP_MIN_int INT_MIN
#define VP_MAX_unsigned UINT_MAX
#define VP_MIN_unsigned 0u
#define VP_MAX_long LONG_MAX
#define VP_MIN_long LONG_MIN
#define VP_MAX_size_t SIZE_MAX
#define VP_MIN_size_t ((size_t)0)
#define VP_MAX_short SHRT_MAX
#define VP_MIN_short SHRT_MIN
#define VP_MAX_double DBL_MAX
#define VP_MIN_double DBL_MIN
#define VP_LOWEST_double (-DBL_MAX)
#define VP_INF_double (__builtin_inf())
#define VP_INF_float (__builtin_inff())

/* R21: end of the one arbitrary iteration of a loop with invariant `true` */
#define VP_ITERATION_END __CPROVER_assume(0)
/* call-free integrality test (contracts / invariants may not call floor/ceil); equals floor(x) == ceil(x) for every non-NaN double */
#define VP_ISINT(x) ((x) >= 9.2e18 || (x) <= -9.2e18 || (x) == (double)(long long)(x))
/* R19 */
extern int vp_one;

int nondet_int(void);
unsigned nondet_unsigned(void);
long nondet_long(void);
unsigned long nondet_ulong(void);
long long nondet_longlong(void);
unsigned long long nondet_ulonglong(void);
size_t nondet_size_t(void);
char nondet_char(void);
short nondet_short(void);
_Bool nondet_bool(void);
double nondet_double(void);
void *nondet_ptr(void);
/* allocation never fails (global assumption, DESIGN.md 6) */
static inline void *vp_malloc(size_t n) { void *p = malloc(n); __CPROVER_assume(p != NULL); return p; }
#endif
