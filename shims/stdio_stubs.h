/* Stubs for the libc functions used by the extracted readers (assumed, not proved; DESIGN.md 6).
   They check the caller's obligations (buffer sizes) as assertions at the real call sites and return an
   arbitrary result allowed by the C standard ("any file content").
   strlen is a contract stub (use with --replace-call-with-contract): it REQUIRES that a NUL byte is known
   at or after the string start (ghost g_nul_ptr, set by fgets or by a ghost statement next to a store of 0),
   and ensures that the first NUL is not after that witness. */
#ifndef VP_STDIO_STUBS_H
#define VP_STDIO_STUBS_H
#include "mp_shim.h"

typedef struct vp_FILE { int dummy; } FILE;
#define VP_OBJ_REMAINING(p) (__CPROVER_OBJECT_SIZE(p) - __CPROVER_POINTER_OFFSET(p))
#define getc vp_getc
#define ungetc vp_ungetc
#define rewind vp_rewind
#define strtod vp_strtod
#define strtol vp_strtol
#define strlen vp_strlen
#define strncmp vp_strncmp

/* ghost: address of a byte known to be NUL */
char *g_nul_ptr;
#define VP_NUL_AT_OR_AFTER(s) (__CPROVER_same_object((s), g_nul_ptr) && \
   __CPROVER_POINTER_OFFSET(s) <= __CPROVER_POINTER_OFFSET(g_nul_ptr) && \
   __CPROVER_POINTER_OFFSET(g_nul_ptr) < __CPROVER_OBJECT_SIZE(g_nul_ptr) && *g_nul_ptr == 0)
#define VP_WITNESS_LEN(s) ((size_t)(__CPROVER_POINTER_OFFSET(g_nul_ptr) - __CPROVER_POINTER_OFFSET(s)))

/* fgets / fread / memcpy / strcpy are GNU statement-expression macros, i.e. the stub is inlined at every call site:
   symbolic execution then knows the exact target object of each site.  (A shared stub function merges the targets
   of all sites, and a byte-precise havoc with a symbolic length over a symbolic-size candidate does not terminate.)
   For the one buffer whose size comes from the file (std::vector<char> xp of a suffix, ghost g_big) the whole
   object is havocked and the highest offset written is recorded; fixed-size buffers are havocked byte-precisely. */
char *g_big; size_t g_big_size; size_t g_big_hi;
#define VP_WRITE_BYTES(p, n) do { void *vp_wp = (p); size_t vp_wn = (n); if (vp_wn) { \
    if (__CPROVER_same_object(vp_wp, g_big)) { \
      if (__CPROVER_POINTER_OFFSET(vp_wp) + vp_wn > g_big_hi) g_big_hi = __CPROVER_POINTER_OFFSET(vp_wp) + vp_wn; \
      __CPROVER_havoc_object(g_big); \
    } else __CPROVER_havoc_slice(vp_wp, vp_wn); } } while (0)
/* call sites whose target is the file-sized buffer (selected by the spec, checked here): no byte-precise branch,
   because after a loop contract has havocked the cursor its possible targets are all objects */
#define VP_WRITE_BYTES_BIG(p, n) do { void *vp_wp = (p); size_t vp_wn = (n); \
    __CPROVER_assert(__CPROVER_same_object(vp_wp, g_big), "write goes into the suffix buffer"); \
    if (vp_wn) { \
      if (__CPROVER_POINTER_OFFSET(vp_wp) + vp_wn > g_big_hi) g_big_hi = __CPROVER_POINTER_OFFSET(vp_wp) + vp_wn; \
      __CPROVER_havoc_object(g_big); } } while (0)

#define VP_FGETS_W(W, s, n, f) ({ char *vp_s = (s); int vp_n = (n); char *vp_r = (char *)0; (void)(f); \
  __CPROVER_assert(vp_n >= 1, "fgets: size argument is at least 1"); \
  __CPROVER_assert(__CPROVER_w_ok(vp_s, (size_t)vp_n), "fgets: the buffer holds the size passed"); \
  if (nondet_bool()) {                             /* else: EOF or error */ \
    size_t vp_len = nondet_size_t(); \
    __CPROVER_assume(vp_len < (size_t)vp_n && (vp_n < 2 || vp_len >= 1)); \
    W(vp_s, (size_t)vp_n); \
    vp_s[vp_len] = 0; g_nul_ptr = vp_s + vp_len; vp_r = vp_s; } \
  vp_r; })
#define fgets(s, n, f) VP_FGETS_W(VP_WRITE_BYTES, s, n, f)
#define vp_fgets_big(s, n, f) VP_FGETS_W(VP_WRITE_BYTES_BIG, s, n, f)

/* with -DVP_TRACK_FREAD: the bytes of COMPLETE items delivered by fread so far (what the caller may rely on), for the contracts that say
   "a value reported as read was read completely" */
#ifdef VP_TRACK_FREAD
size_t g_fread_total;
#define VP_FREAD_COUNT(n) (g_fread_total += (n))
#define VP_FREAD_REQ __CPROVER_requires(g_fread_total < ((size_t)1 << 40))
#define VP_FREAD_ENS(cond, nbytes) __CPROVER_ensures((cond) ==> g_fread_total == __CPROVER_old(g_fread_total) + (nbytes))
#define VP_FREAD_ASSIGNS , g_fread_total
#else
#define VP_FREAD_COUNT(n) ((void)0)
#define VP_FREAD_REQ
#define VP_FREAD_ENS(cond, nbytes)
#define VP_FREAD_ASSIGNS
#endif
#define VP_FREAD_W(W, p, size, nmemb, f) ({ void *vp_p = (void *)(p); size_t vp_sz = (size), vp_nm = (nmemb); (void)(f); \
  __CPROVER_assert(vp_sz == 0 || vp_nm <= SIZE_MAX / vp_sz, "fread: size * nmemb does not overflow"); \
  __CPROVER_assert(vp_sz * vp_nm == 0 || __CPROVER_w_ok(vp_p, vp_sz * vp_nm), "fread: the buffer holds size * nmemb bytes"); \
  W(vp_p, vp_sz * vp_nm); \
  size_t vp_rr = nondet_size_t(); __CPROVER_assume(vp_rr <= vp_nm); VP_FREAD_COUNT(vp_rr * vp_sz); vp_rr; })
#define fread(p, size, nmemb, f) VP_FREAD_W(VP_WRITE_BYTES, p, size, nmemb, f)
#define vp_fread_big(p, size, nmemb, f) VP_FREAD_W(VP_WRITE_BYTES_BIG, p, size, nmemb, f)

#define VP_MEMCPY_W(W, d, s, n) ({ void *vp_d = (void *)(d); const void *vp_src = (const void *)(s); size_t vp_cn = (n); \
  __CPROVER_assert(vp_cn == 0 || __CPROVER_r_ok(vp_src, vp_cn), "memcpy: source readable"); \
  __CPROVER_assert(vp_cn == 0 || __CPROVER_w_ok(vp_d, vp_cn), "memcpy: destination writable"); \
  W(vp_d, vp_cn); vp_d; })
#define memcpy(d, s, n) VP_MEMCPY_W(VP_WRITE_BYTES, d, s, n)
#define vp_memcpy_big(d, s, n) VP_MEMCPY_W(VP_WRITE_BYTES_BIG, d, s, n)

/* strcpy: the first NUL of the source is not after the witness g_nul_ptr */
#define VP_STRCPY_W(W, d, s) ({ char *vp_d = (d); const char *vp_src = (s); \
  __CPROVER_assert(VP_NUL_AT_OR_AFTER(vp_src), "strcpy: a NUL is known at or after the source start"); \
  size_t vp_k = nondet_size_t(); __CPROVER_assume(vp_k <= VP_WITNESS_LEN(vp_src)); \
  __CPROVER_assert(__CPROVER_w_ok(vp_d, vp_k + 1), "strcpy: destination holds the string and its terminator"); \
  W(vp_d, vp_k + 1); vp_d; })
#define strcpy(d, s) VP_STRCPY_W(VP_WRITE_BYTES, d, s)
#define vp_strcpy_big(d, s) VP_STRCPY_W(VP_WRITE_BYTES_BIG, d, s)

int getc(FILE *f) { int c = nondet_int(); __CPROVER_assume(-1 <= c && c <= 255); return c; }
int ungetc(int c, FILE *f) { return c; }
void rewind(FILE *f) {}

/* strtod / strtol: the end pointer stays inside the object of s; the value is arbitrary.
   (NUL-termination of s is the caller's obligation and is not checked here.) */
double strtod(const char *s, char **endp) {
  __CPROVER_assert(__CPROVER_r_ok(s, 1), "strtod: readable string");
  size_t k = nondet_size_t();
  __CPROVER_assume(k < VP_OBJ_REMAINING(s));
  if (endp) *endp = (char *)s + k;
  return nondet_double();
}
long strtol(const char *s, char **endp, int base) {
  __CPROVER_assert(__CPROVER_r_ok(s, 1), "strtol: readable string");
  size_t k = nondet_size_t();
  __CPROVER_assume(k < VP_OBJ_REMAINING(s));
  if (endp) *endp = (char *)s + k;
  return nondet_long();
}
size_t strlen(const char *s)
__CPROVER_requires(VP_NUL_AT_OR_AFTER(s))
__CPROVER_ensures(__CPROVER_return_value <= VP_WITNESS_LEN(s) && s[__CPROVER_return_value] == 0)
__CPROVER_assigns();

/* strncmp with n <= 8 (every call site in the verified code passes a constant 6, 7 or 8): loop-free, exact */
#define VP_CMP_STEP(i) if ((i) < n) { unsigned char x = (unsigned char)a[i], y = (unsigned char)b[i]; \
                                      if (x != y) return x < y ? -1 : 1; if (!x) return 0; }
int strncmp(const char *a, const char *b, size_t n) {
  __CPROVER_assert(n <= 8, "strncmp stub: n <= 8");
  VP_CMP_STEP(0) VP_CMP_STEP(1) VP_CMP_STEP(2) VP_CMP_STEP(3) VP_CMP_STEP(4) VP_CMP_STEP(5) VP_CMP_STEP(6) VP_CMP_STEP(7)
  return 0;
}
#endif
