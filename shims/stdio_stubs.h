/* Body stubs for the libc functions used by the extracted readers (assumed, not proved; DESIGN.md 6).
   Each stub checks the caller's obligations (buffer sizes) as assertions at the real call site and
   returns an arbitrary result allowed by the C standard. */
#ifndef VP_STDIO_STUBS_H
#define VP_STDIO_STUBS_H
#include "mp_shim.h"

typedef struct vp_FILE { int dummy; } FILE;
#define VP_OBJ_REMAINING(p) (__CPROVER_OBJECT_SIZE(p) - __CPROVER_POINTER_OFFSET(p))


char *fgets(char *s, int n, FILE *f) {
  __CPROVER_assert(n >= 1, "fgets: size argument is at least 1");
  __CPROVER_assert(__CPROVER_w_ok(s, (size_t)n), "fgets: the buffer holds the size passed");
  if (nondet_bool()) return (char *)0;           /* EOF or error */
  size_t len = nondet_size_t();
  __CPROVER_assume(len < (size_t)n && (n < 2 || len >= 1));
  __CPROVER_havoc_slice(s, (size_t)n);
  s[len] = 0;
  return s;
}
size_t fread(void *p, size_t size, size_t nmemb, FILE *f) {
  __CPROVER_assert(size == 0 || nmemb <= SIZE_MAX / size, "fread: size * nmemb does not overflow");
  __CPROVER_assert(size * nmemb == 0 || __CPROVER_w_ok(p, size * nmemb), "fread: the buffer holds size * nmemb bytes");
  if (size * nmemb) __CPROVER_havoc_slice(p, size * nmemb);
  size_t r = nondet_size_t();
  __CPROVER_assume(r <= nmemb);
  return r;
}
int getc(FILE *f) { int c = nondet_int(); __CPROVER_assume(-1 <= c && c <= 255); return c; }
int ungetc(int c, FILE *f) { return c; }
void rewind(FILE *f) {}

/* strtod / strtol: the end pointer stays inside the object of s; the value is arbitrary.
   (NUL-termination of s is the caller's obligation and is not checked here.) */
double strtod(const char *s, char **endp) {
  __CPROVER_assert(__CPROVER_r_ok(s, 1), "strtod: readable string");
  size_t k = nondet_size_t();
  __CPROVER_assume(k < VP_OBJ_REMAINING(s));
  if (endp) *endp = (char *)s + k;
  return nondet_double();
}
long strtol(const char *s, char **endp, int base) {
  __CPROVER_assert(__CPROVER_r_ok(s, 1), "strtol: readable string");
  size_t k = nondet_size_t();
  __CPROVER_assume(k < VP_OBJ_REMAINING(s));
  if (endp) *endp = (char *)s + k;
  return nondet_long();
}
/* strlen / strcpy: scan to the FIRST NUL.  That s is NUL-terminated inside its object is the caller's
   obligation and is assumed here through an angelic witness g (s[g] == 0); the scan loops carry loop contracts. */
size_t strlen(const char *s) {
  size_t g = nondet_size_t();
  __CPROVER_assume(g < VP_OBJ_REMAINING(s) && s[g] == 0);
  size_t k = 0;
  while (s[k])
    __CPROVER_assigns(k) __CPROVER_loop_invariant(k <= g) __CPROVER_decreases(g - k)
  { ++k; }
  return k;
}
char *strcpy(char *d, const char *s) {
  size_t g = nondet_size_t();
  __CPROVER_assume(g < VP_OBJ_REMAINING(s) && s[g] == 0);
  size_t k = 0;
  while (s[k])
    __CPROVER_assigns(k) __CPROVER_loop_invariant(k <= g) __CPROVER_decreases(g - k)
  { ++k; }
  __CPROVER_assert(__CPROVER_w_ok(d, k + 1), "strcpy: destination holds the string and its terminator");
  __CPROVER_havoc_slice(d, k + 1);
  d[k] = 0;
  return d;
}
void *memcpy(void *d, const void *s, size_t n) {
  __CPROVER_assert(n == 0 || __CPROVER_r_ok(s, n), "memcpy: source readable");
  __CPROVER_assert(n == 0 || __CPROVER_w_ok(d, n), "memcpy: destination writable");
  if (n) __CPROVER_havoc_slice(d, n);
  return d;
}
int strncmp(const char *a, const char *b, size_t n) {
  size_t i = 0;
  while (i < n)
    __CPROVER_assigns(i) __CPROVER_loop_invariant(i <= n) __CPROVER_decreases(n - i)
  {
    unsigned char x = (unsigned char)a[i], y = (unsigned char)b[i];
    if (x != y) return x < y ? -1 : 1;
    if (!x) return 0;
    ++i;
  }
  return 0;
}
#endif
